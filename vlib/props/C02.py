"""C02 - Unauthenticated peers see only the masquerade web server (DESIGN.md section 4, C02)."""
import sys

from vlib import c01lib, common

GO = dict(module="core", pkg=c01lib.PKG, pkgname=c01lib.PKGNAME,
          files=dict(c01lib.ENV_FILES, **{"zz_verif_c02_test.go": "c02/c02_test.go", "zz_verif_c02gate_test.go": "c02/c02gate_test.go"}),
          run="TestVerifC02")
PARAMS_NAME = c01lib.PARAMS_NAME
HEADER = ("From Hy Require Import gen.ParamsC01 model.C01_ServerAuth corr.C01_Corr corr.C02_Corr.\n"
          "Local Open Scope N_scope.\n")
CORR_NAME = "C02_Corr"
PER_SHARD = 3
EXTRA_TARGETS = ["corr/C01_Corr.vo", "corr/C02_Corr.vo"]
RULE = ("seeded generator of request sequences (25-30 requests per connection) over real HTTP/3 to a real server.NewServer with "
        "(0) no masquerade handler (plain 404), (1)/(2) custom handlers with unusual status codes (incl. 232/234), headers "
        "(multi-valued Set-Cookie, Location) and bodies: the grid methods x authorities x request-targets around POST hysteria /auth "
        "(GET/HEAD/PUT/post, Hysteria, hysteria:443, hysteria., /auth/, /Auth, //auth, /auth/../auth, /auth?x=1 and /%61uth which ARE "
        "auth requests), with Hysteria-Auth / Hysteria-CC-RX / Hysteria-Padding headers, accepted-looking and rejected credentials, "
        "CC-RX overflow / syntax errors; a third of the connections get accepted in the middle and go on sending near-misses and "
        "repeats; every connection ends with a raw 0x401 stream and a datagram. Every response is compared with the same handler on an "
        "httptest recorder (status, headers minus Date/Content-Length, body). Gate histories: an auth request (credentials that will be "
        "accepted / rejected) is HELD inside Authenticator.Authenticate by a blocking fake; while it is undecided further auth requests "
        "(junk, empty and good-looking credentials), requests that are not auth requests, raw 0x401 / other streams and datagrams arrive on "
        "the same connection; then the harness releases the authenticator and goes on; verdict on the boundary log: no response other "
        "than the masquerade's, no stream / datagram reply and no outbound call before an Authenticate call on that connection has "
        "returned an accepting verdict. Non-trivial = a request that is not an accepted auth "
        "request and whose response was compared with the oracle; distinct = distinct (config, request) pairs.")
ASSUMPTIONS = [
    "net/http and quic-go/http3 turn :method / :authority / :path into r.Method / r.Host / r.URL.Path as url.ParseRequestURI does (the harness "
    "computes the path the same way; exercised by the near-miss corpus, not modelled)",
    "Date and Content-Length are transport-level headers added by http3 to every response and are excluded from the comparison; a HEAD response has no body",
    "the custom masquerade handlers of the harness are deterministic functions of (method, host, path, query, Hysteria-Auth)",
]
TRUSTED = ["modelled rather than verified: h3sHandler.ServeHTTP / masqHandler of core/server/server.go and protocol/http.go "
           "(hand transcription in coq/model/C01_ServerAuth.v, shared with C01)"]

METHODS = ["POST"] * 6 + ["GET", "HEAD", "PUT", "post", "DELETE", "OPTIONS", "PATCH"]
HOSTS = ["hysteria"] * 6 + ["Hysteria", "HYSTERIA", "hysteria:443", "hysteria.", "hysteri", "www.hysteria", "example.com", "127.0.0.1:443"]
TARGETS = ["/auth"] * 6 + ["/auth/", "/Auth", "//auth", "/auth/../auth", "/auth?x=1", "/%61uth", "/auth%2f", "/", "/index.html", "/a/b?c=d",
                            "/auth;x", "/AUTH", "/aut", "/authh"]
CCRX = ["", "0", "100000", "99999999999999999999999", "+5", "12a", "18446744073709551615", "18446744073709551616", "5 5", "0x10", "1_000"]
CCRX_OK = ["", "0", "100000", "65536", "+5", "12a", "4294967296"]


def req(rng, n, good=False):
    m, h, t = rng.choice(METHODS), rng.choice(HOSTS), rng.choice(TARGETS)
    r = rng.random()
    if r < 0.25:
        m, h, t = "POST", "hysteria", rng.choice(["/auth", "/auth", "/auth?x=1", "/%61uth"])     # a real auth request (rejected credentials)
    elif r < 0.45:
        # exactly one coordinate off
        k = rng.randrange(3)
        m = rng.choice(["GET", "HEAD", "PUT", "post"]) if k == 0 else "POST"
        h = rng.choice(["Hysteria", "hysteria:443", "hysteria.", "hysteri"]) if k == 1 else "hysteria"
        t = rng.choice(["/auth/", "/Auth", "//auth", "/auth/../auth", "/aut", "/authh"]) if k == 2 else "/auth"
    hasa = rng.random() < 0.7
    cred = rng.choice(["bad-c0-%d" % n, "", "good", "GOOD-c0-%d" % n, "x good-c0-%d" % n])
    is_auth = m == "POST" and h == "hysteria" and t in ("/auth", "/auth?x=1", "/%61uth")
    if not is_auth and rng.random() < 0.6:
        cred = "good-c0-%d" % n          # credentials that WOULD be accepted, on a request that is not an auth request
    if is_auth and cred == "good":
        cred = "bad"
    out = {"m": m, "h": h, "t": t, "auth": cred if hasa else "", "hasa": hasa, "ccrx": rng.choice(CCRX), "hasrx": rng.random() < 0.6,
           "pad": rng.random() < 0.3, "body": rng.choice(["", "", "hello"]) if m in ("POST", "PUT", "PATCH") else ""}
    if not out["hasrx"]:
        out["ccrx"] = ""
    return out


def accepted_auth(rng, n):
    return {"m": "POST", "h": "hysteria", "t": "/auth", "auth": "good-c0-%d" % n, "hasa": True, "ccrx": rng.choice(CCRX_OK), "hasrx": True,
            "pad": True, "body": ""}


def non_auth_req(rng, n):
    while True:
        r = req(rng, n)
        if not (r["m"] == "POST" and r["h"] == "hysteria" and r["t"] in ("/auth", "/auth?x=1", "/%61uth")):
            return r


def gate_case(rng, masq, good_first, idx):
    """an auth request held inside Authenticate; what arrives on the connection while the authenticator is undecided"""
    cfg = {"udp": rng.random() < 0.8, "masq": masq, "ignbw": rng.random() < 0.3, "maxtx": rng.choice([0, 65536]),
           "maxrx": rng.choice([0, 65536, 250000])}
    pre = [req(rng, j) for j in range(rng.randint(0, 3))]
    first = {"m": "POST", "h": "hysteria", "t": "/auth", "auth": ("good" if good_first else "bad") + "-hold-c0-%d" % idx, "hasa": True,
             "ccrx": rng.choice(CCRX_OK), "hasrx": True, "pad": rng.random() < 0.5, "body": ""}
    win = []
    creds = ["junk-c0-w%d" % j for j in range(4)] + ["bad-c0-w9", "x good-c0-w8"]
    rng.shuffle(creds)
    nj = rng.randint(2, 3)
    for j in range(nj):
        cred = creds[j]
        if j == 1 and rng.random() < 0.4:
            cred = "good-c0-w7"              # would be accepted - when its turn comes, after the held one has been decided
        a = {"m": "POST", "h": "hysteria", "t": rng.choice(["/auth", "/auth", "/auth?x=1", "/%61uth"]), "auth": cred, "hasa": True,
             "ccrx": rng.choice(CCRX_OK), "hasrx": rng.random() < 0.7, "pad": rng.random() < 0.3, "body": ""}
        if not a["hasrx"]:
            a["ccrx"] = ""
        win.append({"a": "auth", "req": a})
    if rng.random() < 0.4:
        win.append({"a": "auth", "req": {"m": "POST", "h": "hysteria", "t": "/auth", "auth": "", "hasa": False, "ccrx": "", "hasrx": False,
                                         "pad": False, "body": ""}})
    for j in range(rng.randint(3, 5)):
        win.append({"a": "req", "req": non_auth_req(rng, 50 + j)})
    for j in range(rng.randint(1, 2)):
        win.append({"a": "tcp", "ft": 0x401, "addr": "c0-w%d-%s:80" % (j, rng.choice(["echo", "echo", "fail"]))})
    if rng.random() < 0.5:
        win.append({"a": "tcp", "ft": rng.choice([0x400, 0x402, 0x21, -1]), "addr": "c0-wx-echo:80"})
    win.append({"a": "udp", "addr": "c0-wu:53"})
    rng.shuffle(win)
    post = [{"a": "tcp", "ft": 0x401, "addr": "c0-p0-echo:80"}]
    for j in range(rng.randint(2, 4)):
        post.append({"a": "req", "req": req(rng, 100 + j)})
    post.append({"a": "udp", "addr": "c0-pu:53"})
    rng.shuffle(post)
    return {"k": "gate", "cfg": cfg, "reqs": pre, "first": first, "win": win, "post": post, "probe": True}


def gen(rng, tier):
    scale = 1 if tier == "quick" else 16
    cases = []
    i = 0
    for rep in range(2 * scale):
        for masq in (0, 1, 2):
            cases.append(gate_case(rng, masq, (rep + masq) % 2 == 0, len(cases)))
    for rep in range(4 * scale):
        for masq in (0, 1, 2):
            cfg = {"udp": rng.random() < 0.8, "masq": masq, "ignbw": rng.random() < 0.3, "maxtx": rng.choice([0, 65536]),
                   "maxrx": rng.choice([0, 65536, 250000])}
            n = rng.randint(24, 30)
            reqs = [req(rng, j) for j in range(n)]
            if (rep + masq) % 3 == 2:
                reqs[rng.randint(8, 16)] = accepted_auth(rng, 99)
            cases.append({"k": "conn", "cfg": cfg, "reqs": reqs, "probe": True})
            i += 1
    return cases


def to_coq(c, o):
    if not o.get("log"):
        return None
    cfg = c["cfg"]
    gate = c["k"] == "gate"
    ev, table = c01lib.log_to_events(o["log"], conc=gate)
    rs = []
    for r in o.get("rs") or []:
        if r.get("skip"):
            continue
        padn = 0
        for k, v in r.get("hdr") or []:
            if k == "Hysteria-Padding" and v.startswith("#"):
                padn = int(v[1:])
        e = {"m": r["m"], "h": r["h"], "p": r["p"], "auth": r.get("auth", ""), "ccrx": r.get("ccrx", "")}
        rs.append("mkRq %s %s %s %s %s %d %s %s" % (
            c01lib.req_term(e, 0), "true" if r["was"] else "false", "true" if r["called"] else "false", r.get("crx") or "0",
            "true" if r["acc"] else "false", padn, c01lib.resp_term(r["st"], r["hdr"], r["body"]),
            c01lib.resp_term(r["ost"], r["ohdr"], r["obody"])))
    return "%s %s %s\n [%s]\n [%s]\n [%s]" % ("CGate" if gate else "CConn", c01lib.cfg_term(cfg), "true" if cfg["masq"] != 0 else "false",
                                                ";\n  ".join(table), ";\n  ".join(ev), ";\n  ".join(rs))


def req_class(r):
    form = r["m"] == "POST" and r["h"] == "hysteria" and r["p"] == "/auth"
    if r.get("skip"):
        return "not-sent"
    if form:
        return "auth:accepted" if r["acc"] else "auth:repeat-on-authed" if r["was"] else "auth:rejected"
    off = (r["m"] != "POST") + (r["h"] != "hysteria") + (r["p"] != "/auth")
    return "near-miss(1 off)" if off == 1 else "other"


def klass(c, o):
    if c["k"] == "gate":
        return "gate(held auth %s)/masq=%d" % ("accepted" if c["first"]["auth"].startswith("good") else "rejected", c["cfg"]["masq"])
    return "masq=%d/%s" % (c["cfg"]["masq"], "accepted-midway" if o.get("authed") else "never-accepted")


def features(c, o):
    f = set(req_class(r) + ("/after-auth" if r["was"] else "") for r in o.get("rs") or [])
    if c["k"] == "gate":
        held = False
        for x in o.get("log") or []:
            if x["k"] == "window":
                held = True
            elif x["k"] == "release":
                held = False
            elif held and x["k"] == "req" and not x.get("bar"):
                f.add("while-authenticator-undecided:" + ("auth-request" if x.get("af") else "other-request"))
            elif held and x["k"] == "resp" and not x.get("bar"):
                f.add("while-authenticator-undecided:response")
            elif held and x["k"] == "stream":
                f.add("while-authenticator-undecided:stream")
            elif held and x["k"] == "dgram":
                f.add("while-authenticator-undecided:datagram")
    if o.get("stream") is not None:
        f.add("probe-stream:" + ("reply" if o.get("streamn") else "no-reply"))
        f.add("probe-datagram:" + ("reply" if o.get("dreply") else "no-reply"))
    return f


def nontrivial(c, o):
    return any(not r.get("skip") and not r["acc"] and not (r["was"] and req_class(r).startswith("auth")) for r in o.get("rs") or [])


def count_evaluations(cases, outs):
    """one evaluation = one HTTP/3 request sent and compared (plus the two probes per connection)."""
    return sum(len([r for r in o.get("rs") or [] if not r.get("skip")]) + (2 if o.get("stream") is not None else 0) for o in outs)


def nontrivial_keys(c, o):
    """distinct (configuration, request) pairs that were NOT accepted auth requests and were compared with the oracle."""
    import json
    ks = set()
    for r in o.get("rs") or []:
        if r.get("skip") or r["acc"] or (r["was"] and req_class(r).startswith("auth")):
            continue
        ks.add(json.dumps([c["cfg"]["masq"], r["was"], r["m"], r["h"], r["p"], r.get("auth"), r.get("ccrx")]))
    return ks


def fingerprint(c, o):
    import re
    why = o.get("why") or ""
    return "c02:" + re.sub(r'"[^"]*"|\d+', "#", why)[:90]


def search(ctx, disagreeing):
    import random
    found = []
    for s in range(2):
        rng = random.Random(ctx.seed * 1000 + s + 29)
        cases = gen(rng, "quick")
        ok, outs, _, log = common.run_go_cases(ctx, GO, cases, tag="search%d" % s)
        for c, o in zip(cases, outs):
            if o.get("ok") is False:
                found.append({"what": "%s: %s" % (c["k"], o.get("why")), "replay": {"case": c, "impl": o},
                              "fingerprint": fingerprint(c, o), "found_input": True})
        if found:
            break
    return found


def run(ctx):
    return c01lib.run_check(ctx, sys.modules[__name__])


def replay(ctx, path):
    return c01lib.replay(ctx, sys.modules[__name__], path)


LEVEL_TEXT = ("Machine-checked Coq theorems over the model of ServeHTTP shared with C01, for ANY masquerade handler (a function from "
              "requests to responses): a non-auth request and a rejected auth request get exactly the handler's response (status, headers, "
              "body); in every run a response that differs from the handler's is the 233 response to an auth request preceded by an "
              "accepting verdict on the same connection; is_auth_req holds for exactly one (method, host, path) triple; on an "
              "unauthenticated connection a proxy stream / datagram makes nothing observable and no dialling / relaying step is enabled. "
              "Tied to /repo on every run by regenerated constants and by ~300 real HTTP/3 requests per run compared with the handler "
              "mounted on an httptest recorder and replayed through the model in Coq (vm_compute).")
LEVEL_NOTE = ("Trusted: Coq kernel + vm_compute; hand-written model (tie = sampled end-to-end requests + regenerated Params); python/Go glue. "
              "No axioms. Not proved: how net/http / http3 canonicalise :authority and :path; transport-level headers.")
TECHNIQUE = "Coq proof on a hand-written model (any masquerade handler) + end-to-end differential check against an httptest oracle, replayed in vm_compute"
DESIGN_REF = "DESIGN.md section 4 C02"
