"""C03 - Peer-controlled bytes never crash the process (DESIGN.md section 4, C03).

Aggregate property: one Go harness per package of the property's file list (GO_ALL), each running
every network-facing entry point of that package under recover() on a seeded stream of boundary,
mutated-valid and random inputs (sequences for the stateful receivers), plus model-comparison
cases for the gaps C03 models itself (datagram receive paths, speed test, STUN)."""
import json
import os
import random
import time
from concurrent.futures import ThreadPoolExecutor

from vlib import common

H = "c03/"
GO_ALL = [
    dict(module="core", pkg="internal/protocol", pkgname="protocol", files={"zz_verif_c03_test.go": H + "protocol_test.go"},
         eps=["ParseUDPMessage", "ReadTCPRequest", "ReadTCPResponse"]),
    dict(module="core", pkg="internal/frag", pkgname="frag", files={"zz_verif_c03_test.go": H + "frag_test.go"},
         eps=["Defragger.Feed", "FragUDPMessage"]),
    dict(module="core", pkg="server", pkgname="server", files={"zz_verif_c03_test.go": H + "server_test.go",
                                                               "zz_verif_c03_dge2e_test.go": H + "server_dgram_e2e_test.go"},
         eps=["server.udpSessionManager.feed", "server.sendMessageAutoFrag"], kinds=["srv", "dg"]),
    dict(module="core", pkg="client", pkgname="client", files={"zz_verif_c03_test.go": H + "client_test.go"},
         eps=["client.udpSessionManager.feed+Receive"], kinds=["cli"]),
    dict(module="extras", pkg="sniff", pkgname="sniff", files={"zz_verif_c03_test.go": H + "sniff_test.go"}, quicbuild=True,
         eps=["sniff.Sniffer.TCP", "sniff.Sniffer.UDP"]),
    dict(module="extras", pkg="sniff/internal/quic", pkgname="quic", files={"zz_verif_c03_test.go": H + "quic_test.go"}, quicbuild=True,
         eps=["quic.ParseInitialHeader", "quic.ReadCryptoPayload", "quic.UnProtect", "quic.extractCryptoFrames",
              "quic.assembleCryptoFrames"]),
    dict(module="extras", pkg="obfs", pkgname="obfs", files={"zz_verif_c03_test.go": H + "obfs_test.go"},
         eps=["obfs.salamander.Deobfuscate", "obfs.obfsPacketConn.ReadFrom", "obfs.gecko.decodeFrame",
              "obfs.geckoPacketConn.ReadFrom(frames)", "obfs.WrapPacketConnGecko.ReadFrom(stack)"], kinds=["gk"]),
    dict(module="extras", pkg="realm", pkgname="realm", files={"zz_verif_c03_test.go": H + "realm_test.go"},
         eps=["realm.DecodePunchPacket", "realm.PunchPacketConn.ReadFrom", "realm.parseSTUNBindingResponse", "realm.Discover"],
         kinds=["ipport", "disc"]),
    dict(module="extras", pkg="outbounds/speedtest", pkgname="speedtest", files={"zz_verif_c03_test.go": H + "speedtest_test.go"},
         eps=["speedtest.server", "speedtest.readers", "speedtest.Client"], kinds=["st"], slow=True),
]
GO = GO_ALL[0]
PARAMS_NAME = "ParamsC03"
HEADER = ("From Hy Require Import lib.Harness lib.Reader model.C03_UDPRecv model.C03_Speedtest model.C03_Stun corr.C03_Corr.\n"
          "From Coq Require Import ZArith.\nLocal Open Scope N_scope.\n")
EXTRA_TARGETS = ["corr/C03_Corr.vo"]
PER_SHARD = 45
RULE = ("per entry point (26 over 9 packages), generated inside the Go harness from the seed: (i) every length 0..40 of zero/0xff/counting "
        "bytes and the entry point's own boundary list (declared-length fields at 0, 1, limit-1, limit, limit+1, 2^14, 2^30, 2^62-1 in every "
        "varint width incl. non-minimal; fragment id/count pairs; TLS record lengths; STUN attribute lengths; Gecko header fields; punch wire "
        "length window); (ii) valid frames from the package's own encoders (UDP messages and fragments, TCP request/response frames, sealed "
        "QUIC Initials with split/reordered/lying CRYPTO frames, Salamander and Gecko datagrams, punch packets, STUN responses, speed-test "
        "requests/replies) mutated: truncated at every position, extended, each header byte flipped three ways, spliced, random edits; "
        "(iii) random bytes. Stateful receivers (Defragger, server/client session managers, obfs and Gecko conns, punch demultiplexer, "
        "Discover) get sequences: permuted, duplicated, interleaved, junk inserted, long runs. Every slice has cap == len. Stream readers are "
        "run under 4 chunkings x 2-3 final errors (x 4 write-failure scripts for the speed-test server). "
        "Plus explicit model-comparison cases for the gaps (server/client receive histories with dial failures, expiries, replies of any "
        "size and quic-go verdict; speed-test scripts; netIPPortToAddrPort; Discover with pion's answers as the oracle; Gecko receiver histories - complete / reordered / "
        "duplicated / interleaved fragment sets, 0..2043-byte chunks, datagrams longer than the 2048-byte buffer, bad totals, index >= total, padding beyond the datagram, truncated headers, "
        "empty datagrams, more than 8 pending ids per source - against the explicit-panic transcription, allocations checked against their caps). "
        "End to end through the real udpIOImpl loops: 2 x hostile raw QUIC client -> real server (1500 + 500 datagram payloads from the UDP decoder's corpus, every 50-100 a valid message must be "
        "echoed on the same connection, then a second real client must get an echo), 1 x hostile raw server -> real client (1500 payloads, the client's UDP sessions must keep receiving). "
        "Non-trivial = an input that gets past the first length check (result class other than the trivial reject) or a multi-action history.")
ASSUMPTIONS = [
    "third-party parsers reached from these entry points (pion/stun, utls, net/http, crypto/aes, cipher.AEAD, x/crypto) do not panic themselves: oracles in the theorems, exercised (not proved) by the harness",
    "a net.PacketConn / io.Reader returns 0 <= n <= len(p) (Go's interface contract; the OS socket and quic-go honour it)",
    "udpIOImpl.ReceiveMessage / SendMessage (server.go / client.go): the in-package histories replicate the parse-or-skip loop (Conn is a concrete *quic.Conn), and the REAL loops are run end to end "
    "(kinds dgsrv / dgcli: a raw quic-go peer sends hostile datagram payloads into a real server resp. a real client over loopback QUIC, with liveness probes on the same connection and a second real client); "
    "the model C03_UDPRecv.v starts behind ReceiveDatagram",
    "assembleCryptoFrames is only ever called with the non-negative offsets extractCryptoFrames produces (it does panic on a hand-made negative offset; unreachable from the wire, C17_extract_frames_never_panics)",
    "out-of-memory / stack exhaustion are outside the model; allocation sizes are bounded by the cited theorems (C04 limits, 65535-byte speed-test message, 256 KiB CRYPTO caps, Gecko 8 x 4096 entries)",
]
TRUSTED = ["modelled rather than verified: core/server/udp.go, core/client/udp.go receive paths (coq/model/C03_UDPRecv.v), extras/outbounds/speedtest/{protocol,server}.go "
           "(coq/model/C03_Speedtest.v), extras/realm/stun.go around pion (coq/model/C03_Stun.v); the other decoders are the models of C04/C05/C13/C14/C17/C20",
           "Gecko receiver: coq/model/C03_Gecko.v transcribes ReadFrom / decodeFrame / acceptChunk with every slice, index and make() as an explicit panic site and is proved to refine C14's model; "
           "tied to the code by the gk cases (real geckoPacketConn on scripted inner datagrams vs run_p in the kernel, allocations checked against the caps); addr.String() on the inner conn's address and the inner conn's n <= len(buf) are the net.PacketConn contract",
           "C03_alloc_bounded collects the peer-sized make() calls of the modelled decoders; fixed-size buffers (udpBufferSize, MaxUDPSize, 1500-byte STUN buffer, 64 KiB speed-test chunk) and the sender-side encoders are not in it; "
           "the Defragger clause bounds the reassembly buffer by the bytes fed for it (255 fragments of one datagram each), not by a constant"]
LEVEL_TEXT = ("Machine-checked Coq theorems (29, all closed under the global context): for every byte string, every reader script and every "
              "sequence of datagrams / environment actions, none of the network-facing decoders and stateful receivers of the property's file "
              "list reaches a Go panic site (slice bounds, index, make, division, nil dereference, send on / double close of a channel, uint32 "
              "wrap) - TCP frame readers and varintPut (C04), ParseUDPMessage, FragUDPMessage, Defragger on arbitrary parsed messages, the "
              "server and client datagram receive paths as folds over arbitrary datagram sequences interleaved with dial failures, expiries, "
              "replies and closes, Salamander + obfs conn (C13), Gecko decodeFrame and receiver bounds (C14) plus the Gecko receive path with all its slice / index / make sites "
              "explicit (C03_gecko_receiver_never_panics: for every sequence of datagrams and ticks no site is reachable and the run equals C14's), the sniffer and QUIC Initial "
              "parsing / UnProtect / CRYPTO frames (C17), DecodePunchPacket and the punch demultiplexer (C20), STUN handling around pion for "
              "every answer pion can give, the speed-test server and readers on every stream; and C03_alloc_bounded: every make() whose size a peer chooses "
              "(TCP frame readers on any script, Defragger, QUIC connection ids / token / CRYPTO frames / assembled stream, Gecko slots / chunk copies / packet, punch window, speed-test message) "
              "is under its cap for every input. The models are tied to /repo on every run: "
              "regenerated constants, a differential run of the real code against the models of the gaps, and the real code of all 26 entry "
              "points run under recover() on ~100k generated inputs / ~500k datagrams (quick tier).")
LEVEL_NOTE = ("Trusted: Coq kernel + vm_compute; hand-written models (tie = sampled differential testing + regenerated Params + crash-freedom "
              "fuzzing of the real code); python/Go glue. No axioms. Not proved: third-party parsers and crypto (oracles); the two "
              "udpIOImpl.ReceiveMessage loops are not modelled (they are exercised end to end with hostile datagrams over real QUIC, and replicated in the in-package histories).")
TECHNIQUE = "Coq proof (invariants over datagram/action sequences and reader scripts) on hand-written models + differential correspondence check in vm_compute + recover()-wrapped generated-input harness over the real code"
DESIGN_REF = "DESIGN.md section 4 C03"


# ------------------------------------------------------------------ wire helpers
def varint(v, w=None):
    if w is None:
        w = 1 if v <= 63 else 2 if v <= 16383 else 4 if v <= (1 << 30) - 1 else 8
    if w == 1:
        return bytes([v & 0x3f])
    if w == 2:
        return bytes([(v >> 8) & 0x3f | 0x40, v & 0xff])
    if w == 4:
        return bytes([(v >> 24) & 0x3f | 0x80, (v >> 16) & 0xff, (v >> 8) & 0xff, v & 0xff])
    return bytes([(v >> 56) & 0x3f | 0xc0]) + (v & ((1 << 56) - 1)).to_bytes(7, "big")


def udpmsg(sid, pid, fid, fc, addr, data, w=None):
    return sid.to_bytes(4, "big") + pid.to_bytes(2, "big") + bytes([fid, fc]) + varint(len(addr), w) + addr + data


def frags_of(rng, sid, pid, n, addr=None):
    addr = addr if addr is not None else bytes(rng.randrange(97, 123) for _ in range(rng.choice([1, 2, 5])))
    return [udpmsg(sid, pid, i, n, addr, bytes(rng.randrange(256) for _ in range(rng.randint(1, 4)))) for i in range(n)]


def junk(rng):
    k = rng.randrange(8)
    if k == 0:
        return bytes(rng.randrange(256) for _ in range(rng.randrange(9)))
    if k == 1:
        return udpmsg(rng.randrange(4), 1, 0, 1, b"", b"x")                      # address length 0
    if k == 2:
        return udpmsg(1, 1, 0, 1, b"ab", b"")                                    # no payload
    if k == 3:
        return (1).to_bytes(4, "big") + b"\x00\x01\x00\x01" + varint(2049, 2) + b"a" * 30
    if k == 4:
        return udpmsg(rng.randrange(4), rng.randrange(4), rng.choice([2, 3, 255]), rng.choice([2, 3]), b"a", b"z")   # id >= count
    if k == 5:
        return udpmsg(rng.randrange(4), 1, 0, 1, b"ab", b"q", w=rng.choice([2, 4, 8]))                                   # non-minimal
    if k == 6:
        return (1).to_bytes(4, "big") + b"\x00\x01\x00\x01" + varint((1 << 62) - 1, 8) + b"a"
    return udpmsg(rng.randrange(4), rng.randrange(1, 4), rng.randrange(256), rng.randrange(256), b"a", b"y")


def gen_srv(rng, n):
    cases = []
    for ci in range(n):
        acts = []
        pool = []
        for _ in range(rng.randint(1, 4)):
            sid, pid, nf = rng.randrange(4), rng.randrange(1, 4), rng.choice([1, 1, 2, 3, 5])
            fr = frags_of(rng, sid, pid, nf) if nf > 1 else [udpmsg(sid, 0, 0, 1, b"t%d" % sid, b"d%d" % rng.randrange(99))]
            fr = fr + [rng.choice(fr) for _ in range(rng.randrange(2))]
            if rng.random() < 0.6:
                rng.shuffle(fr)
            pool.append(fr)
        order = [i for i, f in enumerate(pool) for _ in f]
        if rng.random() < 0.7:
            rng.shuffle(order)
        its = [iter(f) for f in pool]
        for i in order:
            acts.append({"a": "dgram", "hex": next(its[i]).hex(), "log": rng.random() > 0.03, "dial": rng.random() > 0.2})
            r = rng.random()
            if r < 0.15:
                acts.append({"a": "dgram", "hex": junk(rng).hex(), "log": True, "dial": True})
            elif r < 0.25:
                acts.append({"a": "expire", "sid": rng.randrange(4)})
            elif r < 0.45:
                al = rng.choice([1, 10, 63, 64, 300])
                dl = rng.choice([1, 50, 1200, 4000, 4085, 4086, 4096])
                h = 8 + (1 if al <= 63 else 2) + al
                mx = rng.choice([None, None, h + 1, h + 7, h + 16, h + 100, 1200, h, h - 3, 0, -5])
                acts.append({"a": "reply", "sid": rng.randrange(4), "al": al, "dl": dl, "max": mx})
            elif r < 0.48:
                acts.append({"a": "recverr"})
        cases.append({"k": "srv", "acts": acts})
    # a reply that needs exactly 255 / 256 fragments
    for dl, b in ((255, 1), (256, 1), (510, 2), (511, 2)):
        cases.append({"k": "srv", "acts": [{"a": "dgram", "hex": udpmsg(1, 0, 0, 1, b"a:1", b"x").hex(), "log": True, "dial": True},
                                           {"a": "reply", "sid": 1, "al": 1, "dl": dl, "max": 10 + b}]})
    return cases


def gen_cli(rng, n):
    cases = []
    for ci in range(n):
        acts = [{"a": "open"} for _ in range(rng.randint(0, 3))]
        nopen = len(acts)
        for _ in range(rng.randint(1, 4)):
            sid, pid, nf = rng.randrange(1, 5), rng.randrange(1, 4), rng.choice([1, 1, 2, 3, 5])
            fr = frags_of(rng, sid, pid, nf) if nf > 1 else [udpmsg(sid, 0, 0, 1, b"t", b"d%d" % rng.randrange(99))]
            if rng.random() < 0.5:
                rng.shuffle(fr)
            for f in fr:
                acts.append({"a": "dgram", "hex": f.hex()})
                r = rng.random()
                if r < 0.35:
                    acts.append({"a": "receive", "h": rng.randrange(4)})
                elif r < 0.45:
                    acts.append({"a": "dgram", "hex": junk(rng).hex()})
                elif r < 0.52:
                    acts.append({"a": "close", "h": rng.randrange(4)})
                elif r < 0.6:
                    acts.append({"a": "open"})
                    nopen += 1
                elif r < 0.63:
                    acts.append({"a": "recverr"})
        for _ in range(rng.randint(0, 6)):
            acts.append({"a": "receive", "h": rng.randrange(max(1, nopen))})
        cases.append({"k": "cli", "acts": acts})
    # channel full: 1030 messages queued to one conn, then drained
    m = udpmsg(1, 0, 0, 1, b"a", b"b").hex()
    cases.append({"k": "cli", "acts": [{"a": "open"}] + [{"a": "dgram", "hex": m}] * 1030 + [{"a": "receive", "h": 0}] * 3})
    return cases


def ev(data=b"", e="", g=None):
    d = {"d": data.hex(), "e": e}
    if g:
        d["g"] = g
    return d


def chunked(rng, data):
    """cut data into events: small literal chunks, or gen_data blocks for long stretches"""
    evs = []
    i = 0
    while i < len(data):
        k = rng.choice([1, 1, 2, 3, 5, 9, len(data) - i])
        evs.append(ev(data[i:i + k]))
        i += k
        if rng.random() < 0.15:
            evs.append(ev())
    return evs


def gen_st(rng, n):
    cases = []
    CH = 65536
    for ci in range(n):
        typ = rng.choice([1, 1, 2, 2, 2, 0, 3, 255])
        l = rng.choice([0, 1, 5, 100, 100, CH - 1, CH, CH + 1, 2 * CH + 7])
        hdr = bytes([typ]) + l.to_bytes(4, "big")
        if rng.random() < 0.12:
            hdr = hdr[:rng.randrange(len(hdr))]
        evs = chunked(rng, hdr)
        if typ == 2 and len(hdr) == 5:
            # upload body: blocks of generated data around the declared size
            total = max(0, l + rng.choice([0, 0, 0, -1, 1, -l // 2, 50]))
            left = total
            while left > 0:
                k = min(left, rng.choice([1, 7, 1000, CH - 1, CH, CH + 1, 70000]))
                a, b = rng.randrange(256), rng.randrange(256)
                evs.append(ev(common.gen_data(a, b, k), g=[a, b, k]) if k > 16 else ev(common.gen_data(a, b, k)))
                left -= k
                if rng.random() < 0.2:
                    evs.append(ev())
        r = rng.random()
        if r < 0.2:
            evs.append(ev(e="eof"))
        elif r < 0.3:
            evs.insert(rng.randrange(len(evs) + 1), ev(e="other"))
        elif r < 0.4 and evs:
            evs[-1]["e"] = rng.choice(["eof", "other"])
        wr = rng.choice([[], [], [False], [True, False], [True, True, False], [True, True, True, True, False]])
        cases.append({"k": "st", "f": "server", "evs": evs, "wr": wr})
    for ci in range(n // 2):
        f = rng.choice(["response", "response", "summary", "u32"])
        if f == "response":
            ml = rng.choice([0, 1, 2, 300, 65535])
            a, b = rng.randrange(256), rng.randrange(256)
            evs = chunked(rng, bytes([rng.randrange(3)]) + ml.to_bytes(2, "big"))
            body = max(0, ml + rng.choice([0, 0, -1, 5]))
            if body:
                evs.append(ev(common.gen_data(a, b, body), g=[a, b, body]) if body > 16 else ev(common.gen_data(a, b, body)))
        elif f == "summary":
            evs = chunked(rng, rng.choice([0, 1, 4294967295, rng.randrange(2**32)]).to_bytes(4, "big") +
                          rng.randrange(2**32).to_bytes(4, "big"))
        else:
            evs = chunked(rng, rng.randrange(2**32).to_bytes(4, "big"))
        if rng.random() < 0.3 and evs:
            evs = evs[:rng.randrange(len(evs))]
        if rng.random() < 0.3:
            evs.append(ev(e=rng.choice(["eof", "other"])))
        cases.append({"k": "st", "f": f, "evs": evs, "wr": []})
    return cases


def gen_realm(rng, n):
    cases = []
    pre = bytes(10) + b"\xff\xff"
    ips = [b"", b"\x01\x02\x03", bytes([10, 0, 0, 1]), bytes(5), bytes(15), pre + bytes([10, 1, 2, 3]), bytes(range(16)), bytes(17),
           bytes(12) + bytes([1, 2, 3, 4])]
    for ip in ips:
        for port in (-1, 0, 1, 80, 65535, 65536, 1 << 31):
            cases.append({"k": "ipport", "ip": ip.hex(), "port": port})
    for ci in range(n):
        items = []
        for _ in range(rng.randint(1, 6)):
            t = rng.choice(["xor", "xor", "mapped", "both", "none", "other-xor", "other-mapped", "req-xor", "raw", "timeout", "fail"])
            it = {"t": t}
            if t == "raw":
                it["hex"] = bytes(rng.randrange(256) for _ in range(rng.randrange(30))).hex()
            else:
                it["ip"] = rng.choice([bytes([10, 0, 0, rng.randrange(256)]), bytes(rng.randrange(256) for _ in range(16)),
                                       pre + bytes([10, 1, 2, 3])]).hex()
                it["port"] = rng.choice([0, 1, 4242, 65535, 65536, 70000])
            items.append(it)
        cases.append({"k": "disc", "items": items})
    return cases


def gk_frame(mid, idx, tot, pad, payload_len, rng, lie=None):
    """one Gecko fragment frame: 0x80, msgID, idx<<4|tot, padLen, padding, payload (payload as a generated tail)"""
    hd = bytes([0x80 | (rng.randrange(128) if rng.random() < 0.2 else 0), mid, ((idx & 15) << 4) | (tot & 15)]) + \
        (pad if lie is None else lie).to_bytes(2, "big") + bytes(rng.randrange(256) for _ in range(pad))
    return {"hex": hd.hex(), "g": [rng.randrange(256), rng.randrange(256), payload_len]}


def gen_gk(rng, n):
    """sequences of inner datagrams for the Gecko receiver: complete messages of 2..8 chunks (in order, reversed, shuffled,
    duplicated, two messages interleaved, same id from two sources), chunk payloads 0..2043 bytes incl. the largest a 2048-byte
    read buffer can hold and datagrams longer than the buffer, inconsistent totals, index >= total, totals 0/1/9..15, padding
    lengths beyond the datagram, truncated headers, empty datagrams, short-header packets, more than 8 pending ids per source"""
    cases = []
    for ci in range(n):
        pkts = []
        nmsg = rng.choice([1, 1, 2, 3])
        groups = []
        for mi in range(nmsg):
            src = rng.randrange(3)
            mid = rng.choice([0, 1, 7, 255, rng.randrange(256)])
            tot = rng.randrange(2, 9)
            fr = []
            for i in range(tot):
                pl = rng.choice([0, 1, 2, 30, 200, rng.randrange(0, 1200), 2043 if rng.random() < 0.5 else 3000])
                pad = rng.choice([0, 0, 1, 5, 40])
                if pl >= 2043:
                    pad = 0
                f = gk_frame(mid, i, tot, pad, pl, rng)
                f["src"] = src
                fr.append(f)
            k = rng.random()
            if k < 0.3:
                rng.shuffle(fr)
            elif k < 0.45:
                fr.reverse()
            if rng.random() < 0.3:
                fr.insert(rng.randrange(len(fr) + 1), dict(rng.choice(fr)))          # duplicate
            if rng.random() < 0.2:
                fr.pop(rng.randrange(len(fr)))                                        # one chunk never arrives
            groups.append(fr)
        order = [i for i, g in enumerate(groups) for _ in g]
        if rng.random() < 0.6:
            rng.shuffle(order)
        its = [iter(g) for g in groups]
        for i in order:
            pkts.append(next(its[i]))
            r = rng.random()
            if r < 0.25:
                j = rng.randrange(10)
                src = rng.randrange(3)
                if j == 0:
                    pkts.append({"src": src, "hex": "", "g": None})                                           # empty datagram
                elif j == 1:
                    pkts.append({"src": src, "hex": bytes([rng.randrange(128)] + [rng.randrange(256) for _ in range(rng.randrange(40))]).hex(), "g": None})  # short header
                elif j == 2:
                    pkts.append({"src": src, "hex": bytes([0x80] + [rng.randrange(256) for _ in range(rng.randrange(4))]).hex(), "g": None})                 # truncated header
                elif j == 3:
                    f = gk_frame(rng.randrange(256), rng.randrange(16), rng.choice([0, 1, 9, 15]), 0, 3, rng); f["src"] = src; pkts.append(f)               # bad total
                elif j == 4:
                    t = rng.randrange(2, 9)
                    f = gk_frame(rng.randrange(256), rng.randrange(t, 16), t, 0, 3, rng); f["src"] = src; pkts.append(f)                                     # index >= total
                elif j == 5:
                    f = gk_frame(rng.randrange(256), 0, 2, 0, rng.randrange(0, 20), rng, lie=rng.choice([21, 2043, 2044, 65535])); f["src"] = src; pkts.append(f)  # padding beyond the datagram
                elif j == 6 and groups[i]:
                    f = dict(rng.choice(groups[i]))                                                            # same id, different total
                    b = bytearray(bytes.fromhex(f["hex"])); b[2] = (b[2] & 0xf0) | rng.choice([2, 3, 8]); f["hex"] = bytes(b).hex(); pkts.append(f)
                elif j == 7 and groups[i]:
                    f = dict(rng.choice(groups[i])); f["src"] = 5; pkts.append(f)                              # same id from another source
                else:
                    pkts.append({"src": src, "hex": bytes(rng.randrange(256) for _ in range(rng.randrange(1, 12))).hex(), "g": None})
        cases.append({"k": "gk", "rbuf": rng.choice([2048, 2048, 1500, 4096, 100, 1, 0, 20000]), "pkts": pkts})
    # more than geckoMaxPerSource pending message ids from one source, then the 9th completes nothing; another source is served
    many = []
    for mid in range(12):
        f = gk_frame(mid, 0, 2, 0, 4, rng); f["src"] = 1; many.append(f)
    for mid in (0, 8, 11):
        f = gk_frame(mid, 1, 2, 0, 4, rng); f["src"] = 1; many.append(f)
    for i in (0, 1):
        f = gk_frame(3, i, 2, 0, 4, rng); f["src"] = 2; many.append(f)
    cases.append({"k": "gk", "rbuf": 2048, "pkts": many})
    # the largest reassembled packet: 8 chunks of 2043 bytes
    cases.append({"k": "gk", "rbuf": 20000, "pkts": [dict(gk_frame(9, i, 8, 0, 2043, rng), src=0) for i in range(8)]})
    return cases


def gen_models(rng, tier):
    s = 1 if tier == "quick" else 8
    # end to end through the real udpIOImpl.ReceiveMessage loops: hostile datagrams from a raw QUIC peer, liveness probes in between
    dg = [{"k": "dgsrv", "seed": rng.randrange(1 << 62), "n": 1500 * s, "batch": 100, "logger": True},
          {"k": "dgsrv", "seed": rng.randrange(1 << 62), "n": 500 * s, "batch": 50, "logger": False},
          {"k": "dgcli", "seed": rng.randrange(1 << 62), "n": 1500 * s, "batch": 100, "logger": False}]
    return {"srv": gen_srv(rng, 110 * s), "cli": gen_cli(rng, 90 * s), "st": gen_st(rng, 80 * s), "realm": gen_realm(rng, 60 * s),
            "gk": gen_gk(rng, 60 * s), "dg": dg}


# ------------------------------------------------------------------ Coq terms
def cb(b):
    return common.coq_bytes(b)


def zopt(x):
    return "None" if x is None else "(Some (%d)%%Z)" % x


def nlist(xs):
    return "[" + ";".join(str(int(x)) for x in xs) + "]"


def boolc(b):
    return "true" if b else "false"


def ev_term(e):
    d = bytes.fromhex(e["d"])
    body = "(gen_data %d %d %d)" % tuple(e["g"]) if e.get("g") else cb(d)
    err = {"": "None", "eof": "(Some EEof)", "other": "(Some EOther)"}[e["e"]]
    return "Ev %s %s" % (body, err)


def script_term(evs):
    return "[" + ";".join(ev_term(e) for e in evs) + "]"


CLS = {"ok": 0, "eof": 1, "short": 2, "other": 3, "invalid": 4}


def srv_to_coq(c, o):
    acts = []
    for a in c["acts"]:
        if a["a"] == "dgram":
            acts.append("SDgram %s %s %s" % (cb(bytes.fromhex(a["hex"])), boolc(a["log"]), boolc(a["dial"])))
        elif a["a"] == "expire":
            acts.append("SExpire %d" % a["sid"])
        elif a["a"] == "reply":
            acts.append("SReply %d 1 (gen_data 3 5 %d) (gen_data 7 11 %d) %s" % (a["sid"], a["al"], a["dl"], zopt(a["max"])))
        else:
            acts.append("SRecvErr")
    exp = []
    for row in o.get("outs", []):
        k, cnt = row[0], row[-1]
        if k == "dropped":
            t = "XDropped"
        elif k == "pending":
            t = "XPending %d" % row[1]
        elif k == "write":
            t = "XWrite %d %d %d %d %d" % tuple(row[1:6])
        elif k == "dialfail":
            t = "XDialFail %d" % row[1]
        elif k == "sent":
            t = "XSent %s" % nlist(row[1])
        elif k == "stop":
            t = "XStop"
        else:
            t = "XNone"
        exp.append("(%s, %d)" % (t, cnt))
    return "CSrv [%s] %s [%s]" % (";".join(acts), boolc(o.get("panic")), ";".join(exp))


def cli_to_coq(c, o):
    acts = []
    for a in c["acts"]:
        if a["a"] == "dgram":
            acts.append("CDgram %s" % cb(bytes.fromhex(a["hex"])))
        elif a["a"] == "open":
            acts.append("COpen")
        elif a["a"] == "close":
            acts.append("CClose %d" % a["h"])
        elif a["a"] == "receive":
            acts.append("CReceive %d" % a["h"])
        else:
            acts.append("CRecvErr")
    exp = []
    for row in o.get("outs", []):
        k = row[0]
        exp.append({"dropped": "YDropped", "refused": "YRefused", "eof": "YEof", "blocked": "YBlocked", "more": "YMore",
                    "none": "YNone"}.get(k) or
                   ("YQueued %d" % row[1] if k == "queued" else "YOpened %d %d" % (row[1], row[2]) if k == "opened"
                    else "YData %d %d %d %d" % tuple(row[1:5])))
    # long runs of the same datagram: share one definition through a let
    return "CCli [%s] %s [%s]" % (";".join(acts), boolc(o.get("panic")), ";".join(exp))


def st_to_coq(c, o):
    s = script_term(c["evs"])
    cls = 9 if o.get("panic") else CLS[o["r"]]
    f = c["f"]
    if f == "server":
        return "CServer %s [%s] %d %s %d" % (s, ";".join(boolc(b) for b in c["wr"]), cls, nlist(o.get("writes") or []), o["consumed"])
    if f == "response":
        return "CResponse %s %d %s %d %d %d" % (s, cls, boolc(o.get("okflag")), o.get("ml", 0), o.get("md", 0), o["consumed"])
    if f == "summary":
        return "CSummary %s %d (%s)%%Z %d %d" % (s, cls, o.get("d", "0"), o.get("l", 0), o["consumed"])
    return "CU32 %s %d %d %d" % (s, cls, o.get("l", 0), o["consumed"])


def addr_term(a):
    return "(%s, (%d)%%Z)" % (cb(bytes.fromhex(a[0])), a[1])


def realm_to_coq(c, o):
    if c["k"] == "ipport":
        exp = "(Some %s)" % addr_term([o["ip"], o["port"]]) if o.get("r") == "ok" else "None"
        return "CIpPort %s (%d)%%Z %s %s" % (cb(bytes.fromhex(c["ip"])), c["port"], boolc(o.get("panic")), exp)
    items = []
    for row in o["oracle"]:
        if row[0] == "timeout":
            items.append("OTimeout")
        elif row[0] == "fail":
            items.append("OFail")
        elif not row[1]:
            items.append("OPkt None")
        else:
            _, _, succ, own, xor, mapped = row
            tid = "[x01]" if own else "[x02]"
            items.append("OPkt (Some (mkSM %s %s %s %s))" % (boolc(succ), tid,
                                                             "(Some %s)" % addr_term(xor) if xor else "None",
                                                             "(Some %s)" % addr_term(mapped) if mapped else "None"))
    addrs = "[" + ";".join(addr_term(a) for a in (o.get("addrs") or [])) + "]"
    return "CDisc [x01] [%s] %s %s %s" % (";".join(items), boolc(o.get("panic")), boolc(o.get("err")), addrs)


def gk_to_coq(c, o):
    pk = []
    for p in c["pkts"]:
        g = p.get("g") or [0, 0, 0]
        pk.append("GP %d %s %d %d %d" % (p["src"], cb(bytes.fromhex(p["hex"])), g[0], g[1], g[2]))
    exp = ";".join("GO %d %d %d %d" % tuple(r) for r in o.get("outs", []))
    return "CGecko %d [%s] %s [%s]" % (c["rbuf"], ";".join(pk), boolc(o.get("panic")), exp)


def to_coq(c, o):
    k = c["k"]
    if k == "gk":
        return gk_to_coq(c, o)
    if k == "srv":
        return srv_to_coq(c, o)
    if k == "cli":
        return cli_to_coq(c, o)
    if k == "st":
        return st_to_coq(c, o)
    if k in ("ipport", "disc"):
        return realm_to_coq(c, o)
    return None


# ------------------------------------------------------------------ fingerprints
def hdr_size(al):
    return 8 + (1 if al <= 63 else 2 if al <= 16383 else 4) + al


def fingerprint(pn):
    """pn: one panic record of the harness (ep, seq, msg, facts)."""
    ep, msg, facts = pn.get("ep", ""), pn.get("msg", ""), pn.get("facts") or {}
    if ep in ("FragUDPMessage", "server.sendMessageAutoFrag") and "index out of range" in msg and pn.get("seq"):
        b = (bytes.fromhex(pn["seq"][0]) + bytes(6))[:6]
        mx = int.from_bytes(b[0:2], "big", signed=True)
        al = int.from_bytes(b[2:4], "big") % 2100
        dl = int.from_bytes(b[4:6], "big")
        if ep != "FragUDPMessage":
            dl %= 4098
        budget = mx - hdr_size(al)
        if budget > 0 and -(-dl // budget) > 255:
            return "frag-count>255-panic"
    if ep in ("quic.ReadCryptoPayload", "quic.UnProtect", "sniff.Sniffer.UDP") and "out of range" in msg \
            and facts.get("short_for_sample") is True and facts.get("long") is False:
        return "unprotect-short-packet-panic"
    return None


def fingerprint_crash(case, log):
    """crash of the test binary on a model case: the reply path needing more than 255 fragments"""
    if case.get("k") == "srv" and "index out of range" in log and "FragUDPMessage" in log:
        for a in case["acts"]:
            if a["a"] == "reply" and a.get("max") is not None:
                budget = a["max"] - hdr_size(a["al"])
                if budget > 0 and -(-a["dl"] // budget) > 255:
                    return "frag-count>255-panic"
    return None


# ------------------------------------------------------------------ running the Go side
def make_kit(pkgname, quicbuild):
    d = os.path.join(common.VERIF, "harness", "go", "_gen")
    os.makedirs(d, exist_ok=True)
    out = {}
    for name, src in (("c03kit", "kit_test.go.tmpl"),) + ((("c03quicbuild", "quicbuild_test.go.tmpl"),) if quicbuild else ()):
        text = open(os.path.join(common.VERIF, "harness", "go", "c03", src)).read().replace("__PKG__", pkgname)
        p = os.path.join(d, "%s_%s_test.go" % (name, pkgname))
        if not os.path.exists(p) or open(p).read() != text:
            with open(p, "w") as f:
                f.write(text)
        out["zz_verif_%s_test.go" % name] = "_gen/%s_%s_test.go" % (name, pkgname)
    return out


def run_pkg(ctx, spec, cases, tag, trace=False, timeout=1500):
    """Returns (ok, outs, params, log)."""
    tag = "%s_%s" % (spec["pkgname"], tag)
    inp, outp, parp = ctx.path("in_%s.jsonl" % tag), ctx.path("out_%s.jsonl" % tag), ctx.path("params_%s.json" % tag)
    for p in (outp, parp):
        if os.path.exists(p):
            os.remove(p)
    common.write_jsonl(inp, cases)
    overlay = dict(spec["files"])
    overlay["zz_verif_util_test.go"] = common.make_util(ctx, spec["pkgname"])
    overlay.update(make_kit(spec["pkgname"], spec.get("quicbuild")))
    env = {"VERIF_IN": inp, "VERIF_OUT": outp, "VERIF_PARAMS": parp, "GOMEMLIMIT": "3GiB"}
    if trace:
        env["VERIF_TRACE"] = ctx.path("trace_%s.txt" % tag)
    # a distinct run name per package keeps the overlay files apart (go_test hashes module+pkg+run)
    rc, log = common.go_test(ctx, spec["module"], spec["pkg"], overlay, "TestVerifC03", env=env, timeout=timeout)
    outs = common.read_jsonl(outp)
    params = json.load(open(parp)) if os.path.exists(parp) else None
    return (rc == 0 and len(outs) == len(cases)), outs, params, log


def fuzz_n(spec, tier):
    if spec.get("slow"):
        return 700 if tier == "quick" else 2000
    return 3000 if tier == "quick" else 10000


def fuzz_jobs(spec, tier):
    """thorough = 100x the quick tier's inputs (speed test: ~30x), as jobs of bounded size with their own seeds"""
    if tier == "quick":
        return 1
    return 10 if spec.get("slow") else 30


def pkg_cases(spec, tier, seed, models):
    cases = [{"k": "fuzz", "ep": ep, "seed": seed if j == 0 else seed * 1000 + j, "n": fuzz_n(spec, tier)}
             for j in range(fuzz_jobs(spec, tier)) for ep in spec["eps"]]
    for kind in spec.get("kinds", ()):
        cases += models["realm" if kind in ("ipport", "disc") else kind] if kind != "disc" else []
    return cases


def crash_violation(ctx, spec, cases, outs, log):
    """The test binary died (fatal error / panic in a goroutine of the code): rerun with the input
    trace on and report the last input written before the crash."""
    done = len(outs)
    rest = cases[done:done + 1]
    if not rest:
        return None
    if rest[0]["k"] != "fuzz":
        # a model-comparison case: the case itself is the concrete failing history
        ok, o2, _, log2 = run_pkg(ctx, spec, rest, "trace")
        if ok:
            return None
        m = [l for l in (log2 or "").splitlines() if l.startswith("panic:") or "fatal error" in l]
        return {"what": "%s: the process crashed (panic outside the harness's recover, e.g. in a goroutine of the code) on a %s history: %s"
                        % (spec["pkgname"], rest[0]["k"], (m[0] if m else "see log")[:300]),
                "replay": {"pkg": spec["pkgname"], "case": rest[0], "log": (log2 or log)[-3000:]},
                "fingerprint": fingerprint_crash(rest[0], log2 or ""), "found_input": True}
    ok, o2, _, log2 = run_pkg(ctx, spec, rest, "trace", trace=True)
    tp = ctx.path("trace_%s_trace.txt" % spec["pkgname"])
    last = ""
    if os.path.exists(tp):
        lines = open(tp).read().splitlines()
        last = lines[-1] if lines else ""
    if ok:
        return None
    ep, _, hexes = last.partition(" ")
    what = "%s: the process crashed (not recoverable) in %s; last input before the crash: %s" % (spec["pkgname"], ep or rest[0].get("ep"), hexes[:400])
    return {"what": what, "replay": {"pkg": spec["pkgname"], "case": {"k": "one", "ep": ep or rest[0].get("ep"), "seq": hexes.split(",") if hexes else []},
                                     "log": (log2 or log)[-3000:]},
            "fingerprint": None, "found_input": bool(ep)}


def run(ctx):
    rng = random.Random(ctx.seed)
    models = gen_models(rng, ctx.tier)
    allcases = {s["pkgname"]: pkg_cases(s, ctx.tier, ctx.seed, models) for s in GO_ALL}
    violations = []
    t0 = time.time()
    with ThreadPoolExecutor(max_workers=len(GO_ALL)) as ex:
        futs = {s["pkgname"]: ex.submit(run_pkg, ctx, s, allcases[s["pkgname"]], "main") for s in GO_ALL}
        results = {k: f.result() for k, f in futs.items()}
    ctx.say("go harnesses (%d packages): %.1fs" % (len(GO_ALL), time.time() - t0))
    params = []
    tie_broken = []
    for s in GO_ALL:
        ok, outs, par, log = results[s["pkgname"]]
        if par:
            params += [tuple(p) for p in par]
        if not ok:
            v = crash_violation(ctx, s, allcases[s["pkgname"]], outs, log) if len(outs) < len(allcases[s["pkgname"]]) and "FAIL" in log and "[build failed]" not in log and "[setup failed]" not in log else None
            if v:
                violations.append(v)
            else:
                ctx.say("Go harness for %s failed:\n%s" % (s["pkgname"], log[-2500:]))
                tie_broken.append(s["pkgname"])
                violations.append({"what": "tie broken: Go harness for C03/%s did not build/run against the current tree (%s)" % (s["pkgname"], log.strip()[-400:]),
                                   "replay": {"broken": "go harness " + s["pkgname"], "log": log[-4000:]}, "found_input": False, "fingerprint": None})
            results[s["pkgname"]] = (ok, outs if len(outs) == len(allcases[s["pkgname"]]) else outs, par, log)
    if len(params) == 4:
        # fixed order: speedtest constants, then the client channel size
        params.sort(key=lambda p: (not p[0].startswith("st_"), p[0]))
        order = {"st_chunkSize": 0, "st_typeDownload": 1, "st_typeUpload": 2, "cl_udpMessageChanSize": 3}
        params.sort(key=lambda p: order.get(p[0], 9))
        if common.write_params(PARAMS_NAME, params):
            ctx.say("Params changed -> rebuilding dependants")
    proof_ok, pinfo = common.proof_stage(ctx, ctx.pid, extra_targets=EXTRA_TARGETS)
    if not proof_ok:
        ctx.say("PROOF STAGE BROKEN: " + json.dumps({k: pinfo[k] for k in pinfo if k != "theorems"})[:3000])
    # ---- verdicts and correspondence
    hist, eprows, terms, termcases = {}, [], [], []
    inputs = datagrams = 0
    nontriv = 0
    for s in GO_ALL:
        cs = allcases[s["pkgname"]]
        outs = results[s["pkgname"]][1]
        for c, o in zip(cs, outs):
            if c["k"] == "fuzz":
                eprows.append(o)
                inputs += o.get("n", 0)
                datagrams += o.get("datagrams", 0)
                for kcls, cnt in (o.get("classes") or {}).items():
                    hist["%s:%s" % (c["ep"], kcls)] = hist.get("%s:%s" % (c["ep"], kcls), 0) + cnt
                triv = max((o.get("classes") or {"": 0}).values())
                nontriv += o.get("n", 0) - triv
                for pn in o.get("panics") or []:
                    violations.append({"what": "panic in %s: %s (input %s)" % (pn["ep"], pn["msg"], ",".join(pn["seq"])[:300]),
                                       "replay": {"pkg": s["pkgname"], "case": {"k": "one", "ep": pn["ep"], "seq": pn["seq"]}, "impl": pn},
                                       "fingerprint": fingerprint(pn) or "panic:" + pn["ep"], "found_input": True})
            else:
                hist["model:" + c["k"] + (":" + c["f"] if "f" in c else "")] = hist.get("model:" + c["k"] + (":" + c["f"] if "f" in c else ""), 0) + 1
                if len(c.get("acts", c.get("evs", c.get("items", [1, 2])))) >= 2:
                    nontriv += 1
                if o.get("ok") is False:
                    violations.append({"what": "%s: %s" % (c["k"], o.get("why")), "replay": {"pkg": s["pkgname"], "case": c, "impl": o},
                                       "fingerprint": None, "found_input": True})
                t = to_coq(c, o)
                if t is not None:
                    terms.append(t)
                    termcases.append((s["pkgname"], c, o))
    t1 = time.time()
    eok, mm, err = common.eval_cases(ctx, "cases", HEADER, terms, PER_SHARD)
    ctx.say("coq evaluation of %d model cases: %.1fs" % (len(terms), time.time() - t1))
    mism = [termcases[j] for j in mm]
    impl_bad = any(v.get("found_input") for v in violations)
    broken = []
    if not proof_ok:
        broken.append("proof obligation (%s)" % pinfo.get("broken_at", pinfo.get("forbidden", "assumptions")))
    if mism:
        broken.append("correspondence C03_Corr on %d case(s)" % len(mism))
    if not eok:
        ctx.say("CORRESPONDENCE EVALUATION FAILED: " + err)
        broken.append("correspondence evaluation (%s)" % err[:200])
    if broken and not impl_bad:
        found = search(ctx)
        if found:
            violations += found
        else:
            violations.append({"what": "no longer shown to hold: " + "; ".join(broken),
                               "replay": {"broken": broken, "proof": {k: pinfo.get(k) for k in ("broken_at", "build_log_tail", "forbidden", "theorems")},
                                          "disagreeing_cases": [{"pkg": p, "case": c, "impl": o} for p, c, o in mism[:10]]},
                               "fingerprint": None, "found_input": False})
    elif mism:
        ctx.say("model/implementation disagree on %d case(s) (implementation also violates the property directly)" % len(mism))
    samples = [{"case": {"k": "fuzz", "ep": o.get("ep")}, "impl": {k: o.get(k) for k in ("n", "datagrams", "classes", "kinds", "npanic", "ms")}} for o in eprows[:3]]
    if termcases:
        p, c, o = termcases[0]
        samples.append({"case": c, "impl": {k: v for k, v in o.items() if k != "i"}})
    cov = {"evaluations": inputs + len(terms), "distinct_nontrivial": nontriv, "rule": RULE, "samples": samples,
           "traces_validated_against_impl": len(terms), "model_impl_disagreements": len(mism), "input_classes": hist,
           "entry_points": len(set(o.get("ep") for o in eprows)), "datagrams_fed": datagrams, "packages": [s["module"] + "/" + s["pkg"] for s in GO_ALL],
           "per_entry_point": per_ep(eprows)}
    ctx.say("entry points=%d inputs=%d datagrams=%d model cases=%d" % (cov["entry_points"], inputs, datagrams, len(terms)))
    return common.finish(ctx, pinfo, cov, violations, ASSUMPTIONS, trusted_extra=TRUSTED)


def per_ep(rows):
    out = {}
    for o in rows:
        d = out.setdefault(o.get("ep"), {"inputs": 0, "datagrams": 0, "panics": 0, "ms": 0})
        for k, f in (("inputs", "n"), ("datagrams", "datagrams"), ("panics", "npanic"), ("ms", "ms")):
            d[k] += o.get(f) or 0
    return out


def search(ctx):
    """Property-directed search on the implementation alone: more seeds on every entry point."""
    found = []
    for sd in range(2):
        seed = ctx.seed * 1000 + 17 + sd
        for s in GO_ALL:
            cases = [{"k": "fuzz", "ep": ep, "seed": seed, "n": fuzz_n(s, "quick")} for ep in s["eps"]]
            ok, outs, _, log = run_pkg(ctx, s, cases, "search")
            for o in outs:
                for pn in o.get("panics") or []:
                    found.append({"what": "panic in %s: %s (input %s)" % (pn["ep"], pn["msg"], ",".join(pn["seq"])[:300]),
                                  "replay": {"pkg": s["pkgname"], "case": {"k": "one", "ep": pn["ep"], "seq": pn["seq"]}, "impl": pn},
                                  "fingerprint": fingerprint(pn) or "panic:" + pn["ep"], "found_input": True})
        if found:
            break
    return found


def replay(ctx, path):
    r = json.load(open(path))
    rp = r["replay"]
    c = rp.get("case")
    if not c:
        print("replay file names a broken obligation/correspondence, no concrete input:", r["what"])
        return 1
    spec = next(s for s in GO_ALL if s["pkgname"] == rp["pkg"])
    ok, outs, _, log = run_pkg(ctx, spec, [c], "replay")
    print(json.dumps(outs, indent=1) if outs else log[-3000:])
    return 0 if outs and outs[0].get("ok") else 1
