"""C04 - TCP request/response framing is lossless, exact and bounded (DESIGN.md section 4, C04)."""
import time

from vlib import common

GO = dict(module="core", pkg="internal/protocol", pkgname="protocol",
          files={"zz_verif_c04_test.go": "c04/c04_test.go", "zz_verif_c04_conc_test.go": "c04/c04_conc_test.go"},
          run="TestVerifC04")
# the end-to-end class runs in another package: the real server (http3 stream dispatcher, ProxyStreamHijacker, handleTCPRequest)
GO_E2E = dict(module="core", pkg="internal/integration_tests", pkgname="integration_tests",
              files={"zz_verif_c04e_test.go": "c04/c04_e2e_test.go"}, run="TestVerifC04E2E")
# the client-side class runs in package client: the real clientImpl.TCP / tcpConn.Read against a scripted raw peer
GO_CLI = dict(module="core", pkg="client", pkgname="client",
              files={"zz_verif_c04c_test.go": "c04/c04_cli_test.go"}, run="TestVerifC04Cli")
PARAMS_NAME = "ParamsC04"
HEADER = ("From Hy Require Import lib.Harness lib.Reader model.C04_Framing model.C04_Dispatch model.C04_Client corr.C04_Corr.\n"
          "From Coq Require Import ZArith.\nLocal Open Scope N_scope.\n")
RULE = ("seeded generator: ReadTCPRequest / server frame-type read + ReadTCPRequest / ReadTCPResponse on a scripted io.Reader "
        "(chunks, zero-length reads, data+error reads, EOF/other errors, trailing payload) that counts requested bytes; "
        "address/message lengths 0,1,63,64,2047,2048,2049, padding lengths 0,1,63,64,4095,4096,4097, declared lengths up to 2^62-1; "
        "every legal varint width 1/2/4/8 per length field; chunkings: whole, byte-wise, every 2-split of short frames, splits at "
        "field boundaries +-1, random k-splits with zero reads; trailing payload 0/1/100 bytes; truncations and injected errors at "
        "every offset of short frames - the verdict knows whether the frame was complete when the error came: a well-formed frame all of "
        "whose bytes are delivered before, or together with, the first error must be read back identical (io.EOF in the very Read that "
        "delivers the last bytes, as a QUIC stream does when FIN is coalesced with the final STREAM frame) or, for another error delivered "
        "with the last byte, either be read back or report exactly that error; FIN-coalesced class: every fn x paddings "
        "0,1,63,64,511,512,513,1024,4095,4096 x every legal width x whole/byte-wise/field-boundary/random/zero-read chunkings with the "
        "final read carrying data+io.EOF right behind the frame or behind the trailing payload, plus data+other-error variants; random "
        "garbage. WriteTCPRequest/WriteTCPResponse with the drawn padding read back from the "
        "bytes and the frame re-read through the real reader in chunks with trailing payload (half of them with a final data+io.EOF read). varintPut at the width boundaries on "
        "buffers of every length 0..9. CONCURRENCY: 2-4 frames (req/srv/resp mixed, equal and different value lengths, some rejected "
        "or truncated) parsed at the same time by one goroutine each over gated scripted readers that park between length and value, "
        "inside the value, between value and padding, inside the padding; the gating order (victim parked while the others run to the "
        "end, round robin, nested, random) is part of the case and is executed by the harness as the scheduler (one P, no GC, so per-P "
        "caches are handed from parser to parser), plus a free-running mode; every stream is judged against what that stream carried "
        "and compared with the sequential model of its own script (some streams end with a data+io.EOF read); thorough tier: the same cases under -race. "
        "END TO END (package integration_tests): a real server.NewServer over loopback QUIC and a hand-written conforming client; per "
        "authenticated connection 14-20 streams, each = frame type 0x401 on 2/4/8 bytes x address length on every legal width x padding "
        "length on every legal width (all 48 width combinations cycled), address lengths 1..2048, paddings 0..4096, trailing payload "
        "0/1/7/100/3000, written whole or cut into several Writes (frame type alone, byte-wise, inside the frame type, random, payload "
        "separately) with pauses, optional FIN right behind; the server's Outbound is a fake that records the address and refuses with a "
        "recognisable message or echoes: the dialled address must equal the bytes sent, the refusal must come back through "
        "ReadTCPResponse, the target must receive exactly the trailing payload; empty/over-limit lengths behind a wide frame type must not "
        "be dialled and the server must end the stream though fewer bytes than declared follow; other frame types are not dialled; "
        "'never dialled' is only a verdict after a canonical probe stream on the same connection was served; compared with the model of "
        "the dispatcher (Peek) + hijacker + ReadTCPRequest. CLIENT SIDE (package client): the real clientImpl.TCP (eager path) and "
        "tcpConn.Read (lazy FastOpen path) on a loopback QUIC stream against a scripted raw peer that writes status byte | message "
        "length on every legal width | message | padding length on every legal width | padding | payload and controls coalescing: "
        "hold = the peer stops after the first h bytes, the application waits (Stream.Peek) until exactly these are queued, issues "
        "its first Read and only then the rest is written - h at EVERY position of short streams (inside the frame: the response "
        "arrives in two parts), behind the frame at +1, +2, first buffer +-1, 4095/4096/4097, end-1, random; whole stream queued "
        "before the first Read; free-running; application buffers 1,2,3,4,7,8,16,31,64,100,512,1000,1024,4095,4096,4097,8192,32768 "
        "(constant, first-small-then-large, mixed), payloads 0..9000, with and without FIN; success responses: the concatenation of "
        "what the Reads return must be exactly the payload (then io.EOF with FIN); failure statuses 1,2,255: DialError with exactly "
        "the message from TCP() / from the first Read and no payload byte; over-limit lengths: an error that is no DialError; 'bytes "
        "never arrived' only after a probe stream on the same connection was served; compared with model/C04_Client.v. Non-trivial = well-formed frame read under a non-trivial chunking / non-minimal width / with "
        "trailing payload, or an over-limit frame, or a writer round trip. Distinct = distinct JSON case.")
ASSUMPTIONS = [
    "the stream handed to the readers has no ReadByte method (utils.QStream has none), so quicvarint.NewReader wraps it in the one-byte-at-a-time byteReader",
    "io.ReadFull / io.CopyN / io.Discard / io.LimitedReader behave as in the Go 1.25 source they were transcribed from (lib/Reader.v)",
    "the io.Reader honours its contract (returns at most len(p) bytes); scripts are finite (an exhausted script reads as io.EOF)",
    "quic.Stream.Peek hands out the next len(b) bytes of the stream without consuming them and waits until they have arrived (model/C04_Dispatch.v peek_s); the connection is authenticated when the request stream is dispatched",
    "client side: quic.Stream.Read(p) hands out the bytes of the stream in order, at most len(p) of them, as many as are queued (model: read1 on the script); the application does not use the connection from two goroutines (Established is a plain field)",
    "concurrent parsers share no state: each reads only its own stream and the modelled functions use no package-level state, so a concurrent run is modelled as the sequential runs of its streams (checked on every run by the concurrency class of the harness: interleavings at the gates of the scripted readers, not every instruction-level interleaving)",
]
TRUSTED = ["modelled rather than verified: core/internal/protocol/proxy.go TCP framing functions and the Go io helpers (hand transcription in coq/model/C04_Framing.v and coq/lib/Reader.v)",
           "modelled rather than verified: core/client clientImpl.TCP (response handling) and tcpConn.Read (hand transcription in coq/model/C04_Client.v; tied by the client-side class against a scripted raw peer)",
           "modelled rather than verified: http3's per-stream dispatch (quicvarint.Peek + StreamDispatcher) and core/server ProxyStreamHijacker (hand transcription in coq/model/C04_Dispatch.v; tied by the end-to-end class)"]
PER_SHARD = 170
EXTRA_TARGETS = ["corr/C04_Corr.vo"]

MAXV = 2**62 - 1


def minw(v):
    return 1 if v <= 63 else 2 if v <= 16383 else 4 if v <= 2**30 - 1 else 8


def widths(v):
    return [w for w in (1, 2, 4, 8) if v < 2 ** (8 * w - 2)]


def enc(w, v):
    b = bytearray(v.to_bytes(w, "big"))
    b[0] |= {1: 0x00, 2: 0x40, 4: 0x80, 8: 0xC0}[w]
    return bytes(b)


def seg_bytes(s):
    if s["t"] == "lit":
        return bytes.fromhex(s["hex"])
    if s["t"] == "gen":
        return common.gen_data(s["a"], s["b"], s["n"])
    return enc(s["w"], int(s["v"]))


def vi(w, v):
    return {"t": "vi", "w": w, "v": str(v)}


def gen_seg(rng, n):
    return {"t": "gen", "a": rng.randrange(256), "b": rng.randrange(256), "n": n}


def lit(b):
    return {"t": "lit", "hex": bytes(b).hex()}


def frame(rng, fn, L, wl, P, wp, trail, status=None):
    """A well-formed frame followed by `trail` payload bytes. Returns (segs, boundaries, exp)."""
    segs = []
    if fn == "srv":
        segs.append(lit(b"\x44\x01"))
    if fn == "resp":
        st = status if status is not None else rng.choice([0, 0, 1, 1, 2, 255])
        segs.append(lit(bytes([st])))
    segs.append(vi(wl, L))
    val_seg = -1
    if L > 0:
        val_seg = len(segs)
        segs.append(gen_seg(rng, L))
    segs.append(vi(wp, P))
    if P > 0:
        segs.append(gen_seg(rng, P))
    bounds, pos = [], 0
    for s in segs:
        pos += len(seg_bytes(s))
        bounds.append(pos)
    consumed = pos
    if trail > 0:
        segs.append(gen_seg(rng, trail))
    exp = {"cls": "ok", "val_seg": val_seg, "consumed": consumed, "st": False}
    if fn == "resp":
        exp["st"] = (st == 0)
    return segs, bounds, exp


def total_len(segs):
    return sum(len(seg_bytes(s)) for s in segs)


def cuts_from_positions(positions, total):
    ps = sorted(set(p for p in positions if 0 < p < total))
    out, prev = [], 0
    for p in ps:
        out.append([p - prev, 0])
        prev = p
    return out


def chunking(rng, kind, total, bounds):
    if kind == "whole":
        return []
    if kind == "bytes":
        return [[1, 0] for _ in range(total)]
    if kind == "bounds":
        ps = []
        for b in bounds:
            ps += [b + d for d in rng.choice([(0,), (-1,), (1,), (-1, 0, 1), (-1, 1)])]
        return cuts_from_positions(ps, total)
    if kind == "rand":
        k = rng.choice([1, 2, 3, 5, 9])
        cuts = cuts_from_positions([rng.randrange(1, max(2, total)) for _ in range(k)], total)
        return cuts
    if kind == "zero":
        k = rng.choice([1, 2, 4, 8])
        ps = [rng.randrange(1, max(2, total)) for _ in range(k)] + [b for b in bounds if rng.random() < 0.6]
        cuts = cuts_from_positions(ps, total)
        out = []
        for c in cuts:
            for _ in range(rng.choice([0, 0, 1, 1, 2, 3])):
                out.append([0, 0])
            out.append(c)
        for _ in range(rng.choice([0, 1, 2])):
            out.append([0, 0])
        if rng.random() < 0.5:
            out = [[0, 0]] + out
        return out
    raise ValueError(kind)


def rd(fn, segs, cuts, exp, g):
    return {"k": "rd", "fn": fn, "segs": segs, "cuts": cuts, "exp": exp, "g": g}


NOP = {"cls": "nopanic", "val_seg": -1, "st": False, "consumed": 0}
ERRCLS = {1: "eof", 2: "short", 3: "other"}


def first_error(cuts, total):
    """(stream offset behind the data of the first event that carries an error, its code, its data length)."""
    pos = 0
    for n, e in cuts:
        n = max(0, min(n, total - pos))
        pos += n
        if e:
            return pos, e, n
    return None


def expect(okexp, cuts, total):
    """What the property demands of a WELL-FORMED frame (okexp = its read-back expectation) under a reader script
    that may carry errors.  Every byte of the frame is handed over before, or together with, the first error:
      - the error event lies behind the frame (or is a separate (0, err) read): the reader must not even see it;
      - io.EOF arrives in the very Read that delivers the last byte(s) of the frame (n > 0, io.EOF: what a QUIC
        stream does when the STREAM frame with the end of the data carries FIN): the frame is complete, it must
        be read back identical and exactly the frame is consumed - same clause as for an error-free script;
      - another error arrives together with the last byte(s): either the frame is read back identical, or exactly
        that error is reported (class "okerr"); never another value, another error, a protocol error or a panic.
    A frame cut short by the first error keeps the old expectation (no panic, limits)."""
    fe = first_error(cuts, total)
    if fe is None:
        return okexp
    pos, e, n = fe
    cons = okexp["consumed"]
    if pos < cons:
        return dict(NOP)
    if pos > cons or n == 0 or e == 1:
        return okexp
    return dict(okexp, cls="okerr", err=ERRCLS[e])


def fin_cuts(rng, kind, end, bounds, code):
    """A chunking of the first `end` bytes of the stream whose LAST read carries data + error `code` (1 = io.EOF:
    FIN coalesced with the final bytes); what lies behind `end` (nothing, for the cases generated here) is one more chunk."""
    cuts = chunking(rng, kind, end, [b for b in bounds if b < end])
    covered = sum(n for n, _ in cuts)
    while cuts and covered >= end:
        covered -= cuts.pop()[0]
    return cuts + [[end - covered, code]]


def gen(rng, tier):
    scale = 1 if tier == "quick" else 14
    cases = []
    LEN = {"req": [1, 2, 63, 64, 65, 2047, 2048], "srv": [1, 63, 64, 2048], "resp": [0, 1, 63, 64, 2047, 2048]}
    PAD = [0, 1, 63, 64, 500, 4095, 4096]
    KINDS = ["whole", "bounds", "rand", "zero", "zero", "bounds"]
    # --- (1) well-formed frames: boundary lengths x every legal width x chunkings x trailing payloads
    def valid(fn, L, wl, P, wp):
        trail = rng.choice([0, 1, 100])
        segs, bounds, exp = frame(rng, fn, L, wl, P, wp, trail)
        kind = rng.choice(KINDS)
        cases.append(rd(fn, segs, chunking(rng, kind, total_len(segs), bounds), exp, "valid-" + kind))
    for rep in range(scale):
        for fn in ("req", "srv", "resp"):
            lw = [(L, wl) for L in LEN[fn] for wl in widths(L)]
            pw = [(P, wp) for P in PAD for wp in widths(P)]
            small_l = [x for x in lw if x[0] <= 100]
            small_p = [x for x in pw if x[0] <= 100]
            # full product of the short values (every width pair), the long ones each with three partners
            for (L, wl) in small_l:
                for (P, wp) in small_p:
                    if fn == "srv" and rng.random() < 0.5:
                        continue
                    valid(fn, L, wl, P, wp)
            for (L, wl) in lw:
                if L > 100:
                    for (P, wp) in rng.sample(pw, 3):
                        valid(fn, L, wl, P, wp)
            for (P, wp) in pw:
                if P > 100:
                    for (L, wl) in rng.sample(lw, 3):
                        valid(fn, L, wl, P, wp)
    # byte-wise delivery of medium frames
    for _ in range(12 * scale):
        fn = rng.choice(["req", "srv", "resp"])
        L = rng.choice([1, 63, 64, 200]) if fn != "resp" else rng.choice([0, 1, 64, 200])
        P = rng.choice([0, 1, 64, 130])
        segs, bounds, exp = frame(rng, fn, L, rng.choice(widths(L)), P, rng.choice(widths(P)), rng.choice([0, 1, 100]))
        cases.append(rd(fn, segs, chunking(rng, "bytes", total_len(segs), bounds), exp, "valid-bytes"))
    # --- (1b) well-formed frames whose FINAL read carries data + io.EOF (FIN right behind the frame / behind the
    # trailing payload), every legal width, every chunking kind, paddings around the scratch sizes a reader may use
    # (0: the EOF comes with the last byte of the padding-length varint; 1; 63/64; 511/512/513; 4095/4096), plus
    # (n > 0, other error) variants
    PADF = [0, 1, 63, 64, 511, 512, 513, 1024, 4095, 4096]
    FKINDS = ["whole", "bytes", "bounds", "rand", "zero"]
    def valid_fin(fn, L, wl, P, wp, kind=None, code=None, trail=None):
        kind = kind or rng.choice(FKINDS)
        if kind == "bytes" and L + P > 1100:
            kind = rng.choice(["whole", "bounds", "rand", "zero"])
        trail = rng.choice([0, 0, 0, 1, 100]) if trail is None else trail
        code = code or rng.choice([1, 1, 1, 1, 2, 3])
        segs, bounds, exp = frame(rng, fn, L, wl, P, wp, trail)
        T = total_len(segs)
        cuts = fin_cuts(rng, kind, T, bounds, code)
        cases.append(rd(fn, segs, cuts, expect(exp, cuts, T), "valid-fin"))
    for rep in range(scale):
        for fn in ("req", "srv", "resp"):
            lw = [(L, wl) for L in LEN[fn] for wl in widths(L)]
            for P in PADF:
                for wp in widths(P):
                    for (L, wl) in rng.sample(lw, 2):
                        valid_fin(fn, L, wl, P, wp)
                # FIN right behind the frame, delivered with the whole frame / byte-wise / with the last field only
                L, wl = rng.choice(lw)
                valid_fin(fn, L, wl, P, rng.choice(widths(P)), kind="whole", code=1, trail=0)
                Lb = rng.choice([1, 5, 64]) if fn != "resp" else rng.choice([0, 5, 64])
                valid_fin(fn, Lb, rng.choice(widths(Lb)), P, rng.choice(widths(P)), kind="bytes", code=1, trail=0)
                valid_fin(fn, L, wl, P, rng.choice(widths(P)), kind="bounds", code=1, trail=0)
            for (L, wl) in lw:
                valid_fin(fn, L, wl, 0, rng.choice(widths(0)), trail=0)
    # --- (2) every 2-split (and every 2-split with a zero read in between) of short frames
    for fn in ("req", "srv", "resp"):
        for (L, P) in ((1, 0), (3, 2), (0, 1) if fn == "resp" else (2, 1)):
            for wl, wp in ((1, 1), (2, 1), (1, 4), (8, 2)):
                segs, bounds, exp = frame(rng, fn, L, wl, P, wp, 2)
                T = total_len(segs)
                for p in range(1, T):
                    cases.append(rd(fn, segs, [[p, 0]], exp, "valid-2split"))
                    if (p + wl) % 3 == 0:
                        cases.append(rd(fn, segs, [[p, 0], [0, 0]], exp, "valid-2split"))
    # every chunking (all compositions of the stream length) of very short frames, with a trailing payload
    def compositions(total):
        for mask in range(1 << (total - 1)):
            cuts, run = [], 1
            for i in range(total - 1):
                if mask >> i & 1:
                    cuts.append([run, 0])
                    run = 1
                else:
                    run += 1
            yield cuts
    small = [("req", 1, 1, 0, 1), ("resp", 0, 1, 1, 1), ("srv", 1, 1, 1, 1)]
    if tier != "quick":
        small += [("req", 2, 2, 1, 1), ("resp", 2, 1, 1, 2), ("srv", 1, 2, 2, 1), ("req", 1, 4, 0, 1), ("resp", 1, 1, 0, 4)]
    for (fn, L, wl, P, wp) in small:
        segs, bounds, exp = frame(rng, fn, L, wl, P, wp, 2)
        for cuts in compositions(total_len(segs)):
            cases.append(rd(fn, segs, cuts, exp, "valid-allsplits"))
    # --- (3) over-limit / empty lengths: rejected before the declared amount is read or allocated
    BIG = [2049, 2050, 4096, 16383, 16384, 65536, 2**20, 2**30 - 1, 2**30, 2**40, MAXV]
    for rep in range(scale):
        for fn in ("req", "srv", "resp"):
            pre = [lit(b"\x44\x01")] if fn == "srv" else [lit(bytes([rng.choice([0, 1])]))] if fn == "resp" else []
            plen = total_len(pre)
            bad_first = (BIG if fn == "resp" else [0] + BIG)
            for v in bad_first:
                for w in widths(v):
                    follow = rng.choice([0, 1, 100, 700])
                    segs = pre + [vi(w, v)] + ([gen_seg(rng, follow)] if follow else [])
                    exp = {"cls": "invalid", "val_seg": -1, "st": False, "consumed": plen + w, "maxreq": 1, "declared": str(v)}
                    kind = rng.choice(["whole", "rand", "zero", "bounds"])
                    cases.append(rd(fn, segs, chunking(rng, kind, total_len(segs), [plen, plen + w]), exp, "reject-len"))
            # over-limit padding after a valid value
            for v in [4097, 4098, 16383, 16384, 2**20, 2**30, MAXV]:
                for w in widths(v):
                    L = rng.choice([1, 5, 64, 64, 2048]) if fn != "resp" else rng.choice([0, 1, 64, 64, 2048])
                    wl = rng.choice(widths(L))
                    follow = rng.choice([0, 1, 100, 4500]) if v < 5000 else rng.choice([0, 1, 100])
                    segs = pre + [vi(wl, L)] + ([gen_seg(rng, L)] if L else []) + [vi(w, v)] + ([gen_seg(rng, follow)] if follow else [])
                    cons = plen + wl + L + w
                    exp = {"cls": "invalid", "val_seg": -1, "st": False, "consumed": cons, "maxreq": max(1, L), "declared": str(v)}
                    kind = rng.choice(["whole", "rand", "zero", "bounds"])
                    cases.append(rd(fn, segs, chunking(rng, kind, total_len(segs), [plen + wl, plen + wl + L, cons]), exp, "reject-pad"))
    # --- (4) truncations and injected errors at every offset of short frames
    for rep in range(scale):
        for fn in ("req", "srv", "resp"):
            for (L, wl, P, wp) in ((2, 1, 2, 1), (1, 2, 3, 2), (3, 4, 1, 1)):
                if fn == "resp" and rng.random() < 0.3:
                    L = 0
                segs, bounds, exp = frame(rng, fn, L, wl, P, wp, rng.choice([0, 2]))
                stream = b"".join(seg_bytes(s) for s in segs)
                nop = {"cls": "nopanic", "val_seg": -1, "st": False, "consumed": 0}
                T = len(stream)
                def erd(cuts, g):
                    # the verdict knows whether the frame was complete when the error came (expect)
                    cases.append(rd(fn, segs, cuts, expect(exp, cuts, T), g))
                for p in range(0, len(stream) + 1):
                    cases.append(rd(fn, [lit(stream[:p])], [], nop, "trunc"))          # script ends: EOF forever
                    for e in (1, 2, 3):
                        if rng.random() < 0.6:
                            erd([[p, e]], "err-with-data")                              # (n>0, err) in one Read
                        if rng.random() < 0.6:
                            erd([[p, 0], [0, e]], "err-after")                          # (0, err)
                    if rng.random() < 0.5:
                        q = rng.randrange(0, p + 1)
                        erd([[q, 0], [0, 0], [p - q, rng.choice([1, 3])]], "err-with-data")
    # long frames cut short by EOF / error inside the value or the padding
    for _ in range(30 * scale):
        fn = rng.choice(["req", "srv", "resp"])
        L = rng.choice([64, 300, 2048])
        P = rng.choice([64, 300, 4096])
        segs, bounds, exp = frame(rng, fn, L, rng.choice(widths(L)), P, rng.choice(widths(P)), 0)
        T = total_len(segs)
        p = rng.choice([b + d for b in bounds for d in (-1, 0, 1)] + [rng.randrange(T), rng.randrange(T), T, T])
        p = min(max(p, 0), T)
        e = rng.choice([1, 2, 3])
        nop = {"cls": "nopanic", "val_seg": -1, "st": False, "consumed": 0}
        cuts = rng.choice([[[p, e]], [[p, 0], [0, e]], [[max(0, p - 7), 0], [7 if p >= 7 else p, e]]])
        cases.append(rd(fn, segs, cuts, expect(exp, cuts, T), "err-long"))
    # --- (5) garbage
    for _ in range(150 * scale):
        fn = rng.choice(["req", "srv", "resp"])
        n = rng.choice([0, 1, 2, 3, 4, 5, 8, 9, 12, 20])
        b = bytearray(rng.randrange(256) for _ in range(n))
        if n and rng.random() < 0.5:
            b[0] = rng.choice([0, 1, 2, 0x3f, 0x40, 0x44, 0x7f, 0x80, 0xc0, 0xff])
        nop = {"cls": "nopanic", "val_seg": -1, "st": False, "consumed": 0}
        cases.append(rd(fn, [lit(b)], chunking(rng, rng.choice(["whole", "rand", "zero"]), n, []), nop, "garbage"))
    # --- (6) writers
    for rep in range(scale):
        for fn, lens in (("req", [0, 1, 63, 64, 100, 2047, 2048, 2049, 16383, 16384]),
                         ("resp", [0, 1, 63, 64, 100, 2048, 2049, 16384])):
            for n in lens:
                for ok in ((True, False) if fn == "resp" else (True,)):
                    for _ in range(3 if n <= 2048 else 1):
                        cases.append({"k": "wr", "fn": fn, "ok": ok, "a": rng.randrange(256), "b": rng.randrange(256), "n": n,
                                      "trail": rng.choice([0, 1, 100]), "cs": rng.choice([0, 1, 2, 3, 7, 64, 700]) if n < 300 else rng.choice([0, 5, 63, 700]),
                                      "zero": rng.choice([0, 1, 2, 5])})
                        if rng.random() < 0.5:
                            # the written frame is re-read through a reader whose last Read carries data + io.EOF
                            cases[-1]["fin"] = 1
                            if rng.random() < 0.5:
                                cases[-1]["trail"] = 0
    cases += gen_conc(rng, scale)
    cases += gen_e2e(rng, tier)
    cases += gen_cli(rng, tier)
    # --- (7) varintPut at the width boundaries, buffers of every small length
    for v in (0, 1, 63, 64, 255, 16383, 16384, 2**30 - 1, 2**30, 2**32, MAXV, MAXV + 1, 2**63, 2**64 - 1):
        for bl in (0, 1, 2, 3, 4, 5, 7, 8, 9):
            cases.append({"k": "vp", "v": str(v), "bl": bl})
    for _ in range(30 * scale):
        v = rng.choice([rng.randrange(2**6), rng.randrange(2**14), rng.randrange(2**30), rng.randrange(2**62), rng.randrange(2**64)])
        cases.append({"k": "vp", "v": str(v), "bl": rng.choice([minw(min(v, MAXV)), 8, 9, 12])})
    return cases


FT_TCP = 0x401   # protocol.FrameTypeTCPRequest (compared with the regenerated ParamsC04 in the Coq cases)


def e2e_stream(rng, ftw, wl, wp, L, P, trail, mode, ft=FT_TCP):
    """One well-formed request as a peer may send it: frame type on ftw bytes, lengths on wl / wp bytes."""
    segs = [vi(ftw, ft), vi(wl, L), gen_seg(rng, L), vi(wp, P)]
    if P > 0:
        segs.append(gen_seg(rng, P))
    consumed = total_len(segs)
    if trail > 0:
        segs.append(gen_seg(rng, trail))
    return {"segs": segs, "expect": "dial", "addr_seg": 2, "consumed": consumed, "mode": mode, "ft_w": ftw,
            "wcuts": [], "sleep_ms": 0, "fin": False}


def e2e_delivery(rng, st):
    """How the client hands the stream to QUIC: one Write, or several with pauses (frame type alone / byte-wise /
    cut inside a field / payload separately), so that the dispatcher's Peek works on partial data."""
    T = total_len(st["segs"])
    ftw = st["ft_w"]
    kind = rng.choice(["whole", "whole", "type-first", "type-bytes", "inside-type", "rand", "payload-sep", "bytes-head"])
    cuts = []
    if kind == "type-first":
        cuts = [ftw]
    elif kind == "type-bytes":
        cuts = list(range(1, ftw + 1))
    elif kind == "inside-type":
        cuts = [rng.randrange(1, ftw)]
    elif kind == "rand":
        cuts = sorted(set(rng.randrange(1, max(2, T)) for _ in range(rng.choice([1, 2, 3]))))
    elif kind == "payload-sep":
        cuts = [st.get("consumed", T)]
    elif kind == "bytes-head":
        cuts = list(range(1, min(T, ftw + 12)))
    st["wcuts"] = [c for c in cuts if 0 < c < T]
    st["sleep_ms"] = rng.choice([1, 2, 5]) if st["wcuts"] else 0
    st["deliv"] = kind
    return st


def gen_e2e(rng, tier):
    """End-to-end connections: every stream = frame type 0x401 on 2/4/8 bytes x address length on every legal width x
    padding length on every legal width (the quantification of C04_request_peer_widths plus the frame-type width),
    boundary lengths, trailing payload, refused / accepted dial, delivery variants; rejected length fields behind a wide
    frame type; a few streams with another frame type."""
    nconn, per = (5, 14) if tier == "quick" else (30, 20)
    combos = [(f, a, p) for f in (2, 4, 8) for a in (1, 2, 4, 8) for p in (1, 2, 4, 8)]
    rng.shuffle(combos)
    ci = 0
    LFIT = {1: [1, 5, 14, 63], 2: [1, 14, 64, 200, 2047, 2048], 4: [1, 14, 64, 2048], 8: [1, 14, 63, 64, 2047, 2048]}
    PFIT = {1: [0, 1, 63], 2: [0, 1, 64, 500, 4095, 4096], 4: [0, 64, 513, 4096], 8: [0, 1, 63, 64, 4095, 4096]}
    out = []
    for cn in range(nconn):
        streams = []
        for sn in range(per):
            r = rng.random()
            if r < 0.72 or sn == 0:
                ftw, wl, wp = combos[ci % len(combos)]
                ci += 1
                L, P = rng.choice(LFIT[wl]), rng.choice(PFIT[wp])
                trail = rng.choice([0, 1, 7, 100, 3000])
                mode = "echo" if (trail > 0 and rng.random() < 0.7) else rng.choice(["refuse", "refuse", "echo"])
                st = e2e_stream(rng, ftw, wl, wp, L, P, trail, mode)
                if rng.random() < 0.2:
                    st["fin"] = True   # the client closes its send side right behind the request (+ payload)
                streams.append(e2e_delivery(rng, st))
            elif r < 0.95:
                # rejected length field behind a (mostly wide) frame type; fewer bytes than declared follow
                ftw = rng.choice([2, 4, 4, 8, 8])
                follow = rng.choice([0, 1, 50, 300])
                if rng.random() < 0.65:
                    v = rng.choice([0, 0, 2049, 2050, 16384, 2**20, 2**30, MAXV])
                    w = rng.choice(widths(v))
                    segs = [vi(ftw, FT_TCP), vi(w, v)]
                    cons = ftw + w
                else:
                    L = rng.choice([1, 14, 64, 2048])
                    wl = rng.choice(widths(L))
                    v = rng.choice([4097, 4098, 16384, 2**30, MAXV])
                    w = rng.choice(widths(v))
                    segs = [vi(ftw, FT_TCP), vi(wl, L), gen_seg(rng, L), vi(w, v)]
                    cons = ftw + wl + L + w
                if follow:
                    segs.append(gen_seg(rng, follow))
                st = {"segs": segs, "expect": "reject", "addr_seg": -1, "consumed": cons, "mode": "refuse", "ft_w": ftw,
                      "wcuts": [], "sleep_ms": 0, "fin": rng.random() < 0.3, "declared": str(v)}
                streams.append(e2e_delivery(rng, st))
            else:
                # not a TCPRequest: an unknown (reserved) HTTP/3 frame type of length 0, then FIN: never dialled
                ft = rng.choice([0x400, 0x402, 0x4001, 0x21 + 0x1f * rng.randrange(1, 50)])
                ftw = rng.choice(widths(ft))
                st = {"segs": [vi(ftw, ft), lit(b"\x00")], "expect": "other", "addr_seg": -1, "consumed": 0, "mode": "refuse",
                      "ft_w": ftw, "wcuts": [], "sleep_ms": 0, "fin": True}
                streams.append(st)
        out.append({"k": "e2e", "g": "e2e", "streams": streams})
    return out


CLI_BUFS = [1, 2, 3, 4, 7, 8, 16, 31, 64, 100, 512, 1000, 1024, 4095, 4096, 4097, 8192, 32768]


def cli_bufs(rng, first=None):
    """len(p) of the application's Reads (the last one repeats): one size throughout, a small first buffer and then a
    large one (the relay pattern: peek a banner, then copy), or a mixed list."""
    b0 = first if first is not None else rng.choice(CLI_BUFS)
    r = rng.random()
    if r < 0.5:
        return [b0]
    if r < 0.75:
        return [b0, rng.choice([4096, 32768])]
    return [b0] + [rng.choice(CLI_BUFS) for _ in range(rng.choice([1, 2, 4]))]


def cli_case(rng, g, fo, L, wl, P, wp, trail, status, bufs, hold=-1, hold_ms=0, queue=0, wcuts=(), sleep_ms=0, fin=None):
    segs, bounds, exp = frame(rng, "resp", L, wl, P, wp, trail, status)
    T = total_len(segs)
    if fin is None:
        fin = rng.random() < 0.4
    if trail == 0:
        fin = True            # nothing to read behind the frame: the application sees io.EOF
    return {"k": "cli", "g": g, "fo": fo, "segs": segs, "expect": "ok" if status == 0 else "dial", "msg_seg": exp["val_seg"],
            "consumed": exp["consumed"], "wcuts": sorted(set(c for c in wcuts if 0 < c < T)), "sleep_ms": sleep_ms,
            "hold": hold if hold < T else -1, "hold_ms": hold_ms, "queue": min(queue, T), "bufs": list(bufs), "fin": fin}


def gen_cli(rng, tier):
    """Client-side sessions: see harness/go/c04/c04_cli_test.go."""
    scale = 1 if tier == "quick" else 6
    out = []
    LFIT = {1: [0, 1, 9, 63], 2: [0, 9, 64, 200, 2047, 2048], 4: [0, 9, 64, 2048], 8: [0, 1, 9, 2048]}
    PFIT = {1: [0, 1, 63], 2: [0, 1, 64, 300, 4095, 4096], 4: [0, 64, 513, 4096], 8: [0, 1, 63, 4096]}
    combos = [(a, p) for a in (1, 2, 4, 8) for p in (1, 2, 4, 8)]
    rng.shuffle(combos)
    ci = [0]

    def lp():
        wl, wp = combos[ci[0] % len(combos)]
        ci[0] += 1
        return rng.choice(LFIT[wl]), wl, rng.choice(PFIT[wp]), wp

    def status(p_err=0.0):
        return rng.choice([1, 2, 255]) if rng.random() < p_err else 0

    # (A) hold at EVERY position of short streams: inside the frame (the response arrives in two parts), at its end
    # (the response arrives alone), inside the payload (response and the first payload bytes coalesced)
    small_bufs = [[1], [2], [3], [5], [1, 2, 3], [64], [2, 4096], [1, 1, 32768]]
    bi = 0
    for rep in range(scale):
        for (L, wl, P, wp, st) in ((3, 1, 2, 1, 0), (0, 1, 1, 2, 0), (2, 2, 0, 4, 0), (2, 1, 1, 1, rng.choice([1, 255])), (1, 8, 3, 1, 0)):
            trail = 6
            T = 1 + wl + L + wp + P + trail
            for h in range(0, T):
                for fo in (True, False):
                    if not fo and rng.random() < 0.4:
                        continue
                    out.append(cli_case(rng, "hold-every", fo, L, wl, P, wp, trail, st, small_bufs[bi % len(small_bufs)],
                                        hold=h, hold_ms=rng.choice([3, 8]), fin=rng.random() < 0.5))
                    bi += 1
    # (B) everything queued before the first Read: response and the WHOLE payload coalesced
    for _ in range(90 * scale):
        L, wl, P, wp = lp()
        trail = rng.choice([1, 2, 17, 64, 100, 700, 700, 3000, 3000, 5000, 9000])
        fo = rng.random() < 0.67
        bufs = cli_bufs(rng)
        cons = 1 + wl + L + wp + P
        wc = rng.choice([[], [], [cons], [cons + 1], [rng.randrange(1, cons + trail)], [1, cons - 1]])
        out.append(cli_case(rng, "queued-all", fo, L, wl, P, wp, trail, status(0.1), bufs, queue=cons + trail, wcuts=wc,
                            sleep_ms=rng.choice([0, 1])))
    # (C) hold behind the frame: exactly h bytes are queued when the first Read runs
    for _ in range(90 * scale):
        L, wl, P, wp = lp()
        trail = rng.choice([2, 17, 64, 100, 700, 3000, 5000, 9000])
        cons = 1 + wl + L + wp + P
        T = cons + trail
        bufs = cli_bufs(rng)
        b0 = bufs[0]
        cand = [cons + 1, cons + 2, cons + b0 - 1, cons + b0, cons + b0 + 1, 4095, 4096, 4097, cons + 4096, T - 1,
                rng.randrange(cons + 1, T), rng.randrange(cons + 1, T)]
        cand = [h for h in cand if cons < h < T]
        if not cand:
            continue
        h = rng.choice(cand)
        fo = rng.random() < 0.67
        out.append(cli_case(rng, "hold-behind", fo, L, wl, P, wp, trail, status(0.08), bufs, hold=h,
                            wcuts=rng.choice([[], [], [cons], [rng.randrange(1, h)]]), sleep_ms=rng.choice([0, 1])))
    # (D) free running: the application reads at once, the peer writes in pieces
    for _ in range(40 * scale):
        L, wl, P, wp = lp()
        trail = rng.choice([0, 0, 1, 17, 100, 700, 3000])
        cons = 1 + wl + L + wp + P
        T = cons + trail
        k = rng.choice([0, 1, 2, 3])
        wc = [rng.randrange(1, T) for _ in range(k)] + ([cons] if rng.random() < 0.3 else [])
        out.append(cli_case(rng, "free", rng.random() < 0.6, L, wl, P, wp, trail, status(0.1), cli_bufs(rng), wcuts=wc,
                            sleep_ms=rng.choice([0, 1, 2])))
    # (E) failure responses: every status class, message lengths across the varint widths, bytes behind the frame
    for _ in range(36 * scale):
        L, wl, P, wp = lp()
        trail = rng.choice([0, 0, 1, 50, 700])
        cons = 1 + wl + L + wp + P
        st = rng.choice([1, 1, 2, 255])
        mode = rng.choice(["queued", "hold", "free"])
        kw = {}
        if mode == "queued":
            kw = dict(queue=cons + trail)
        elif mode == "hold" and trail > 1:
            kw = dict(hold=rng.randrange(cons + 1, cons + trail))
        out.append(cli_case(rng, "dial", rng.random() < 0.6, L, wl, P, wp, trail, st, cli_bufs(rng), **kw))
    # (F) over-limit lengths in the response: rejected, never a DialError, no payload byte
    for _ in range(16 * scale):
        fo = rng.random() < 0.6
        st = rng.choice([0, 0, 1])
        follow = rng.choice([0, 50, 300])
        if rng.random() < 0.5:
            v = rng.choice([2049, 2050, 16384, 2**30, MAXV])
            w = rng.choice(widths(v))
            segs = [lit(bytes([st])), vi(w, v)]
        else:
            L = rng.choice([0, 9, 2048])
            v = rng.choice([4097, 4098, 16384, 2**30, MAXV])
            w = rng.choice(widths(v))
            segs = [lit(bytes([st])), vi(rng.choice(widths(L)), L)] + ([gen_seg(rng, L)] if L else []) + [vi(w, v)]
        cons = total_len(segs)
        if follow:
            segs.append(gen_seg(rng, follow))
        out.append({"k": "cli", "g": "invalid", "fo": fo, "segs": segs, "expect": "invalid", "msg_seg": -1, "consumed": cons,
                    "wcuts": [], "sleep_ms": 0, "hold": -1, "hold_ms": 0, "queue": rng.choice([0, cons + follow]),
                    "bufs": cli_bufs(rng), "fin": rng.random() < 0.5})
    return out


def gen_conc(rng, scale):
    """K frames parsed concurrently over gated readers (see harness/go/c04/c04_conc_test.go)."""
    out = []
    nop = {"cls": "nopanic", "val_seg": -1, "st": False, "consumed": 0}
    SCHED = ["victim", "victim", "victim-all", "rr", "nested", "random", "reverse"]
    for it in range(70 * scale):
        K = rng.choice([2, 2, 3, 4])
        same_fn = rng.random() < 0.5
        fn0 = rng.choice(["req", "srv", "resp"])
        streams = []
        for i in range(K):
            fn = fn0 if same_fn else rng.choice(["req", "srv", "resp"])
            r = rng.random()
            if r < 0.08:
                # a rejected frame among the others: over-limit length
                pre = [lit(b"\x44\x01")] if fn == "srv" else [lit(bytes([rng.choice([0, 1])]))] if fn == "resp" else []
                v = rng.choice([2049, 4096, 2**20])
                w = rng.choice(widths(v))
                segs = pre + [vi(w, v), gen_seg(rng, 50)]
                plen = total_len(pre)
                exp = {"cls": "invalid", "val_seg": -1, "st": False, "consumed": plen + w, "maxreq": 1, "declared": str(v)}
                bounds = [plen, plen + w]
            elif r < 0.14:
                # a frame cut short by EOF inside the value / padding
                L = rng.choice([5, 64])
                segs, bounds, exp = frame(rng, fn, L, rng.choice(widths(L)), 20, 1, 0)
                stream = b"".join(seg_bytes(x) for x in segs)
                cutat = rng.choice([bounds[-3] + 2, bounds[-2], bounds[-1] - 3])
                segs, exp = [lit(stream[:cutat])], dict(nop)
                bounds = [b for b in bounds if b < cutat]
            else:
                L = rng.choice([1, 5, 20, 20, 63, 64, 200, 2048]) if fn != "resp" else rng.choice([0, 1, 5, 20, 20, 64, 200, 2048])
                P = rng.choice([0, 1, 10, 64, 300])
                segs, bounds, exp = frame(rng, fn, L, rng.choice(widths(L)), P, rng.choice(widths(P)), rng.choice([0, 0, 3]))
            T = total_len(segs)
            # gate positions: the field boundaries (the end of the value above all), sometimes inside a field
            gatepos = set()
            for b in bounds:
                if 0 < b < T and rng.random() < 0.7:
                    gatepos.add(b)
            if exp["cls"] == "ok" and exp["val_seg"] >= 0:
                vend = sum(len(seg_bytes(x)) for x in segs[:exp["val_seg"] + 1])
                if vend < T:
                    gatepos.add(vend)            # between the value and the padding length
                if rng.random() < 0.3:
                    gatepos.add(max(1, vend - 1))  # inside the value
            if rng.random() < 0.3 and T > 2:
                gatepos.add(rng.randrange(1, T))
            extra = set(rng.randrange(1, max(2, T)) for _ in range(rng.choice([0, 0, 1, 3])))
            ps = sorted(p for p in (gatepos | extra) if 0 < p < T)
            cuts = cuts_from_positions(ps, T)
            if exp["cls"] == "ok" and rng.random() < 0.3:
                # the stream ends with FIN coalesced into its last read (data + io.EOF): still a complete frame
                cuts = cuts + [[T - (ps[-1] if ps else 0), 1]]
                exp = expect(exp, cuts, T)
            gates = [j + 1 for j, p in enumerate(ps) if p in gatepos]
            if rng.random() < 0.15:
                gates.append(0)                  # parked before its first byte
            streams.append({"fn": fn, "segs": segs, "cuts": cuts, "gates": sorted(gates), "exp": exp})
        kind = SCHED[it % len(SCHED)]
        ng = [len(s["gates"]) + 1 for s in streams]
        if kind == "victim":          # stream 0 runs to its first gates, the others run to the end, then stream 0 goes on
            v = rng.randrange(K)
            sched = [v] * rng.randint(1, ng[v] - 1 if ng[v] > 1 else 1)
            for j in range(K):
                if j != v:
                    sched += [j] * ng[j]
            sched += [v] * ng[v]
        elif kind == "victim-all":    # every stream is parked at each of its gates while all the others run to the end
            sched = []
            for j in range(K):
                sched.append(j)
            for j in reversed(range(K)):
                sched += [j] * ng[j]
        elif kind == "rr":
            sched = [j for _ in range(max(ng)) for j in range(K)]
        elif kind == "nested":
            sched = list(range(K)) + list(reversed(range(K))) + list(range(K)) * max(ng)
        elif kind == "reverse":
            sched = [j for _ in range(max(ng)) for j in reversed(range(K))]
        else:
            sched = [rng.randrange(K) for _ in range(sum(ng) + 2)]
        mode = "free" if (it % 10 == 9) else "serial"
        out.append({"k": "conc", "mode": mode, "g": kind if mode == "serial" else "free", "streams": streams, "sched": sched})
    return out


# ---------------------------------------------------------------- Coq terms

FN = {"req": "FReq", "srv": "FSrv", "resp": "FResp"}
CLS = {"ok": 0, "eof": 1, "short": 2, "invalid": 3, "other": 4, "panic": 5, "skipped": 6}


def seg_term(s):
    if s["t"] == "lit":
        return "SLit %s" % common.coq_bytes(bytes.fromhex(s["hex"]))
    if s["t"] == "gen":
        return "SGen %d %d %d" % (s["a"], s["b"], s["n"])
    return "SVar %d %s" % (s["w"], s["v"])


def obs_term(o):
    return "(mkObs %d %s %d %d %d %d %d %d %d)" % (CLS[o["cls"]], "true" if o["st"] else "false", o["vlen"], o["vdg"],
                                                   o["llen"], o["ldg"], o["req"], o["max"], o["calls"])


CLI_TCP = {"ok": 0, "eof": 1, "short": 2, "invalid": 3, "other": 4, "dial": 7}
CLI_FIN = {"none": 9, "eof": 1, "short": 2, "invalid": 3, "other": 4, "dial": 7}


def cli_cuts(c):
    """The part of the stream that was queued when the application's first Read ran, then the rest."""
    T = total_len(c["segs"])
    h = c["hold"] if c["hold"] > c["consumed"] else c.get("queue", 0)
    return [4 * h] if 0 < h < T else []


def to_coq(c, o):
    k = c["k"]
    if k == "cli":
        if o.get("skip") or o.get("panic") or o.get("tcp") not in CLI_TCP or o.get("final") not in CLI_FIN:
            return None      # nothing observed (infrastructure) / a timeout or overrun: the harness verdict speaks
        segs = "[" + ";".join(seg_term(x) for x in c["segs"]) + "]"
        plen = 0 if c["expect"] == "invalid" else total_len(c["segs"]) - c["consumed"]
        return "CCli %s %s %s [%s] %d [%s] (mkCO %d %d %d %d %d %d)" % (
            "true" if c["fo"] else "false", "true" if c["fin"] else "false", segs, ";".join(str(x) for x in cli_cuts(c)),
            plen, ";".join(str(b) for b in (c["bufs"] or [4096])), CLI_TCP[o["tcp"]], CLI_FIN[o["final"]],
            o["mlen"], o["mdg"], o["glen"], o["gdg"])
    if k == "e2e":
        so_all = o.get("streams") or []
        if o.get("skip") or len(so_all) != len(c["streams"]):
            return None
        ts = []
        for st, so in zip(c["streams"], so_all):
            if so.get("skip"):
                continue     # infrastructure trouble / not run: nothing observed
            segs = "[" + ";".join(seg_term(x) for x in st["segs"]) + "]"
            ts.append("(mkES %s %s %d %d)" % (segs, "true" if so.get("dialed") else "false", so.get("alen", 0), so.get("adg", 0)))
        if not ts:
            return None
        return "CE2E [%s]" % ";".join(ts)
    if k == "conc":
        if len(o.get("streams") or []) != len(c["streams"]):
            return None
        ts = []
        for s, so in zip(c["streams"], o["streams"]):
            segs = "[" + ";".join(seg_term(x) for x in s["segs"]) + "]"
            cuts = "[" + ";".join(str(4 * a + b) for a, b in s["cuts"]) + "]"
            ts.append("(mkCS %s %s %s %s)" % (FN[s["fn"]], segs, cuts, obs_term(so)))
        return "CConc [%s]" % ";".join(ts)
    if k == "rd":
        segs = "[" + ";".join(seg_term(s) for s in c["segs"]) + "]"
        cuts = "[" + ";".join(str(4 * a + b) for a, b in c["cuts"]) + "]"
        obs = "(mkObs %d %s %d %d %d %d %d %d %d)" % (CLS[o["cls"]], "true" if o["st"] else "false", o["vlen"], o["vdg"],
                                                       o["llen"], o["ldg"], o["req"], o["max"], o["calls"])
        return "CRead %s %s %s %s" % (FN[c["fn"]], segs, cuts, obs)
    if k == "wr":
        if o.get("panic") or "pad" not in o:
            return None
        return "CWrite %s %s %d %d %d %s %d %d" % (FN[c["fn"]], "true" if c["ok"] else "false", c["a"], c["b"], c["n"],
                                                   common.coq_bytes(bytes.fromhex(o["pad"])), o["len"], o["dg"])
    if k == "vp":
        if o.get("panic"):
            res = "None"
        else:
            res = "(Some (%d, %s))" % (o["n"], common.coq_bytes(bytes.fromhex(o["hex"])))
        return "CPut %s %d %s" % (c["v"], c["bl"], res)
    return None


def klass(c, o):
    k = c["k"]
    if k == "cli":
        return "cli:%s:%s:%s" % (c["g"], "fastopen" if c["fo"] else "eager", "skipped" if o.get("skip") else c["expect"])
    if k == "e2e":
        return "e2e:" + ("skipped" if o.get("skip") else "run")
    if k == "conc":
        return "conc:K=%d:%s" % (len(c["streams"]), c["g"])
    if k == "rd":
        return "rd:%s:%s:%s" % (c["fn"], c["g"], o.get("cls"))
    if k == "wr":
        return "wr:%s:%s" % (c["fn"], "in-range" if (c["n"] <= 2048 and (c["fn"] == "resp" or c["n"] >= 1)) else "out-of-range")
    return "vp:" + ("panic" if o.get("panic") else "stored")


def nontrivial(c, o):
    k = c["k"]
    if k == "cli":
        return not o.get("skip") and (c["expect"] != "ok" or o.get("glen", 0) > 0 or c["fin"])
    if k == "e2e":
        return not o.get("skip") and any(so.get("dialed") for so in (o.get("streams") or []))
    if k == "conc":
        return any(s["gates"] for s in c["streams"])
    if k == "rd":
        e = c["exp"]["cls"]
        if e == "invalid":
            return True
        if e in ("ok", "okerr"):
            return bool(c["cuts"]) or any(s["t"] == "vi" and s["w"] != minw(int(s["v"])) for s in c["segs"]) or \
                total_len(c["segs"]) > c["exp"]["consumed"]
        return o.get("cls") not in ("ok", None)
    if k == "wr":
        return c["n"] <= 2048 and (c["fn"] == "resp" or c["n"] >= 1)
    return not o.get("panic")


def fingerprint(c, o):
    return None


def search(ctx, disagreeing):
    """Property-directed search on the implementation alone (no model): more seeds (all classes, the end-to-end one
    included: run() routes common.run_go_cases through run_split while the check runs)."""
    import random
    found = []
    for s in range(3):
        rng = random.Random(ctx.seed * 1000 + s + 17)
        cases = gen(rng, "quick")
        ok, outs, _, log = common.run_go_cases(ctx, GO, cases, tag="search%d" % s)
        for c, o in zip(cases, outs):
            if o.get("ok") is False:
                found.append({"what": "%s: %s" % (c["k"], o.get("why")), "replay": {"case": c, "impl": o},
                              "fingerprint": fingerprint(c, o), "found_input": True})
        if found:
            break
    return found


def run_split(ctx, orig):
    """common.run_go_cases with the cases routed to two Go packages: scripted-reader / writer / concurrency cases to
    core/internal/protocol, end-to-end connections to core/internal/integration_tests (real server); both at the same
    time, outputs merged back in case order.  Returns (dispatcher, stats)."""
    import threading
    stats = {"conns": 0, "conns_skipped": 0, "streams": 0, "streams_skipped": 0, "runs": 0}

    def both(ctx_, gospec, cases, tag="main", timeout=900, race=False):
        if gospec is not GO:
            return orig(ctx_, gospec, cases, tag=tag, timeout=timeout, race=race)
        ia = [i for i, c in enumerate(cases) if c.get("k") not in ("e2e", "cli")]
        ib = [i for i, c in enumerate(cases) if c.get("k") == "e2e"]
        ic = [i for i, c in enumerate(cases) if c.get("k") == "cli"]
        if not ib and not ic:
            return orig(ctx_, GO, cases, tag=tag, timeout=timeout, race=race)
        res = {}

        def run_cli():
            t0 = time.time()
            res["c"] = orig(ctx_, GO_CLI, [cases[i] for i in ic], tag=tag + "_cli", timeout=min(timeout, 900), race=race)
            res["tc"] = time.time() - t0

        thc = None
        if ic:
            thc = threading.Thread(target=run_cli)
            thc.start()

        def run_e2e():
            t0 = time.time()
            res["r"] = orig(ctx_, GO_E2E, [cases[i] for i in ib], tag=tag + "_e2e", timeout=min(timeout, 600), race=race)
            res["t"] = time.time() - t0

        th = None
        if ib:
            th = threading.Thread(target=run_e2e)
            th.start()
        ok1, o1, params, log1 = (True, [], None, "")
        if ia:
            ok1, o1, params, log1 = orig(ctx_, GO, [cases[i] for i in ia], tag=tag, timeout=timeout, race=race)
        if th:
            th.join()
        if thc:
            thc.join()
        ok2, o2, _, log2 = res.get("r", (False, [], None, "end-to-end harness did not run")) if ib else (True, [], None, "")
        ok3, o3, _, log3 = res.get("c", (False, [], None, "client-side harness did not run")) if ic else (True, [], None, "")
        if len(o3) != len(ic):
            ok3 = False
            o3 = list(o3) + [{"k": "cli", "ok": True, "why": "", "skip": "client-side harness did not finish"}] * (len(ic) - len(o3))
            log3 = "client-side harness (core/client) failed:\n" + log3
        if len(o1) != len(ia):
            return False, [], params, log1 + log2
        if len(o2) != len(ib):
            # the end-to-end package did not build / finish: reported as a broken tie (ok2 False); keep the other outputs
            ok2 = False
            o2 = list(o2) + [{"k": "e2e", "ok": True, "why": "", "skip": "end-to-end harness did not finish"}] * (len(ib) - len(o2))
            log2 = "end-to-end harness (core/internal/integration_tests) failed:\n" + log2
        outs = [None] * len(cases)
        for i, o in zip(ia, o1):
            outs[i] = o
        for i, o in zip(ib, o2):
            outs[i] = o
        for i, o in zip(ic, o3):
            outs[i] = o
        if ic:
            nsk = sum(1 for o in o3 if o.get("skip"))
            stats["cli"] = stats.get("cli", 0) + len(ic)
            stats["cli_skipped"] = stats.get("cli_skipped", 0) + nsk
            ctx_.say("client-side class (%s): %d sessions through the real clientImpl.TCP / tcpConn.Read in %.1fs; skipped for infrastructure reasons: %d%s" % (
                tag, len(ic), res.get("tc", 0.0), nsk, (" (first: %s)" % next((o.get("skip") for o in o3 if o.get("skip")), None)) if nsk else ""))
            if nsk == len(ic):
                ctx_.say("client-side class (%s): EVERY session was skipped - this run has validated NOTHING of the client path" % tag)
        if not ib:
            return ok1 and ok3, outs, params, log1 + log3
        ns = sum(len(cases[i]["streams"]) for i in ib)
        nss = sum(len(cases[i]["streams"]) if o.get("skip") else int(o.get("nskip", 0)) for i, o in zip(ib, o2))
        ncs = sum(1 for o in o2 if o.get("skip"))
        stats["runs"] += 1
        stats["conns"] += len(ib); stats["conns_skipped"] += ncs; stats["streams"] += ns; stats["streams_skipped"] += nss
        ctx_.say("end-to-end class (%s): %d connections, %d streams through the real server in %.1fs; skipped for infrastructure reasons: %d connections, %d streams%s" % (
            tag, len(ib), ns, res.get("t", 0.0), ncs, nss,
            (" (first: %s)" % next((o.get("skip") for o in o2 if o.get("skip")), None)) if ncs else ""))
        if ncs == len(ib):
            ctx_.say("end-to-end class (%s): EVERY connection was skipped - this run has validated NOTHING of the real server path "
                     "(dispatcher / ProxyStreamHijacker / handleTCPRequest); only the scripted-reader classes and the theorems count" % tag)
        return ok1 and ok2 and ok3, outs, params, log1 + log2 + log3

    return both, stats


def eval_cases_linear(ctx, prefix, header, terms, per_shard=250, timeout=900):
    """Same contract as common.eval_cases, but every case is its own `Definition` and the list only names
    them: Coq elaborates one big nested list literal in time quadratic in its size (measured: 170 cases
    = 5 s as one literal, 0.3 s as separate definitions), and a dozen shards amortise the library loading."""
    if not terms:
        return True, [], ""
    ns = max(1, min(12, -(-len(terms) // 40)))
    groups = [terms[si::ns] for si in range(ns)]
    texts = []
    for g in groups:
        defs = "".join("Definition c%d : case := %s.\n" % (i, t) for i, t in enumerate(g))
        lst = "Definition cases : list case := [" + ";".join("c%d" % i for i in range(len(g))) + "].\n"
        texts.append(header + "\n" + defs + lst + common.CASES_TAIL)
    res = common.coq_eval_shards(ctx, prefix, texts, timeout)
    mism = []
    for si, (rc, out, err) in enumerate(res):
        n, mm = common.parse_mismatches(out)
        if rc != 0 or mm is None or n != len(groups[si]):
            return False, mism, "shard %d: rc=%s count=%s expected=%s err=%s" % (si, rc, n, len(groups[si]), (err or out)[-1500:])
        mism += [j * ns + si for j in mm]
    return True, sorted(mism), ""


def run(ctx):
    import random
    import sys
    orig_eval, orig_finish = common.eval_cases, common.finish
    extra = []
    if ctx.tier != "quick":
        # the concurrency class once more under the race detector (same seed, so the same cases as the main run)
        cc = [c for c in gen(random.Random(ctx.seed), ctx.tier) if c["k"] == "conc"][:600]
        rok, routs, _, rlog = common.run_go_cases(ctx, GO, cc, tag="race", race=True)
        ctx.say("concurrency class under -race: %s (%d cases)" % ("ok" if rok else "FAILED", len(cc)))
        for c, o in zip(cc, routs):
            if o.get("ok") is False:
                extra.append({"what": "conc (-race): %s" % o.get("why"), "replay": {"case": c, "impl": o},
                              "fingerprint": None, "found_input": True})
        if not rok and not extra:
            extra.append({"what": "concurrency harness fails under -race: " + rlog.strip()[-600:],
                          "replay": {"broken": "race", "log": rlog[-4000:]}, "found_input": False, "fingerprint": None})

    orig_run = common.run_go_cases
    both, e2e_stats = run_split(ctx, orig_run)

    def finish_more(ctx_, pinfo, cov, violations, *a, **kw):
        cov = dict(cov)
        cov["end_to_end"] = dict(e2e_stats, validated=(e2e_stats["conns"] > e2e_stats["conns_skipped"]),
                                 note="connections/streams driven through the real http3 dispatcher + ProxyStreamHijacker + handleTCPRequest over loopback QUIC; "
                                      "skipped = infrastructure trouble (never a verdict); validated=false means the class did not count for this run")
        return orig_finish(ctx_, pinfo, cov, list(violations) + extra, *a, **kw)

    common.eval_cases = eval_cases_linear   # only the layout of the generated cases files differs
    common.finish = finish_more
    common.run_go_cases = both
    try:
        return common.run_case_check(ctx, sys.modules[__name__])
    finally:
        common.eval_cases = orig_eval
        common.finish = orig_finish
        common.run_go_cases = orig_run


def replay(ctx, path):
    import json
    r = json.load(open(path))
    c = r["replay"].get("case")
    if not c:
        print("replay file names a broken obligation/correspondence, no concrete input:", r["what"])
        return 1
    ok, outs, _, log = common.run_go_cases(ctx, {"e2e": GO_E2E, "cli": GO_CLI}.get(c.get("k"), GO), [c], tag="replay")
    print(json.dumps(outs, indent=1))
    return 0 if outs and outs[0].get("ok") else 1


LEVEL_TEXT = ("Machine-checked Coq theorems over a statement-by-statement Gallina model of ReadTCPRequest, ReadTCPResponse, "
              "WriteTCPRequest, WriteTCPResponse, varintPut and the Go io helpers they use (io.ReadFull, quicvarint byteReader/Read, "
              "io.CopyN to io.Discard) over an io.Reader modelled as an arbitrary finite script of reads: for every address/message, "
              "every padding, every legal varint width, every chunking (zero-length reads included) and every trailing payload the frame "
              "is read back identical and the reader stops exactly at the end of the frame; over-limit or empty lengths are rejected "
              "after single-byte reads only, with nothing allocated; the readers never panic on any script; the server path is modelled from the "
              "http3 dispatcher on (Peek of the frame type without consuming, ProxyStreamHijacker consuming it, ReadTCPRequest): for every "
              "fitting width of the frame type the dispatcher and the hijacker decode the same bytes, the request is decoded to the address "
              "sent and exactly the trailing payload is left, other frame types are left untouched; an io.EOF delivered together with the "
              "last bytes of a stream is indistinguishable from an io.EOF at the next Read for all three readers (any script), hence complete "
              "frames are read back when FIN is coalesced with their last bytes; the client side (clientImpl.TCP and the lazy FastOpen path of "
              "tcpConn.Read) is modelled on top of the response reader: in both modes the application's first Read equals a plain Read on a "
              "stream that delivers exactly the payload, a failure status yields a DialError with exactly the message and leaves the stream "
              "behind the frame, and Reads with buffers of arbitrary positive sizes return exactly the payload and then io.EOF, for every "
              "chunking. The model is tied to /repo on "
              "every run by regenerated constants and a differential run of the Go code against the model (vm_compute in the kernel).")
LEVEL_NOTE = ("Trusted: Coq kernel + vm_compute; hand-written model incl. the transcription of Go's io helpers (tie is sampled differential "
              "testing + regenerated Params); python/Go glue. No axioms. Not proved: QUIC stream internals; out-of-memory behaviour of make().")
TECHNIQUE = "Coq proof (induction over read scripts) on a hand-written model + differential correspondence check in vm_compute"
DESIGN_REF = "DESIGN.md section 4 C04"
