"""C05 - UDP fragmentation is all-or-nothing and size-bounded (DESIGN.md section 4, C05)."""
from vlib import common

GO = dict(module="core", pkg="internal/frag", pkgname="frag",
          files={"zz_verif_c05_test.go": "c05/c05_test.go"}, run="TestVerifC05")
GO_CLIENT = dict(module="core", pkg="client", pkgname="client",
                 files={"zz_verif_c05_send_test.go": "c05/c05_send_client_test.go",
                        "zz_verif_c05_send_common_test.go": "_gen/c05_send_common_client_test.go",
                        "zz_verif_c05_sess_test.go": "c05/c05_sess_client_test.go",
                        "zz_verif_c05_sess_common_test.go": "_gen/c05_sess_common_client_test.go"}, run="TestVerifC05SendClient")
GO_SERVER = dict(module="core", pkg="server", pkgname="server",
                 files={"zz_verif_c05_send_test.go": "c05/c05_send_server_test.go",
                        "zz_verif_c05_send_common_test.go": "_gen/c05_send_common_server_test.go",
                        "zz_verif_c05_sess_test.go": "c05/c05_sess_server_test.go",
                        "zz_verif_c05_sess_common_test.go": "_gen/c05_sess_common_server_test.go"}, run="TestVerifC05SendServer")
GO_ALL = [GO, GO_CLIENT, GO_SERVER]
PARAMS_NAME = "ParamsC05"
HEADER = "From Hy Require Import lib.Harness model.C05_Frag model.C05_Send model.C05_Sess corr.C05_Corr.\nFrom Coq Require Import ZArith.\nLocal Open Scope N_scope.\n"
RULE = ("seeded generator: FragUDPMessage on boundary sizes (payload budget-1/budget/budget+1, 255*budget, 255*budget+1, 65535; "
        "address lengths 1,63,64,255,2048; limits at/below the header size); Defragger histories (2-4 messages, "
        "permutations, duplicates, drops, interleavings; exhaustive permutations for <=4 fragments); Serialize/Parse round trips and "
        "mutated/truncated wire bytes; COLLIDING packet ids (distinct ids equal in the low byte / high byte, 256, 512, k*256 apart, "
        "byte-swapped, one bit apart, 0/255/256/65535) with equal and different fragment counts, in histories where the fragments that "
        "would expose a mix are lost (A0 B1 A2); SEND PATHS (client udpConn.Send and server receiveLoop/sendMessageAutoFrag over a fake "
        "datagram channel): histories of 3-7 messages under a limit that is constant / growing / shrinking / oscillating / stepping "
        "down and back / random / degenerate (<= header, 0, negative), message sizes placed relative to the limits (between lowest and "
        "highest, above all, L, L+1, > 255 fragments at the low limit only, around the 4096-byte send buffer), limit change or "
        "connection error in the middle of one send; a real Defragger behind the channel; LONG OPERATION: per side one history of "
        "65536 + 1500..3000 fragmented sends on one session (tiny messages, 2-3 fragments, fake IO): a full cycle of any 16-bit id "
        "generator from wherever it stands, the id sequence judged for id 0, per-lag repeat counts within the horizon of 64 sends and "
        "cyclic structure, a second Defragger behind complementary fragment loss; SESSION MANAGERS (case kind sess; the real "
        "server udpSessionManager.Run/feed/idle sweeper + udpSessionEntry.Feed and the real client udpSessionManager + udpConn.Receive "
        "over fake IO on a fake clock): arrival schedules of several sessions on one connection - a fragmented message that OPENS its "
        "session (no entry yet / entry removed by the idle timeout / right after NewUDP) in every permutation of 2-4 fragments with a "
        "duplicate, sessions one after the other, round robin and randomly interleaved, packet ids distinct or EQUAL (with equal counts) "
        "across sessions, complementary losses across sessions, two messages of one session evicting each other, pauses shorter and longer "
        "than the idle timeout (also between the fragments of one message), client sessions opened/closed during the schedule and "
        "fragments for ids not open; verdict per session: delivered byte-identical (session, address, payload) or not at all, delivered "
        "when all fragments arrived with no other packet id of THAT session in between. Non-trivial = the message is actually split (>=2 fragments), or the history emits/withholds "
        "a multi-fragment message, or the parser rejects. Distinct = distinct JSON case.")
ASSUMPTIONS = [
    "quic-go reports a usable MaxDatagramPayloadSize and sends datagrams at or under it whole (library, not modelled)",
    "packet IDs of messages in flight are distinct (hypothesis of C05_no_chimera, as in the property text)",
    "packet ids, send paths: the model takes the id of every fragmented message as an oracle input; the observation that discharges "
    "the distinctness hypothesis is made on the implementation in the long-operation class (one history of > 65536 fragmented sends "
    "per side): within the horizon W = 64 (at most 64 fragmented messages of one session in flight / reorderable at a time) the ids of "
    "consecutive sends are pairwise distinct and never 0, UP TO CHANCE: the code draws uint16(rand.Intn(0xFFFF))+1, so two given "
    "messages collide with probability 1/65535 and a history of n sends is expected to contain about (W-1)*n/65535 (~65) honest "
    "repeats within the horizon, ~1 of them adjacent; a rare honest repeat is therefore NOT a violation. Flagged are: id 0 "
    "(probability 0 when honest); a lag d < 64 at which >= thr messages repeat the id of the d-th message before (X_d is exactly "
    "Binomial(n-d,1/65535) for independent uniform ids, thr chosen so that 63*(n/65535)^thr/thr! < 5e-10: thr = 15 for n < 70000); "
    "a CYCLIC id sequence (period P, >= 90% of >= 256 positions equal the id P sends before: probability < 2^-3000 when honest) "
    "that has any repeat within the horizon - such a repeat recurs every cycle. False-alarm probability of the whole clause on the "
    "unchanged tree < 1e-9 per run; a generator whose collision rate is merely a few times 1/65535 is not detected",
    "send paths: the QUIC connection is an oracle (per SendMessage call: a datagram limit L - accept <= L, refuse > L with DatagramTooLargeError{L} - or another error); the random packet id is an oracle argument in 1..65535; C05_send_hist_delivers assumes the drawn ids pairwise distinct and the limit constant during each single send",
]
TRUSTED = ["modelled rather than verified: core/internal/frag/frag.go and the UDPMessage codec of core/internal/protocol/proxy.go (hand transcription in coq/model/C05_Frag.v)",
           "modelled rather than verified: the routing of arriving messages to per-session reassemblers - server udpSessionManager.feed / udpSessionEntry.Feed up to the Defragger and the idle sweeper, client udpSessionManager.feed / NewUDP / close / udpConn.Receive (hand transcription in coq/model/C05_Sess.v as a map session -> one-slot reassembler; what follows a delivery on the server - dial, hook, policy, write - is C07/C08's)",
           "modelled rather than verified: udpConn.Send (core/client/udp.go), sendMessageAutoFrag (core/server/udp.go) and udpIOImpl.SendMessage (hand transcription in coq/model/C05_Send.v; the model has no state between two sends because the code has none - the differential run over limit histories is what ties this to /repo)"]
PER_SHARD = 118  # 12 shards = one round on the 12 evaluation workers (each coqc start + first literal costs ~7 s)
EXTRA_TARGETS = ["corr/C05_Corr.vo"]


def hdr(al):
    vl = 1 if al <= 63 else 2 if al <= 16383 else 4
    return 8 + vl + al


def mk(rng, al=None, dl=None, pid=None, maxv=None):
    al = al if al is not None else rng.choice([1, 3, 10, 63, 64, 255])
    dl = dl if dl is not None else rng.randint(1, 80)
    return {"sid": rng.choice([0, 1, 7, 2**32 - 1, rng.randrange(2**32)]),
            "pid": pid if pid is not None else rng.randrange(1, 2**16), "fid": 0, "fc": 1,
            "al": al, "aa": rng.randrange(256), "ab": rng.randrange(256),
            "dl": dl, "da": rng.randrange(256), "db": rng.randrange(256),
            "max": maxv if maxv is not None else hdr(al) + rng.randint(1, 12)}


def gen(rng, tier):
    import itertools
    scale = 1 if tier == "quick" else 12
    cases = []
    # --- splitter boundaries
    for al in (1, 63, 64, 255, 2048):
        h = hdr(al)
        budgets = (1, 2, 7, 100, 1200 - h if 1200 - h > 0 else 5) if al <= 64 else (1, 7)
        for budget in budgets:
            dls = {1, budget - 1, budget, budget + 1, 2 * budget, 2 * budget + 1, 254 * budget + 1,
                   255 * budget, 255 * budget + 1, 256 * budget, 256 * budget + 1, 300 * budget}
            if al > 64:
                dls = {budget + 1, 255 * budget, 255 * budget + 1, 256 * budget + 1}
            for dl in sorted(dls):
                if 1 <= dl <= 65535:
                    cases.append({"k": "frag", "m": mk(rng, al, dl, maxv=h + budget)})
        for maxv in (-5, 0, h - 1, h, h + 1):
            cases.append({"k": "frag", "m": mk(rng, al, rng.choice([1, 50]), maxv=maxv)})
    cases.append({"k": "frag", "m": mk(rng, 10, 65535, maxv=1200)})
    cases.append({"k": "frag", "m": mk(rng, 10, 65535, maxv=hdr(10) + 256)})
    cases.append({"k": "frag", "m": mk(rng, 10, 65535, maxv=hdr(10) + 257)})
    cases.append({"k": "frag", "m": mk(rng, 2048, 4000, maxv=hdr(2048) + 10)})
    for _ in range(120 * scale):
        al = rng.choice([1, 5, 63, 64, 200])
        cases.append({"k": "frag", "m": mk(rng, al, rng.randint(1, 3000), maxv=hdr(al) + rng.randint(-2, 40))})
    # --- reassembly histories
    # exhaustive permutations (with one duplicate) of one message split in 2..4 fragments
    for nfr in (2, 3, 4):
        m = mk(rng, 3, nfr * 5 - 2, maxv=hdr(3) + 5)
        for perm in itertools.permutations(range(nfr)):
            for dup in range(nfr):
                order = [[0, p] for p in perm]
                order.insert(rng.randrange(len(order) + 1), [0, dup])
                cases.append({"k": "seq", "msgs": [m], "order": order})
    for _ in range(260 * scale):
        nm = rng.randint(1, 4)
        pids = rng.sample(range(1, 2**16), nm)
        if rng.random() < 0.15 and nm >= 2:
            pids[1] = pids[0]  # same packet id: outside the property's hypothesis, compared with the model only
        msgs = []
        for j in range(nm):
            al = rng.choice([1, 4, 63, 64])
            nfr = rng.choice([1, 2, 2, 3, 5, 8, 40])
            budget = rng.randint(1, 9)
            dl = max(1, budget * nfr - rng.randrange(budget))
            msgs.append(mk(rng, al, dl, pid=pids[j], maxv=hdr(al) + budget))
        order = []
        for j, m in enumerate(msgs):
            b = m["max"] - hdr(m["al"])
            n = max(1, -(-m["dl"] // b))
            idx = list(range(n))
            if rng.random() < 0.3:
                idx = idx[:-1] or idx          # drop one
            idx += [rng.randrange(n) for _ in range(rng.randint(0, 3))]  # duplicates
            order += [[j, x] for x in idx]
        mode = rng.random()
        if mode < 0.5:
            rng.shuffle(order)                  # full interleaving
        elif mode < 0.8:
            # per-message blocks, shuffled inside
            blocks = {}
            for o in order:
                blocks.setdefault(o[0], []).append(o)
            order = []
            for j in rng.sample(list(blocks), len(blocks)):
                rng.shuffle(blocks[j])
                order += blocks[j]
        cases.append({"k": "seq", "msgs": msgs, "order": order[:400]})
    cases += gen_collide(rng, scale)
    cases += gen_send(rng, scale)
    cases += gen_sess(rng, scale)
    # --- wire format
    for _ in range(150 * scale):
        al = rng.choice([0, 1, 63, 64, 300, 2048, 2049])
        dl = rng.choice([0, 1, 2, 100])
        m = mk(rng, al, dl)
        m["fid"] = rng.randrange(256)
        m["fc"] = rng.randrange(256)
        size = hdr(al) + dl
        cases.append({"k": "wire", "m": m, "buf": rng.choice([size, size, size + 5, max(0, size - 1), 0])})
    for _ in range(200 * scale):
        n = rng.choice([0, 1, 7, 8, 9, 10, 11, 12, 16, 20])
        b = bytearray(rng.randrange(256) for _ in range(n))
        if n > 8 and rng.random() < 0.7:
            b[8] = rng.choice([0, 1, 2, 3, 0x40, 0x41, 0x48, 0x80, 0xc0, len(b) - 9, max(0, len(b) - 10)]) % 256
        cases.append({"k": "parse", "hex": bytes(b).hex()})
    return cases


EDGE_PIDS = [0, 1, 255, 256, 257, 511, 512, 0x7fff, 0x8000, 0xff00, 0xfffe, 0xffff]


def pid_family(rng):
    """2-3 DISTINCT packet ids that are 'close' in some byte-wise sense: equal low byte (differ by 256, 512, k*256),
    equal high byte, byte-swapped, differing in one bit, around 0 / 255 / 256 / 65535."""
    base = rng.choice(EDGE_PIDS + [rng.randrange(2**16) for _ in range(4)])
    mode = rng.randrange(8)
    if mode == 0:
        cand = [base, (base + 256) % 65536, (base + 512) % 65536]
    elif mode == 1:
        cand = [base, (base + 256 * rng.randrange(1, 256)) % 65536, (base + 256 * rng.randrange(1, 256)) % 65536]
    elif mode == 2:   # same high byte, different low byte
        cand = [base, (base & 0xff00) | ((base + rng.randrange(1, 256)) & 0xff), (base & 0xff00) | ((base + 1) & 0xff)]
    elif mode == 3:   # byte-swapped / shifted by 8 either way
        cand = [base, ((base << 8) | (base >> 8)) & 0xffff, (base << 8) & 0xffff, base >> 8]
    elif mode == 4:   # one bit apart
        cand = [base, base ^ (1 << rng.randrange(16)), base ^ (1 << rng.randrange(8, 16))]
    elif mode == 5:   # the low byte only / the high byte only / both
        cand = [base, base & 0xff, base & 0xff00, base | 0xff00]
    elif mode == 6:
        cand = [0, 256, 65535, 255, 0xff00][rng.randrange(3):]
    else:
        cand = [base, (base + 1) % 65536, (base + 0x100) % 65536, (base + 0x8000) % 65536]
    out = []
    for p in cand:
        if p not in out:
            out.append(p)
    while len(out) < 2:
        p = (out[0] + 256 * rng.randrange(1, 256)) % 65536
        if p not in out:
            out.append(p)
    rng.shuffle(out)
    return out[:rng.choice([2, 2, 3])]


def gen_collide(rng, scale):
    """Interleaved messages of one session whose packet ids are distinct but collide in one byte (low byte equal:
    ids 256/512/k*256 apart; high byte equal; 0/255/256/65535), with equal and with different fragment counts.
    Histories in which the fragments that would expose a mix are LOST (A0 B1 A2 with A1/B0 lost), so a
    reassembler that identifies a message by less than (full packet id, count) emits a payload nobody sent."""
    out = []
    for it in range(90 * scale):
        pids = pid_family(rng)
        nm = len(pids)
        al = rng.choice([1, 4, 63, 64])
        budget = rng.randint(1, 9)
        nfr = rng.choice([2, 3, 3, 4, 5, 8, 40, 255])
        equal = rng.random() < 0.7
        sid = rng.choice([0, 1, 7, 2**32 - 1])
        msgs = []
        for j in range(nm):
            n = nfr if (equal or j == 0) else rng.choice([max(2, nfr - 1), nfr + 1 if nfr < 255 else 254, 2, 3])
            dl = max(budget + 1, budget * n - rng.randrange(budget))
            m = mk(rng, al, dl, pid=pids[j], maxv=hdr(al) + budget)
            m["sid"] = sid
            msgs.append(m)
        ns = [max(1, -(-m["dl"] // budget)) for m in msgs]
        mode = it % 6
        order = []
        if mode == 0:
            # slot i is taken from message i mod nm, every other fragment is lost: A0 B1 A2 ...
            order = [[i % nm, i] for i in range(max(ns)) if i < ns[i % nm]]
        elif mode == 1:
            # A without one fragment, then B's fragment for exactly that slot (and possibly the rest of B)
            hole = rng.randrange(ns[0])
            order = [[0, i] for i in range(ns[0]) if i != hole]
            rng.shuffle(order)
            order.append([1, hole % ns[1]])
            if rng.random() < 0.5:
                order += [[1, i] for i in range(ns[1]) if i != hole % ns[1]]
        elif mode == 2:
            # random owner per slot, random arrival order, nothing else arrives
            order = [[rng.randrange(nm), i] for i in range(max(ns))]
            order = [o for o in order if o[1] < ns[o[0]]]
            rng.shuffle(order)
        elif mode == 3:
            # every message loses a random subset; the survivors interleave at random, with duplicates
            for j in range(nm):
                keep = [i for i in range(ns[j]) if rng.random() < 0.6] or [0]
                order += [[j, i] for i in keep]
            order += [list(rng.choice(order)) for _ in range(rng.randint(0, 3))]
            rng.shuffle(order)
        elif mode == 4:
            # B complete in the middle of A (A must restart or finish on its own, never absorb B)
            half = ns[0] // 2
            order = [[0, i] for i in range(half)] + [[1, i] for i in range(ns[1])] + [[0, i] for i in range(half, ns[0])]
        else:
            # complementary halves: even slots of A, odd slots of B, then the other halves in reverse
            order = [[0, i] for i in range(0, ns[0], 2)] + [[1, i] for i in range(1, ns[1], 2)]
            if rng.random() < 0.5:
                order += [[1, i] for i in range(0, ns[1], 2)][::-1] + [[0, i] for i in range(1, ns[0], 2)][::-1]
        out.append({"k": "seq", "msgs": msgs, "order": order[:400], "cls": "collide"})
    return out


BUF = 4096  # protocol.MaxUDPSize: the senders' buffer (the harness reports the real one, the model uses that)


def gen_send(rng, scale):
    """Histories of sends on one UDP session through a datagram channel whose limit varies over the history
    (constant / growing / shrinking / oscillating / step down and back / random; tiny and non-positive limits),
    message sizes placed relative to the limits of the history (fits all; between the lowest and the highest
    limit; above all; exactly L and L+1; needs > 255 fragments at the low limit only; larger than the send buffer),
    and per-call behaviour inside one send (limit shrinks / grows / connection fails after j calls).  Every history
    runs on the client (udpConn.Send) and on the server (receiveLoop -> sendMessageAutoFrag)."""
    out = []
    pats = ["constant", "growing", "shrinking", "oscillating", "stepdown", "random", "degenerate", "real"]
    for it in range(56 * scale):
        pat = pats[it % len(pats)]
        al = rng.choice([1, 5, 14, 63, 64, 200])
        h = hdr(al)
        n = rng.randint(3, 7)
        if pat == "real":
            lo, hi = rng.choice([(700, 1200), (1200, 1400), (1150, 1252), (500, 1452)])
        else:
            lo = h + rng.randint(1, 12)
            hi = lo + rng.randint(1, 40)
        if pat == "constant":
            lims = [rng.choice([lo, hi])] * n
        elif pat == "growing":
            lims = sorted(rng.randint(lo, hi) for _ in range(n))
            lims[0], lims[-1] = lo, hi
        elif pat == "shrinking":
            lims = sorted((rng.randint(lo, hi) for _ in range(n)), reverse=True)
            lims[0], lims[-1] = hi, lo
        elif pat == "oscillating":
            lims = [hi if i % 2 == 0 else lo for i in range(n)]
            if rng.random() < 0.5:
                lims = lims[1:] + [lims[0]]
        elif pat in ("stepdown", "real"):
            k = rng.randint(1, n - 2)
            k2 = rng.randint(k + 1, n)
            lims = [hi] * k + [lo] * (k2 - k) + [rng.choice([hi, hi + 200])] * (n - k2)
        elif pat == "random":
            lims = [rng.randint(lo, hi) for _ in range(n)]
        else:  # degenerate limits: at / below the header size, zero, negative, then usable again
            lims = [rng.choice([hi, h, h - 1, 0, -3, 1, h + 1, lo]) for _ in range(n)]
            lims[0] = hi
        mlo, mhi = min(lims), max(lims)

        def size_for(L, kind):
            b = max(1, L - h)
            if kind == "small":
                return rng.randint(1, max(1, min(lims + [lo]) - h))
            if kind == "exact":
                return max(1, L - h)
            if kind == "plus1":
                return max(1, L - h + 1)
            if kind == "between":
                return max(1, rng.randint(mlo - h + 1, max(mlo - h + 1, mhi - h)))
            if kind == "above":
                return max(1, mhi - h + rng.randint(1, 3 * max(1, mhi - h)))
            if kind == "many":   # > 255 fragments under the lowest limit, <= 255 under the highest
                return min(3900, 255 * max(1, mlo - h) + rng.randint(1, 40))
            if kind == "edge255":
                return min(3900, 255 * b + rng.choice([-1, 0, 1]))
            return rng.randint(BUF - h - 2, BUF)   # around / above the send buffer
        steps = []
        same_addr = rng.random() < 0.6
        aa, ab = rng.randrange(256), rng.randrange(256)
        for i in range(n):
            L = lims[i]
            kinds = ["small", "exact", "plus1", "between", "between", "above", "above", "above", "many", "edge255", "buf"]
            if pat == "real":
                kinds = ["small", "between", "above", "above", "plus1", "buf"]
            kind = rng.choice(kinds)
            if i > 0 and lims[i] < lims[i - 1] and rng.random() < 0.7:
                kind = rng.choice(["above", "above", "between"])   # an oversized message right after the limit shrank
            dl = max(1, min(BUF, size_for(L, kind)))
            resp = [[0, L]]
            r = rng.random()
            if r < 0.08:
                j = rng.randint(1, 4)
                resp = [[0, L]] * j + [[0, max(h, L - rng.randint(1, 10))]]       # limit shrinks inside the send
            elif r < 0.14:
                j = rng.randint(1, 4)
                resp = [[0, L]] * j + [[0, L + rng.randint(1, 50)]]                # grows inside the send
            elif r < 0.20:
                j = rng.randint(0, 4)
                resp = [[0, L]] * j + [[1, 0]]                                      # connection error at call j
            elif r < 0.23:
                j = rng.randint(1, 3)
                resp = [[0, L]] * j + [[1, 0]] + [[0, L]]                           # one transient error
            if not same_addr:
                aa, ab = rng.randrange(256), rng.randrange(256)
            steps.append({"al": al, "aa": aa, "ab": ab, "dl": dl, "da": rng.randrange(256), "db": rng.randrange(256),
                          "resp": resp})
        sid = rng.choice([0, 1, 7, 2**32 - 1, rng.randrange(2**32)])
        for side in ("client", "server"):
            out.append({"k": "send", "side": side, "sid": sid, "pat": pat, "steps": steps})
    out += gen_sendlong(rng, scale)
    return out


LONG_W = 64          # the in-flight horizon: fragmented messages of one session that may be in flight / reordered together
LONG_FA = 5e-10      # bound asked for the false-alarm probability of clause (r), per long history


def long_thr(n, w=LONG_W, fa=LONG_FA):
    """Smallest t with (w-1) * (n/65535)^t / t! < fa.  For independent uniform ids on 1..65535 the number X_d of
    positions i with id[i] == id[i+d] is Binomial(n-d, 1/65535) for every fixed lag d (id[i+d] is fresh with respect
    to everything before it), P(X_d >= t) <= C(n,t) p^t <= (np)^t / t!; union over the w-1 lags."""
    t, x = 0, 1.0
    while (w - 1) * x >= fa:
        t += 1
        x *= n / 65535.0 / t
    return t


def gen_sendlong(rng, scale):
    """LONG OPERATION: one history of more than 65536 fragmented sends on ONE session through the real send path
    (tiny messages, every one refused whole and split in 2-3 fragments, fake IO), per side.  The length covers a full
    cycle of any 16-bit id generator wherever it stands when the history starts (the id state may be process-wide:
    the other send cases of the run have drawn ids before) plus an overlap that lets the harness recognise a cyclic
    id sequence.  The Coq side sees a summary only."""
    out = []
    for side in ("client", "server"):
        for it in range(1 if scale == 1 else 2):
            al = rng.choice([3, 5, 9])
            h = hdr(al)
            budget = rng.randint(3, 9)
            # mostly one fragment count (a repeat needs the same count to confuse the far side), sometimes another
            two = [rng.randint(budget + 1, 2 * budget) for _ in range(3)]
            dls = rng.choice([two, two + [rng.randint(2 * budget + 1, 3 * budget)], [two[0]]])
            n = 65536 + rng.randint(1500, 3000) + (65536 if it else 0)
            out.append({"k": "sendlong", "side": side, "sid": rng.choice([0, 1, 7, 2**32 - 1, rng.randrange(2**32)]),
                        "n": n, "w": LONG_W, "thr": long_thr(n), "lim": h + budget, "al": al,
                        "aa": rng.randrange(256), "ab": rng.randrange(256), "dls": dls,
                        "da": rng.randrange(256), "db": rng.randrange(256), "sample": 16})
    return out



# ---------------------------------------------------------------------------------------------------------------
# reassembly THROUGH the session managers (case kind "sess")

SESS_IV = 1000    # idleCleanupInterval in ms as the generator assumes it (the harness reports the real one to the model)
SESS_OFF = 500    # the first operation happens half an interval after the manager started: no arrival on a tick


def sess_msg(rng, sid, pid, nfr, al=None, budget=None):
    """A message of session sid that splits in exactly nfr fragments (nfr == 1: fits whole)."""
    al = al if al is not None else rng.choice([1, 4, 63, 64])
    budget = budget if budget is not None else rng.randint(1, 9)
    dl = rng.randint(1, budget) if nfr == 1 else budget * nfr - rng.randrange(budget)
    if nfr > 1:
        dl = max(dl, budget + 1)
    return {"sid": sid, "pid": pid, "al": al, "aa": rng.randrange(1, 256), "ab": rng.randrange(256),
            "dl": dl, "da": rng.randrange(1, 256) | 1, "db": rng.randrange(256), "max": hdr(al) + budget}


def sess_nfr(m):
    b = m["max"] - hdr(m["al"])
    return 1 if m["dl"] <= b else -(-m["dl"] // b)


def sess_merge(rng, seqs, mode):
    """Merge per-session arrival sequences, keeping the order inside each: seq = one after the other, rr = strict
    round robin (A0 B0 A1 B1 ...), random = random interleaving."""
    seqs = [list(q) for q in seqs if q]
    out = []
    if mode == "seq":
        for q in seqs:
            out += q
    elif mode == "rr":
        while any(seqs):
            for q in seqs:
                if q:
                    out.append(q.pop(0))
    else:
        while any(seqs):
            q = rng.choice([q for q in seqs if q])
            out.append(q.pop(0))
    return out


def sess_sids(rng, side, n):
    if side == "client":
        return list(range(1, n + 1))
    pool = [0, 1, 7, 2**32 - 1, 2**31, 256, 65536] + [rng.randrange(2**32) for _ in range(n)]
    return rng.sample(sorted(set(pool)), n)


def sess_case(side, msgs, ops, timeout=3000, cls=""):
    pre = [[3]] * (max([m["sid"] for m in msgs] + [0]) if side == "client" and cls != "life" else 0)
    return {"k": "sess", "side": side, "timeout": timeout, "off": SESS_OFF, "msgs": msgs, "ops": (pre + ops)[:600], "cls": cls}


def sess_block(rng, j, n, first=None, dups=1, drop=False):
    """Arrival order of the fragments of message j: a random permutation (first fragment to arrive = `first` when
    given), dups duplicates inserted anywhere, optionally one fragment lost."""
    idx = list(range(n))
    rng.shuffle(idx)
    if first is not None and n > 1:
        idx.remove(first % n)
        idx.insert(0, first % n)
    if drop and n > 1:
        idx.pop(rng.randrange(len(idx)))
    for _ in range(dups):
        idx.insert(rng.randrange(len(idx) + 1), rng.randrange(n))
    return [[0, j, x] for x in idx]


def gen_sess(rng, scale):
    """Arrival schedules on one connection, through the real session managers (server: udpSessionManager.Run/feed/
    sweeper + udpSessionEntry.Feed; client: run/feed + udpConn.Receive):
      perm    - a fragmented message that OPENS its session (server: no entry yet; client: right after NewUDP), every
                permutation of 2/3/4 fragments with one duplicate, one session per permutation, sessions one after the
                other / round robin / randomly interleaved, packet ids all distinct or ALL EQUAL across sessions;
      reopen  - server: rounds of messages separated by pauses shorter / longer than the idle timeout: messages whose
                first fragment to arrive is not fragment 0 re-open a session the sweeper removed; fragments straddling
                a pause (state kept when short, lost when long);
      inter   - 2-4 sessions with 1-3 messages each (split 1-8 ways, duplicates, losses, two messages of one session
                interleaved = eviction) interleaved on the connection; equal (packet id, count) across sessions;
                complementary losses across sessions (A0 of s1, B1 of s2) that a shared slot would assemble;
      life    - client: sessions opened and closed during the schedule, fragments for ids not (yet / any more) open."""
    import itertools
    out = []
    for side in ("server", "client"):
        # ---- perm
        for nfr in (2, 3, 4):
            perms = list(itertools.permutations(range(nfr)))
            rng.shuffle(perms)
            chunks = [perms[i:i + 8] for i in range(0, len(perms), 8)]
            for ci, chunk in enumerate(chunks):
                for mode in ("seq", "rr", "random"):
                    if mode == "random" and nfr == 4 and scale == 1 and ci > 0:
                        continue
                    reps = 2 if nfr == 2 else 1          # 2 fragments: both permutations x both duplicates
                    sess = [(p, d) for p in chunk for d in range(reps)]
                    sids = sess_sids(rng, side, len(sess))
                    samepid = rng.random() < 0.5
                    pid0 = rng.randrange(1, 2**16)
                    al, budget = rng.choice([1, 4, 63, 64]), rng.randint(1, 9)
                    msgs, seqs = [], []
                    for k, (perm, d) in enumerate(sess):
                        pid = pid0 if samepid else (pid0 + 1 + k * rng.choice([1, 256])) % 65536 or 1
                        msgs.append(sess_msg(rng, sids[k], pid, nfr, al if samepid else None, budget if samepid else None))
                        order = [[0, k, x] for x in perm]
                        dup = d if nfr == 2 else rng.randrange(nfr)
                        order.insert(rng.randrange(len(order) + 1), [0, k, dup])
                        seqs.append(order)
                    out.append(sess_case(side, msgs, sess_merge(rng, seqs, mode), cls="perm"))
        # real sizes: 2400 bytes under a 1000-byte limit (3 fragments), 3500 under 1200
        for dl, lim in ((2400, 1000), (3500, 1200)):
            perms = list(itertools.permutations(range(3)))
            sids = sess_sids(rng, side, len(perms))
            msgs, seqs = [], []
            for k, perm in enumerate(perms):
                m = sess_msg(rng, sids[k], rng.randrange(1, 2**16), 3, al=23, budget=5)
                m["dl"], m["max"] = dl, lim
                msgs.append(m)
                seqs.append([[0, k, x] for x in perm])
            out.append(sess_case(side, msgs, sess_merge(rng, seqs, rng.choice(["seq", "rr"])), cls="perm"))
        # ---- inter
        for it in range(30 * scale):
            ns = rng.choice([2, 2, 3, 4])
            sids = sess_sids(rng, side, ns)
            pidmode = it % 3          # 0: k-th messages of all sessions share (id, count); 1: all distinct; 2: colliding family
            fam = pid_family(rng)
            nm = rng.randint(1, 3)
            shape = [(rng.randrange(1, 2**16), rng.choice([1, 2, 2, 3, 3, 5, 8]), rng.choice([1, 4, 63, 64]), rng.randint(1, 9))
                     for _ in range(nm)]
            msgs, seqs, used = [], [], set()
            for si, sid in enumerate(sids):
                q, mine = [], []
                for k in range(nm if pidmode == 0 else rng.randint(1, 3)):
                    if pidmode == 0:
                        pid, nfr, al, budget = shape[k]
                    else:
                        pid = fam[(si + k) % len(fam)] if pidmode == 2 else rng.randrange(1, 2**16)
                        nfr, al, budget = rng.choice([1, 2, 2, 3, 5, 8]), None, None
                    while (sid, pid) in used or pid == 0:
                        pid = (pid + 256) % 65536 or 1
                    used.add((sid, pid))
                    mine.append(len(msgs))
                    msgs.append(sess_msg(rng, sid, pid, nfr, al, budget))
                blocks = [sess_block(rng, j, sess_nfr(msgs[j]), dups=rng.choice([0, 0, 1, 2]), drop=rng.random() < 0.2) for j in mine]
                if len(blocks) >= 2 and rng.random() < 0.25:
                    q = sess_merge(rng, blocks[:2], "random") + [o for b in blocks[2:] for o in b]   # eviction inside the session
                else:
                    q = [o for b in blocks for o in b]
                seqs.append(q)
            out.append(sess_case(side, msgs, sess_merge(rng, seqs, ["rr", "random", "random", "seq"][it % 4]), cls="inter"))
        # complementary losses across two sessions with equal (id, count): only A's even and B's odd fragments arrive
        for it in range(6 * scale):
            sids = sess_sids(rng, side, 2)
            pid, nfr, al, budget = rng.randrange(1, 2**16), rng.choice([2, 2, 3, 4, 5]), rng.choice([1, 4, 63]), rng.randint(1, 9)
            msgs = [sess_msg(rng, sid, pid, nfr, al, budget) for sid in sids]
            ops = [[0, i % 2, i] for i in range(nfr)]
            if it % 3 == 1:
                rng.shuffle(ops)
            if it % 3 == 2:
                ops += [[0, (i + 1) % 2, i] for i in range(nfr)]     # ... and then the other halves: both complete
            out.append(sess_case(side, msgs, ops, cls="inter"))
    # ---- reopen (server)
    for it in range(26 * scale):
        timeout = rng.choice([1000, 2000, 3000])
        ns = rng.choice([1, 2, 2, 3])
        sids = sess_sids(rng, "server", ns)
        msgs, ops, used = [], [], set()
        for rnd in range(rng.randint(2, 4)):
            seqs = []
            for sid in sids:
                if ns > 1 and rng.random() < 0.3:
                    continue                   # this session is silent in this round (it ages)
                pid = rng.randrange(1, 2**16)
                while (sid, pid) in used:
                    pid = pid % 65535 + 1
                used.add((sid, pid))
                nfr = rng.choice([1, 2, 3, 3, 4, 5])
                j = len(msgs)
                msgs.append(sess_msg(rng, sid, pid, nfr))
                n = sess_nfr(msgs[j])
                blk = sess_block(rng, j, n, first=(rng.randrange(1, n) if n > 1 and rng.random() < 0.8 else None),
                                 dups=rng.choice([0, 1, 1]), drop=rng.random() < 0.1)
                seqs.append(blk)
            arr = sess_merge(rng, seqs, rng.choice(["seq", "rr", "random"]))
            longp = rng.random() < 0.6
            pause = [1, (timeout + rng.choice([1, 2, 3]) * SESS_IV) if longp else rng.choice([1, 1, timeout // SESS_IV]) * SESS_IV]
            if arr and rng.random() < 0.35:
                cut = rng.randrange(1, len(arr) + 1)       # the pause falls inside the round: fragments straddle it
                ops += arr[:cut] + [pause] + arr[cut:]
            else:
                ops += arr + [pause]
        out.append(sess_case("server", msgs, ops, timeout=timeout, cls="reopen"))
    # ---- life (client)
    for it in range(14 * scale):
        nopen0 = rng.randint(0, 2)
        total = nopen0 + rng.randint(1, 3)
        msgs, used = [], set()
        per = {}
        for sid in list(range(1, total + 1)) + [rng.choice([0, total + 1, 2**32 - 1])]:
            for _ in range(rng.randint(1, 2)):
                pid = rng.randrange(1, 2**16)
                if (sid, pid) in used:
                    continue
                used.add((sid, pid))
                per.setdefault(sid, []).append(len(msgs))
                msgs.append(sess_msg(rng, sid, pid, rng.choice([1, 2, 3, 3, 4])))
        ops = [[3]] * nopen0
        opened, closed = nopen0, set()
        pend = {sid: [o for j in js for o in sess_block(rng, j, sess_nfr(msgs[j]), dups=rng.choice([0, 1]))] for sid, js in per.items()}
        while any(pend.values()) or opened < total:
            r = rng.random()
            if r < 0.15 and opened < total:
                ops.append([3])
                opened += 1
            elif r < 0.22 and opened > len(closed):
                s = rng.choice([x for x in range(1, opened + 1) if x not in closed])
                closed.add(s)
                ops.append([2, s])
            else:
                live = [sid for sid, q in pend.items() if q]
                if not live:
                    ops.append([3])
                    opened += 1
                    continue
                sid = rng.choice(live)
                o = pend[sid].pop(0)
                ops.append(o)
                if rng.random() < 0.2:
                    pend[sid].append(o)       # the same fragment arrives again later (e.g. once the session is open)
        out.append(sess_case("client", msgs, ops, cls="life"))
    return out


def spec_term(m):
    return "(mkSpec %d %d %d %d %d %d %d %d %d %d)" % (m["sid"], m["pid"], m["fid"], m["fc"], m["al"], m["aa"], m["ab"],
                                                        m["dl"], m["da"], m["db"])


def nl(xs):
    return "[" + ";".join(str(x) for x in xs) + "]"


def ll(xss):
    return "[" + ";".join(nl(x) for x in xss) + "]"


def pres(o):
    if o.get("panic"):
        return "PRpanic"
    if "pm" in o:
        return "(PRok %s)" % nl(o["pm"])
    if o.get("perr") == "eof":
        return "PReof"
    if o.get("perr") == "invalid":
        return "PRinvalid"
    return "PRnone"


def zlit(z):
    return "(%d)%%Z" % z


def to_coq(c, o):
    k = c["k"]
    if k == "frag":
        exp = "None" if o.get("panic") else "(Some %s)" % ll(o["frags"])
        return "CFrag %s %s %s" % (spec_term(c["m"]), zlit(c["m"]["max"]), exp)
    if k == "seq":
        ms = "[" + ";".join("(%s,%s)" % (spec_term(m), zlit(m["max"])) for m in c["msgs"]) + "]"
        order = "[" + ";".join("(%d,%d)%%nat" % (a, b) for a, b in c["order"]) + "]"
        exp = "None" if o.get("panic") else "(Some %s)" % ll(o["emits"])
        return "CSeq %s %s %s" % (ms, order, exp)
    if k == "wire":
        if o.get("panic") and "n" not in o:
            return None
        dg = "(Some %d)" % o["dg"] if "dg" in o else "None"
        return "CWire %s %d%%nat %s %d%%nat %s %s" % (spec_term(c["m"]), c["buf"], zlit(o["n"]), o["hsz"], dg, pres(o))
    if k == "parse":
        return "CParse %s %s" % (common.coq_bytes(bytes.fromhex(c["hex"])), pres(o))
    if k == "send":
        if any(so.get("panic") for so in o["steps"]) or len(o["steps"]) != len(c["steps"]):
            return None
        steps, obs = [], []
        for st, so in zip(c["steps"], o["steps"]):
            resp = "[" + ";".join("RFail" if r[0] == 1 else "RLim (%d)%%Z" % r[1] for r in st["resp"]) + "]"
            np = so["calls"][1][1] if len(so["calls"]) >= 2 else 1   # the random packet id is an oracle: take the observed one
            steps.append("(mkSS %d %d %d %d %d %d %s %d)" % (st["al"], st["aa"], st["ab"], st["dl"], st["da"], st["db"], resp, np))
            calls = "[" + ";".join("[" + ";".join("(%d)" % x for x in call) + "]" for call in so["calls"]) + "]%Z"
            obs.append("(mkSO %s (%d)%%Z (%d)%%Z %s)" % (calls, so["ret"], so["retL"], ll(so["emits"])))
        return "CSend %d %d%%nat [%s] [%s]" % (c["sid"], o.get("buf") or BUF, ";".join(steps), ";".join(obs))
    if k == "sess":
        if o.get("hang") or ("emits" not in o and not o.get("panic")):
            return None
        ms = "[" + ";".join("(%s,%s)" % (spec_term(dict(m, fid=0, fc=1)), zlit(m["max"])) for m in c["msgs"]) + "]"
        exp = "None" if o.get("panic") else "(Some %s)" % ll(o["emits"])
        return "CSess %s %d %d %d %s %s %s %s" % ("true" if c["side"] == "server" else "false", o.get("iv") or SESS_IV,
                                                  c["timeout"], c["off"], ms, ll(c["ops"]), exp, nl(o.get("cnts") or []))
    if k == "sendlong":
        if "lags" not in o:
            return None
        fr = o["first_repeat"]
        rel = "None" if fr[0] < 0 else "(Some (%d, %d))" % (fr[0] - o["sample_at"], fr[1] - o["sample_at"])
        return "CSendIds %d %d %d %d %s %d %s %s %s" % (o["n"], o["w"], c["thr"], o["zeros"], nl(o["lags"]), o["period"],
                                                        nl(o["sample"]), rel, "true" if o["ok"] else "false")
    return None


def klass(c, o):
    k = c["k"]
    if k == "frag":
        n = len(o.get("frags") or [])
        return "frag:" + ("panic" if o.get("panic") else "discard" if n == 0 else "whole" if n == 1 else "split<=8" if n <= 8 else "split>8")
    if k == "seq":
        return "seq:%semits=%d" % ("collide:" if c.get("cls") == "collide" else "", min(3, len(o.get("emits") or [])))
    if k == "send":
        nf = sum(1 for so in o.get("steps") or [] if len(so["calls"]) >= 2)
        return "send:%s:%s:%s" % (c["side"], c.get("pat"), "fragmented" if nf else "whole-only")
    if k == "wire":
        return "wire:" + ("short-buffer" if o.get("n", 0) < 0 else "roundtrip" if "pm" in o else "rejected")
    if k == "sendlong":
        return "sendlong:%s:%s" % (c["side"], ">65536" if o.get("n", 0) > 65536 else "short")
    if k == "sess":
        return "sess:%s:%s:%s" % (c["side"], c.get("cls"), "opened-by-later-fragment" if o.get("opened_by_later_fragment")
                                  else "delivers" if o.get("emits") else "silent")
    return "parse:" + ("ok" if "pm" in o else str(o.get("perr")))


def nontrivial(c, o):
    k = c["k"]
    if k == "frag":
        return len(o.get("frags") or []) >= 2 or len(o.get("frags") or []) == 0
    if k == "seq":
        return len(c["order"]) >= 2
    if k == "send":
        return any(len(so["calls"]) >= 2 for so in o.get("steps") or [])
    if k == "wire":
        return "pm" in o
    if k == "sendlong":
        return o.get("n", 0) > 65536
    if k == "sess":
        return len(c["ops"]) >= 2 and (o.get("expected", 0) > 0 or bool(o.get("emits")))
    return True


def fingerprint(c, o):
    why = o.get("why") or ""
    if c["k"] == "frag" and "panic" in why:
        m = c["m"]
        b = m["max"] - hdr(m["al"])
        if b > 0 and -(-m["dl"] // b) > 255:
            return "frag-count>255-panic"
    return None


def group_of(c):
    return 0 if c["k"] not in ("send", "sendlong", "sess") else 1 if c["side"] == "client" else 2


def make_send_common():
    """Instantiate the shared harness files (send path, session managers) for the two packages (same mechanism as
    common.make_util)."""
    import os
    d = os.path.join(common.VERIF, "harness", "go", "_gen")
    os.makedirs(d, exist_ok=True)
    for stem in ("c05_send_common", "c05_sess_common"):
        tmpl = open(os.path.join(common.VERIF, "harness", "go", "c05", stem + "_test.go.tmpl")).read()
        for pkg in ("client", "server"):
            p = os.path.join(d, "%s_%s_test.go" % (stem, pkg))
            text = tmpl.replace("__PKG__", pkg)
            if not os.path.exists(p) or open(p).read() != text:
                with open(p, "w") as f:
                    f.write(text)


def run_go_all(ctx, cases, tag="main", race=False):
    """Runs the three harnesses (internal/frag, client, server) in parallel.
    Returns (ok, outs aligned with cases (None where missing), params of the frag harness, logs)."""
    from concurrent.futures import ThreadPoolExecutor
    make_send_common()
    groups, idx = [[], [], []], [[], [], []]
    for i, c in enumerate(cases):
        g = group_of(c)
        groups[g].append(c)
        idx[g].append(i)
    outs = [None] * len(cases)

    def one(g):
        if not groups[g] and g != 0:
            return True, [], None, ""
        return common.run_go_cases(ctx, GO_ALL[g], groups[g], tag="%s_%d" % (tag, g), race=race and g != 0)

    with ThreadPoolExecutor(max_workers=3) as ex:
        res = list(ex.map(one, range(3)))
    ok, logs, params = True, [], None
    for g, (gok, gouts, gparams, glog) in enumerate(res):
        if not gok:
            ok = False
            logs.append("[%s] %s" % (GO_ALL[g]["pkg"], glog[-2500:]))
        if len(gouts) == len(groups[g]):
            for i, o in zip(idx[g], gouts):
                outs[i] = o
        if g == 0:
            params = gparams
    return ok, outs, params, "\n".join(logs)


def violations_of(cases, outs):
    v = []
    for c, o in zip(cases, outs):
        if o is not None and o.get("ok") is False:
            v.append({"what": "%s: %s" % (c.get("k") + ("/" + c["side"] if c.get("k") in ("send", "sendlong", "sess") else ""), o.get("why")),
                      "replay": {"case": c, "impl": o}, "fingerprint": fingerprint(c, o), "found_input": True})
    return v


def search(ctx, disagreeing):
    """Property-directed search on the implementation alone (no model): more seeds."""
    import random
    found = []
    for s in range(3):
        rng = random.Random(ctx.seed * 1000 + s + 17)
        cases = gen(rng, "quick")
        ok, outs, _, log = run_go_all(ctx, cases, tag="search%d" % s)
        found = violations_of(cases, outs)
        if found:
            break
    return found


def run(ctx):
    """Three Go packages are exercised (internal/frag, client, server), so C05 has its own run(): the pieces of
    vlib/common.py, same decision rule as common.run_case_check."""
    import json
    import random
    import time
    rng = random.Random(ctx.seed)
    cases = gen(rng, ctx.tier)
    violations = []
    t0 = time.time()
    ok, outs, params, golog = run_go_all(ctx, cases)
    ctx.say("go harnesses: %d cases in %.1fs" % (len(cases), time.time() - t0))
    if not ok:
        ctx.say("Go harness failed:\n" + golog[-3000:])
        violations.append({"what": "tie broken: Go harness for C05 did not build/run against the current tree (%s)" % golog.strip()[-400:],
                           "replay": {"broken": "go harness", "log": golog[-4000:]}, "found_input": False, "fingerprint": None})
    if ctx.tier != "quick" and ok:
        # the send-path harnesses once more under the race detector (server side runs the real receive loop in a goroutine)
        sc = [c for c in cases if c["k"] == "send"][:200]
        rok, routs, _, rlog = run_go_all(ctx, sc, tag="race", race=True)
        ctx.say("send-path harnesses under -race: %s" % ("ok" if rok else "FAILED"))
        if not rok:
            violations.append({"what": "send-path harness fails under -race: " + rlog.strip()[-400:],
                               "replay": {"broken": "race", "log": rlog[-4000:]}, "found_input": False, "fingerprint": None})
    if params is not None:
        if common.write_params(PARAMS_NAME, [tuple(p) for p in params]):
            ctx.say("Params changed -> rebuilding dependants")
    proof_ok, pinfo = common.proof_stage(ctx, ctx.pid, extra_targets=EXTRA_TARGETS)
    if not proof_ok:
        ctx.say("PROOF STAGE BROKEN: " + json.dumps({k: pinfo[k] for k in pinfo if k != "theorems"})[:3000])
    pairs = [(i, c, o) for i, (c, o) in enumerate(zip(cases, outs)) if o is not None]
    mism, corr_ok, corr_err, compared = [], True, "", 0
    if pairs:
        terms, idxmap = [], []
        for i, c, o in pairs:
            t = to_coq(c, o)
            if t is not None:
                terms.append(t)
                idxmap.append(i)
        compared = len(terms)
        t1 = time.time()
        eok, mm, err = common.eval_cases(ctx, "cases", HEADER, terms, PER_SHARD)
        ctx.say("coq evaluation of %d cases: %.1fs" % (len(terms), time.time() - t1))
        if not eok:
            corr_ok, corr_err = False, err
            ctx.say("CORRESPONDENCE EVALUATION FAILED: " + err)
        mism = [idxmap[j] for j in mm]
    hist, nontriv = {}, set()
    for i, c, o in pairs:
        k = klass(c, o)
        hist[k] = hist.get(k, 0) + 1
        if nontrivial(c, o):
            nontriv.add(json.dumps(c, sort_keys=True))
    violations += violations_of([c for _, c, _ in pairs], [o for _, _, o in pairs])
    impl_bad = any(v.get("found_input") for v in violations)
    broken = []
    if not proof_ok:
        broken.append("proof obligation (%s)" % pinfo.get("broken_at", pinfo.get("forbidden", "assumptions")))
    if mism:
        broken.append("correspondence C05_Corr on %d case(s)" % len(mism))
    if not corr_ok:
        broken.append("correspondence evaluation (%s)" % corr_err[:200])
    if broken and not impl_bad:
        found = search(ctx, [cases[i] for i in mism[:20]]) or []
        if found:
            violations += found
        else:
            violations.append({
                "what": "no longer shown to hold: " + "; ".join(broken),
                "replay": {"broken": broken, "proof": {k: pinfo.get(k) for k in ("broken_at", "build_log_tail", "forbidden", "theorems")},
                           "disagreeing_cases": [{"case": cases[i], "impl": outs[i]} for i in mism[:10]]},
                "fingerprint": None, "found_input": False})
    elif mism and impl_bad:
        ctx.say("model/implementation disagree on %d case(s) (implementation also violates the property directly)" % len(mism))
    samples = [{"case": c, "impl": {k: v for k, v in o.items() if k != "i"}} for _, c, o in pairs[:2]]
    for kind in ("frag", "seq", "send", "sendlong", "sess"):
        for _, c, o in pairs:
            if c["k"] == kind and nontrivial(c, o) and len(json.dumps(o)) < 6000:
                samples.append({"case": c, "impl": {k: v for k, v in o.items() if k != "i"}})
                break
    cov = {"evaluations": len(cases), "distinct_nontrivial": len(nontriv), "rule": RULE, "samples": samples,
           "traces_validated_against_impl": compared, "model_impl_disagreements": len(mism), "input_classes": hist}
    return common.finish(ctx, pinfo, cov, violations, ASSUMPTIONS, trusted_extra=TRUSTED)


def replay(ctx, path):
    import json
    r = json.load(open(path))
    c = r["replay"].get("case")
    if not c:
        print("replay file names a broken obligation/correspondence, no concrete input:", r["what"])
        return 1
    make_send_common()
    ok, outs, _, log = common.run_go_cases(ctx, GO_ALL[group_of(c)], [c], tag="replay")
    print(json.dumps(outs, indent=1))
    return 0 if outs and outs[0].get("ok") else 1

LEVEL_TEXT = ("Machine-checked Coq theorems over a statement-by-statement Gallina model of FragUDPMessage, Defragger.Feed and the "
              "UDPMessage codec: for every message, limit and fragment history (no bound on sizes or lengths) the splitter never panics, "
              "every fragment fits, <=255 fragments or discard (exact iff), any arrival order with duplicates reassembles to the original, "
              "no chimera under distinct packet ids, parse.serialize = id; send paths: whole message first, fragmentation only after a too-large refusal "
              "and only against the limit that refusal reported, stop at the first error, and for every history of limits (constant during each send) "
              "the far-side Defragger emits exactly the messages that fit, byte-identical; session managers: sessions do not interfere (what a session is handed depends only on "
              "the operations that concern it), a fragmented message that opens or re-opens a session is delivered exactly once in every arrival order. The model is tied to /repo on every run by regenerated "
              "constants and a differential run of the Go code (internal/frag, client, server) against the model on ~1400 boundary-directed cases (vm_compute in the kernel).")
LEVEL_NOTE = ("Trusted: Coq kernel + vm_compute; hand-written model (tie is sampled differential testing + regenerated Params); python/Go glue. "
              "No axioms (all theorems closed under the global context). Not proved: quic-go datagram size reporting; packet-id distinctness is a hypothesis.")
TECHNIQUE = "Coq proof (induction/invariant over fragment histories) on a hand-written model + differential correspondence check in vm_compute"
DESIGN_REF = "DESIGN.md section 4 C05"
