"""C05 - UDP fragmentation is all-or-nothing and size-bounded (DESIGN.md section 4, C05)."""
from vlib import common

GO = dict(module="core", pkg="internal/frag", pkgname="frag",
          files={"zz_verif_c05_test.go": "c05/c05_test.go"}, run="TestVerifC05")
PARAMS_NAME = "ParamsC05"
HEADER = "From Hy Require Import lib.Harness model.C05_Frag corr.C05_Corr.\nFrom Coq Require Import ZArith.\nLocal Open Scope N_scope.\n"
RULE = ("seeded generator: FragUDPMessage on boundary sizes (payload budget-1/budget/budget+1, 255*budget, 255*budget+1, 65535; "
        "address lengths 1,63,64,255,2048; limits at/below the header size); Defragger histories (2-4 messages, "
        "permutations, duplicates, drops, interleavings; exhaustive permutations for <=4 fragments); Serialize/Parse round trips and "
        "mutated/truncated wire bytes. Non-trivial = the message is actually split (>=2 fragments), or the history emits/withholds "
        "a multi-fragment message, or the parser rejects. Distinct = distinct JSON case.")
ASSUMPTIONS = [
    "quic-go reports a usable MaxDatagramPayloadSize and sends datagrams at or under it whole (library, not modelled)",
    "packet IDs of messages in flight are distinct (hypothesis of C05_no_chimera, as in the property text)",
]
TRUSTED = ["modelled rather than verified: core/internal/frag/frag.go and the UDPMessage codec of core/internal/protocol/proxy.go (hand transcription in coq/model/C05_Frag.v)"]
PER_SHARD = 50
EXTRA_TARGETS = ["corr/C05_Corr.vo"]


def hdr(al):
    vl = 1 if al <= 63 else 2 if al <= 16383 else 4
    return 8 + vl + al


def mk(rng, al=None, dl=None, pid=None, maxv=None):
    al = al if al is not None else rng.choice([1, 3, 10, 63, 64, 255])
    dl = dl if dl is not None else rng.randint(1, 80)
    return {"sid": rng.choice([0, 1, 7, 2**32 - 1, rng.randrange(2**32)]),
            "pid": pid if pid is not None else rng.randrange(1, 2**16), "fid": 0, "fc": 1,
            "al": al, "aa": rng.randrange(256), "ab": rng.randrange(256),
            "dl": dl, "da": rng.randrange(256), "db": rng.randrange(256),
            "max": maxv if maxv is not None else hdr(al) + rng.randint(1, 12)}


def gen(rng, tier):
    import itertools
    scale = 1 if tier == "quick" else 12
    cases = []
    # --- splitter boundaries
    for al in (1, 63, 64, 255, 2048):
        h = hdr(al)
        budgets = (1, 2, 7, 100, 1200 - h if 1200 - h > 0 else 5) if al <= 64 else (1, 7)
        for budget in budgets:
            dls = {1, budget - 1, budget, budget + 1, 2 * budget, 2 * budget + 1, 254 * budget + 1,
                   255 * budget, 255 * budget + 1, 256 * budget, 256 * budget + 1, 300 * budget}
            if al > 64:
                dls = {budget + 1, 255 * budget, 255 * budget + 1, 256 * budget + 1}
            for dl in sorted(dls):
                if 1 <= dl <= 65535:
                    cases.append({"k": "frag", "m": mk(rng, al, dl, maxv=h + budget)})
        for maxv in (-5, 0, h - 1, h, h + 1):
            cases.append({"k": "frag", "m": mk(rng, al, rng.choice([1, 50]), maxv=maxv)})
    cases.append({"k": "frag", "m": mk(rng, 10, 65535, maxv=1200)})
    cases.append({"k": "frag", "m": mk(rng, 10, 65535, maxv=hdr(10) + 256)})
    cases.append({"k": "frag", "m": mk(rng, 10, 65535, maxv=hdr(10) + 257)})
    cases.append({"k": "frag", "m": mk(rng, 2048, 4000, maxv=hdr(2048) + 10)})
    for _ in range(120 * scale):
        al = rng.choice([1, 5, 63, 64, 200])
        cases.append({"k": "frag", "m": mk(rng, al, rng.randint(1, 3000), maxv=hdr(al) + rng.randint(-2, 40))})
    # --- reassembly histories
    # exhaustive permutations (with one duplicate) of one message split in 2..4 fragments
    for nfr in (2, 3, 4):
        m = mk(rng, 3, nfr * 5 - 2, maxv=hdr(3) + 5)
        for perm in itertools.permutations(range(nfr)):
            for dup in range(nfr):
                order = [[0, p] for p in perm]
                order.insert(rng.randrange(len(order) + 1), [0, dup])
                cases.append({"k": "seq", "msgs": [m], "order": order})
    for _ in range(260 * scale):
        nm = rng.randint(1, 4)
        pids = rng.sample(range(1, 2**16), nm)
        if rng.random() < 0.15 and nm >= 2:
            pids[1] = pids[0]  # same packet id: outside the property's hypothesis, compared with the model only
        msgs = []
        for j in range(nm):
            al = rng.choice([1, 4, 63, 64])
            nfr = rng.choice([1, 2, 2, 3, 5, 8, 40])
            budget = rng.randint(1, 9)
            dl = max(1, budget * nfr - rng.randrange(budget))
            msgs.append(mk(rng, al, dl, pid=pids[j], maxv=hdr(al) + budget))
        order = []
        for j, m in enumerate(msgs):
            b = m["max"] - hdr(m["al"])
            n = max(1, -(-m["dl"] // b))
            idx = list(range(n))
            if rng.random() < 0.3:
                idx = idx[:-1] or idx          # drop one
            idx += [rng.randrange(n) for _ in range(rng.randint(0, 3))]  # duplicates
            order += [[j, x] for x in idx]
        mode = rng.random()
        if mode < 0.5:
            rng.shuffle(order)                  # full interleaving
        elif mode < 0.8:
            # per-message blocks, shuffled inside
            blocks = {}
            for o in order:
                blocks.setdefault(o[0], []).append(o)
            order = []
            for j in rng.sample(list(blocks), len(blocks)):
                rng.shuffle(blocks[j])
                order += blocks[j]
        cases.append({"k": "seq", "msgs": msgs, "order": order[:400]})
    # --- wire format
    for _ in range(150 * scale):
        al = rng.choice([0, 1, 63, 64, 300, 2048, 2049])
        dl = rng.choice([0, 1, 2, 100])
        m = mk(rng, al, dl)
        m["fid"] = rng.randrange(256)
        m["fc"] = rng.randrange(256)
        size = hdr(al) + dl
        cases.append({"k": "wire", "m": m, "buf": rng.choice([size, size, size + 5, max(0, size - 1), 0])})
    for _ in range(200 * scale):
        n = rng.choice([0, 1, 7, 8, 9, 10, 11, 12, 16, 20])
        b = bytearray(rng.randrange(256) for _ in range(n))
        if n > 8 and rng.random() < 0.7:
            b[8] = rng.choice([0, 1, 2, 3, 0x40, 0x41, 0x48, 0x80, 0xc0, len(b) - 9, max(0, len(b) - 10)]) % 256
        cases.append({"k": "parse", "hex": bytes(b).hex()})
    return cases


def spec_term(m):
    return "(mkSpec %d %d %d %d %d %d %d %d %d %d)" % (m["sid"], m["pid"], m["fid"], m["fc"], m["al"], m["aa"], m["ab"],
                                                        m["dl"], m["da"], m["db"])


def nl(xs):
    return "[" + ";".join(str(x) for x in xs) + "]"


def ll(xss):
    return "[" + ";".join(nl(x) for x in xss) + "]"


def pres(o):
    if o.get("panic"):
        return "PRpanic"
    if "pm" in o:
        return "(PRok %s)" % nl(o["pm"])
    if o.get("perr") == "eof":
        return "PReof"
    if o.get("perr") == "invalid":
        return "PRinvalid"
    return "PRnone"


def zlit(z):
    return "(%d)%%Z" % z


def to_coq(c, o):
    k = c["k"]
    if k == "frag":
        exp = "None" if o.get("panic") else "(Some %s)" % ll(o["frags"])
        return "CFrag %s %s %s" % (spec_term(c["m"]), zlit(c["m"]["max"]), exp)
    if k == "seq":
        ms = "[" + ";".join("(%s,%s)" % (spec_term(m), zlit(m["max"])) for m in c["msgs"]) + "]"
        order = "[" + ";".join("(%d,%d)%%nat" % (a, b) for a, b in c["order"]) + "]"
        exp = "None" if o.get("panic") else "(Some %s)" % ll(o["emits"])
        return "CSeq %s %s %s" % (ms, order, exp)
    if k == "wire":
        if o.get("panic") and "n" not in o:
            return None
        dg = "(Some %d)" % o["dg"] if "dg" in o else "None"
        return "CWire %s %d%%nat %s %d%%nat %s %s" % (spec_term(c["m"]), c["buf"], zlit(o["n"]), o["hsz"], dg, pres(o))
    if k == "parse":
        return "CParse %s %s" % (common.coq_bytes(bytes.fromhex(c["hex"])), pres(o))
    return None


def klass(c, o):
    k = c["k"]
    if k == "frag":
        n = len(o.get("frags") or [])
        return "frag:" + ("panic" if o.get("panic") else "discard" if n == 0 else "whole" if n == 1 else "split<=8" if n <= 8 else "split>8")
    if k == "seq":
        return "seq:emits=%d" % min(3, len(o.get("emits") or []))
    if k == "wire":
        return "wire:" + ("short-buffer" if o.get("n", 0) < 0 else "roundtrip" if "pm" in o else "rejected")
    return "parse:" + ("ok" if "pm" in o else str(o.get("perr")))


def nontrivial(c, o):
    k = c["k"]
    if k == "frag":
        return len(o.get("frags") or []) >= 2 or len(o.get("frags") or []) == 0
    if k == "seq":
        return len(c["order"]) >= 2
    if k == "wire":
        return "pm" in o
    return True


def fingerprint(c, o):
    why = o.get("why") or ""
    if c["k"] == "frag" and "panic" in why:
        m = c["m"]
        b = m["max"] - hdr(m["al"])
        if b > 0 and -(-m["dl"] // b) > 255:
            return "frag-count>255-panic"
    return None


def search(ctx, disagreeing):
    """Property-directed search on the implementation alone (no model): more seeds."""
    import random
    found = []
    for s in range(3):
        rng = random.Random(ctx.seed * 1000 + s + 17)
        cases = gen(rng, "quick")
        ok, outs, _, log = common.run_go_cases(ctx, GO, cases, tag="search%d" % s)
        for c, o in zip(cases, outs):
            if o.get("ok") is False:
                found.append({"what": "%s: %s" % (c["k"], o.get("why")), "replay": {"case": c, "impl": o},
                              "fingerprint": fingerprint(c, o), "found_input": True})
        if found:
            break
    return found


def run(ctx):
    import sys
    return common.run_case_check(ctx, sys.modules[__name__])


def replay(ctx, path):
    import json
    r = json.load(open(path))
    c = r["replay"].get("case")
    if not c:
        print("replay file names a broken obligation/correspondence, no concrete input:", r["what"])
        return 1
    ok, outs, _, log = common.run_go_cases(ctx, GO, [c], tag="replay")
    print(json.dumps(outs, indent=1))
    return 0 if outs and outs[0].get("ok") else 1

LEVEL_TEXT = ("Machine-checked Coq theorems over a statement-by-statement Gallina model of FragUDPMessage, Defragger.Feed and the "
              "UDPMessage codec: for every message, limit and fragment history (no bound on sizes or lengths) the splitter never panics, "
              "every fragment fits, <=255 fragments or discard (exact iff), any arrival order with duplicates reassembles to the original, "
              "no chimera under distinct packet ids, parse.serialize = id. The model is tied to /repo on every run by regenerated "
              "constants and a differential run of the Go code against the model on ~1000 boundary-directed cases (vm_compute in the kernel).")
LEVEL_NOTE = ("Trusted: Coq kernel + vm_compute; hand-written model (tie is sampled differential testing + regenerated Params); python/Go glue. "
              "No axioms (all theorems closed under the global context). Not proved: quic-go datagram size reporting; packet-id distinctness is a hypothesis.")
TECHNIQUE = "Coq proof (induction/invariant over fragment histories) on a hand-written model + differential correspondence check in vm_compute"
DESIGN_REF = "DESIGN.md section 4 C05"
