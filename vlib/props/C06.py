"""C06 - TCP relay preserves the byte stream and accounts it exactly (DESIGN.md section 4, C06)."""
import json
import random
import sys
import time

from vlib import common

GO = dict(module="core", pkg="server", pkgname="server",
          files={"zz_verif_c06_test.go": "c06/c06_test.go"}, run="TestVerifC06")
GO_E2E = dict(module="core", pkg="internal/integration_tests", pkgname="integration_tests",
              files={"zz_verif_c06e_test.go": "c06/c06_e2e_test.go"}, run="TestVerifC06E2E")
GO_CLI = dict(module="core", pkg="client", pkgname="client",
              files={"zz_verif_c06c_test.go": "c06/c06_client_test.go"}, run="TestVerifC06Client")
# level (c): the same end-to-end set-up with the REAL request hook (extras/sniff Sniffer); core cannot import extras, so it lives in extras/sniff
GO_SNF = dict(module="extras", pkg="sniff", pkgname="sniff",
              files={"zz_verif_c06s_test.go": "c06/c06_sniff_test.go"}, run="TestVerifC06Sniff")
PARAMS_NAME = "ParamsC06"
# Strings.String first (string literals of the end-to-end cases), then everything else so that List's names win again
HEADER = ("From Coq Require Import Strings.String.\nFrom Hy Require Import lib.Harness model.C06_Relay corr.C06_Corr.\n"
          "From Coq Require Import ZArith.\nImport Coq.Init.Datatypes.\nLocal Open Scope N_scope.\n")
RULE = ("seeded generator of relay histories: (a) copyTwoWayEx/copyTwoWay of the working tree driven in a synctest bubble with a scripted "
        "client stream, target and traffic logger: per direction 0-6 source segments of 0..40000 bytes (around the 32 KiB copy buffer: "
        "32767/32768/32769/40000), ending in EOF / error / silence, reads that carry data and an error together, zero reads; per-call "
        "virtual delays that decide the interleaving and which side finishes first; sink faults (error, short write with error, "
        "contract-breaking short write without error, at any write index); logger veto at any log index of either direction; logger "
        "absent (io.Copy path); teardown delay; request phase: the scripted client stream starts with the request frame (address 1..2048 bytes, "
        "padding 0..4096, arriving whole, byte-wise, cut at every field boundary or at random) followed by the payload, whose first segment "
        "(1 byte .. 40000, around bufio's 4096) arrives in the same segment as the tail of the request (fast open) or later; the harness parses "
        "it with quicvarint.Read + protocol.ReadTCPRequest and relays from the same stream; cross-relay histories (xrelay): 2-4 relays in ONE bubble "
        "sharing the real copyBufPool (GOMAXPROCS 1, so the pool's hand-out order is reproducible), each with its own ends, logger and payload pattern "
        "(distinct multipliers); end-to-end class (30 per quick run): the request in front of the client stream is the buffer the real WriteTCPRequest writes (padding as drawn), "
        "the dial is faked (ok, or an error with a message of 1..2048 bytes), the response is written to the fake stream by the real WriteTCPResponse, then relay and teardown; "
        "the client half runs in package client: the real clientImpl.TCP / tcpConn.Read (fast open on/off, buffers of 1..32768 bytes) on a real loopback QUIC stream whose peer parses the "
        "request with the real reader and serves exactly the bytes the server half wrote (response frame ++ Down sink), whole or cut inside the frame / inside the data, in scripted write sizes, "
        "ended by FIN or reset; read-deadline histories (half of these cases): the application polls with SetReadDeadline(20 / 400 ms) and retries a Read that timed out, "
        "the peer holds back before the response (the first Read of a fast-open connection fails before the response has arrived), right behind it, or inside the data, until a Read has timed out "
        "(never inside the response frame: see ASSUMPTIONS) - the bytes delivered to the application must still be exactly the bytes behind the response frame; both halves are joined into one case and evaluated against the composed model of model/C06_E2E.v (request phase over the script of the client stream, "
        "Reads of both loops against the scripts of their sources, response frame, stream_out, client_io); directed ones - a relay ends in one direction (EOF / error / veto / failed write) while its other direction is parked in "
        "Read, late bytes reach that Read between the return of the copy and the Close of the ends, and meanwhile 1-3 relays started after the return hold a "
        "chunk of either direction inside LogTraffic or a slow Write - and undirected ones (random relay histories started within 4 ms); every relay is judged "
        "on its own log and sinks by the single-relay verdict, the merged log (with the identity of the memory handed to every Read / Write) is replayed "
        "against one LTS per relay plus the buffer-ownership invariant. (b) end-to-end: real server + real client.TCP over loopback QUIC (fast open on/off) "
        "against a scripted target; with fast open the client writes its first bytes the moment TCP() returns (before the server can have "
        "parsed the request), over several connections of one client; one-way uploads (TCP(); Write(payload) in chunks; Close(); no Read at all - with fast open "
        "the connection is closed before it ever became Established) with eager twins, a server-side dial that takes 0-300 ms (quick) / up to 1 s, payloads of 1 byte .. 200 KB, "
        "judged when the server has closed the target connection: the target holds the whole payload; hooked requests (16 + 2 per quick run): a scripted RequestHook intercepts "
        "(so the server answers ok BEFORE it dials), takes 0 / 1..3000 bytes of the client's payload off the stream and returns them as putback, rewrites the address or not, or aborts, "
        "x dial ok / failed x fast open on / off: the target gets putback ++ relay = a prefix of what the client wrote, the application a prefix of what the target sent, "
        "and when no target was connected (failed dial, abort) the application reads NO byte and its Reads end with EOF / an error, never data; those runs are also compared with the run of model/C06_Hook.v. Non-trivial = bytes were forwarded in a direction and something other than a plain EOF ended the "
        "relay, or both directions forwarded. CONFIGURATION DIMENSION of level (b): every end-to-end case runs with or without a server.EventLogger "
        "(recording) next to / instead of the TrafficLogger; directed matrix {EventLogger present, absent} x {veto on a chunk of the Up, of the Down direction} "
        "x fast open: after the veto new Client.TCP calls on that connection must fail (connection closed) within 10 s and, with an EventLogger, "
        "the server must report Disconnect within 5 s; after a relay that ended WITHOUT a veto the target connection is closed within 5 s and a fresh "
        "request on the same connection is served (the connection is closed iff vetoed); these ends are also compared with the tail of model/C06_Events.v. "
        "(c) SNIFFED RELAYS (kind snf, package extras/sniff: core cannot import extras, so the mock hook of level (b) is replaced there by the REAL hook): "
        "a real server whose RequestHook hands every hooked stream to a real *Sniffer (Timeout, TCPPorts, RewriteDomain per case), a real client over loopback QUIC "
        "(fast open on / off, TrafficLogger on / off), a recording target. The client's first flight looks like a TLS record (0x16 / 0x17, versions 3.0 .. 3.9; a real "
        "ClientHello with / without server name, a lying length field, aperiodic bodies of 1 .. 5000 (thorough: 65535) bytes), an HTTP request (with / without Host, three letters "
        "followed by garbage) or neither, and is CUT relative to the record: fewer than the 3 probe bytes (0, 1, 2), inside the record header (3, 4), header complete and "
        "0 / 1 / 2 / N-1 / a random number of body bytes arrived, inside the request line / the header block / the final CRLF; at the cut the client either PAUSES until the "
        "server has dialled the target (i.e. until the sniffer's read deadline - 500 ms in the quick tier - has fired), then writes the rest, or the STREAM ENDS there (FIN in the "
        "middle of the record), or nothing happens; the bytes in front of the cut arrive in one Write, as probe / rest of header / body, byte-wise or at random cuts; directed "
        "matrix {0, 1, 2, N-1 body bytes} x {deadline, FIN} x fast open (16 + 10 + 8 random of ~50 per quick run), plus complete first flights (address rewritten or not), the port "
        "filter / a domain address keeping the sniffer away, RewriteDomain letting it in. Judged when the server has closed the target after the client's EOF: the target holds "
        "EXACTLY what the client wrote (a prefix at every moment), dialled once at the address the hook left, StreamStats.Tx = bytes delivered, LogTraffic tx total = delivered - putback, "
        "the application read a prefix of what the target sent. "
        "Distinct = distinct JSON case.")
ASSUMPTIONS = [
    "sinks obey the io.Writer contract (n < len(p) only with a non-nil error): copyBufferLog ignores the count (hypothesis wok of the prefix/accounting theorems; quic-go streams and net.Conn do)",
    "QUIC stream reliability/ordering and QStream.Close = CancelRead + FIN delivering already written bytes (quic-go, not modelled)",
    "the end-to-end theorems (C06_end_to_end, C06_*_real, C06_client_view_real) carry NO codec hypothesis: they are composed with the C04 round-trip theorems over the real codec model; "
    "their hypotheses are about the streams: the request frame (resp. response frame) and the first `early` bytes arrive without an error inside them, in any chunking "
    "(an error inside the frame region = the stream ended before the frame arrived; then the reader fails - observed by the cut-inside-the-frame cases, not proved), "
    "and the client's stream carries a prefix of what the server wrote (QUIC ordering); the older abstract-codec theorems (C06_client_view, "
    "C06_target_*_client_payload) are kept, with C06_request_reader_must_not_read_ahead showing their hypothesis is needed",
    "a read deadline that expires INSIDE the response frame of a fast-open connection (some of its bytes consumed, not all) is outside the theorems and the generator: "
    "tcpConn.Read then re-parses the response from the middle of the frame on the next Read (reported as a suspected defect, not encoded as expected behaviour); "
    "C06_polling_client_reads_prefix covers deadlines expiring before the first byte of the response and anywhere behind it",
    "a dial error message longer than MaxMessageLength (2048) bytes is outside C06_dial_error_end_to_end: the client rejects such a response as a protocol error",
    "the accounting clause is about connections no request hook intercepts (as in the property text): the bytes a hook puts back reach the target outside LogTraffic; "
    "C06_hooked_target_prefix assumes the target accepted the whole putback (handleTCPRequest ignores the result of that Write); what a hook does with the stream "
    "(how much it reads, whether what it returns as putback is what it read) is the environment's choice; TraceStream calls are not modelled; "
    "the EventLogger is modelled for the tail of handleTCPRequest only (model/C06_Events.v: the TCPError call between the copy and the teardown)",
    "sniffed connections (C06_sniffed_*): the sniffer is the model of C17 (model/C17_Sniff.v sniff_tcp; bufio + http.ReadRequest and utls are oracles, the consumer's first read asks "
    "for at least 3 bytes) and its transparency theorem is C17's; the theorems assume the Up loop reads what the sniffer left on the stream (QUIC ordering; a fired read deadline "
    "is cleared by the sniffer's deferred SetReadDeadline(time.Time{})) and that the target accepted the whole putback",
]
TRUSTED = ["modelled rather than verified: core/server/copy.go, the hook-less path of handleTCPRequest (server.go:271-343), client.go TCP()/tcpConn.Read "
           "(hand transcription in coq/model/C06_Relay.v); level (a) transcribes the three teardown lines of server.go:338-342 (handleTCPRequest needs a real *quic.Stream / *quic.Conn, "
           "so the real teardown - and the EventLogger call in front of it - is what level (b) observes in every configuration: target closed, stream ended, connection closed iff vetoed) and the two request-phase calls (server.go:246 quicvarint.Read of "
           "the frame type, server.go:276 protocol.ReadTCPRequest; the callee is the real one) in the harness; "
           "level (b) runs the real handleTCPRequest/client.TCP end to end but is judged by the harness verdict only (its runs are not replayed "
           "against the LTS), except hooked requests that end without a relay (corr case CHookFail: the model's run of model/C06_Hook.v, the whole stream then FIN, client_io)",
           "end-to-end class of level (a): server.go:306-323 (failure response + Close, or the success response) transcribed in the harness around the real WriteTCPResponse; "
           "the client half uses the real TCP()/tcpConn.Read on a clientImpl built from a raw quic-go connection (no hysteria handshake), its peer is a raw quic-go listener; "
           "the chunking a real QUIC stream presents is not controlled, the model is evaluated on one two-chunk script of the same bytes (the outcome is chunking-independent by C06_client_view_real); "
           "a reset may overtake written bytes, so reset-ended cases are compared up to an earlier reset; python parses the two frames to hand address/message/padding to Coq, which rebuilds the frames and compares length and digest",
           "level (a) sources/sinks/logger are in-memory fakes inside a testing/synctest bubble; written chunks above 2 KiB are compared with the "
           "model through the (offset, length) descriptor the harness verified byte by byte, smaller ones through a 32-bit digest",
           "cross-relay runs: buffer identity = address of the slice handed to Read / Write, interned by the harness; sync.Pool with GOMAXPROCS(1); "
           "model/C06_Pool.v abstracts sync.Pool as a set of free buffers (a Get may also return a new one) and places the deferred Put between the "
           "loop's decision to return and its channel send; its tie to the code is the ownership check of the replay, not a replay of Get/Put (not visible at the boundary)",
           "client Close (model/C06_Close.v): quic-go's FIN vs RESET_STREAM semantics are taken as given; tied to the code only through the level (b) one-way upload verdict",
           "level (c) (sniffed relays): the hook installed in the server is a delegating wrapper that picks the case's own real *Sniffer, calls its Check / TCP on the server's real stream "
           "and keeps a copy of what came back; how many bytes the sniffer took off the stream is inferred (written by the client - forwarded behind the putback); when the sniffer's deadline fires relative to the "
           "arrival of the client's bytes is not controlled (the cut is where the client pauses; under load the sniffer may see less - the verdict does not depend on it); "
           "corr case CSniff: the sniffer's part is evaluated with model/C17_Sniff.v on exactly the bytes it was observed to take (TLS-looking / unrecognised / short streams only: HTTP needs bufio's read pattern), "
           "the server's part is the run of model/C06_Hook.v synthesised from the target's Write sizes"]
PER_SHARD = 40
EXTRA_TARGETS = ["corr/C06_Corr.vo"]
FP_VETO = "veto-swallowed-other-direction-returned-first"

BIG = [32767, 32768, 32769, 40000]
SMALL = 2048   # chunks up to this size are compared by digest, larger ones by their (offset, length) descriptor


def _delay(rng):
    return rng.choice([0, 0, rng.randrange(1, 50), rng.randrange(1, 3000), rng.randrange(1, 3000)])


def _side(rng, big, mode):
    nseg = rng.choice([0, 1, 1, 2, 3, 4, 6])
    reads = []
    for _ in range(nseg):
        r = rng.random()
        if big and r < 0.4:
            n = rng.choice(BIG + [rng.randrange(20000, 40001)])
        elif r < 0.08:
            n = 0
        else:
            n = rng.choice([1, 2, 3, 17, 100, rng.randrange(1, 600), rng.randrange(1, 3000)])
        reads.append({"n": n, "err": "", "delay": _delay(rng)})
    end = rng.choice(["eof", "eof", "eof", "err", "block", "block"])
    if end != "block":
        if reads and rng.random() < 0.5:
            reads[-1]["err"] = end            # data and error in the same Read
        else:
            reads.append({"n": 0, "err": end, "delay": _delay(rng)})
    nwrites = sum(-(-r["n"] // 32768) for r in reads if r["n"] > 0)
    writes = []
    if nwrites and rng.random() < 0.35:
        idx = rng.randrange(nwrites)
        writes = [{"delay": _delay(rng) if rng.random() < 0.3 else 0, "short": -1, "err": ""} for _ in range(idx)]
        kind = rng.random()
        if kind < 0.4:
            writes.append({"delay": _delay(rng), "short": rng.choice([0, 1, 5, 1000]), "err": "err"})
        elif kind < 0.7:
            writes.append({"delay": _delay(rng), "short": -1, "err": rng.choice(["err", "eof"])})
        elif kind < 0.85:
            writes.append({"delay": _delay(rng), "short": rng.choice([0, 1, 5]), "err": ""})   # breaks the io.Writer contract
        else:
            writes.append({"delay": rng.randrange(1000, 6000), "short": -1, "err": ""})       # slow sink
    elif nwrites and rng.random() < 0.3:
        writes = [{"delay": _delay(rng), "short": -1, "err": ""} for _ in range(nwrites)]
    logs = []
    if mode == "logged" and nwrites:
        r = rng.random()
        if r < 0.3:
            idx = rng.randrange(nwrites)
            logs = [{"delay": _delay(rng) if rng.random() < 0.3 else 0, "v": True} for _ in range(idx)]
            logs.append({"delay": _delay(rng), "v": False})
        elif r < 0.5:
            logs = [{"delay": _delay(rng), "v": True} for _ in range(nwrites)]
    return {"a": rng.randrange(256), "b": rng.randrange(256), "reads": reads, "writes": writes, "logs": logs}


def gen_relay(rng, big):
    mode = "logged" if rng.random() < 0.75 else "fast"
    return {"k": "relay", "mode": mode, "up": _side(rng, big, mode), "down": _side(rng, big and rng.random() < 0.5, mode),
            "teardown": rng.choice([0, 0, rng.randrange(1, 2000)])}


EARLY = [1, 2, 16, 52, 700, 1199, 4000, 4095, 4096, 4097, 5000, 32768, 40000]


def gen_req(rng, big=False):
    """relay history whose client stream starts with the request: request bytes and early payload can arrive in ONE read."""
    c = gen_relay(rng, big)
    up = c["up"]["reads"]
    glue = rng.random() < 0.8
    if not up or up[0]["n"] == 0 or rng.random() < 0.6:
        up.insert(0, {"n": rng.choice(EARLY + [rng.randrange(1, 600), rng.randrange(1, 9000)]), "err": "", "delay": 0 if glue else _delay(rng)})
        if len(up) == 1 and rng.random() < 0.5:
            up[0]["err"] = "eof"
    alen = rng.choice([1, 9, 15, 62, 63, 64, 300, rng.randrange(1, 400), 2048])
    addr = ("".join(rng.choice("abcdefghijklmnopqrstuvwxyz0123456789.-") for _ in range(max(0, alen - 4))) + ":443")[-alen:]
    pad = rng.choice([0, 0, 1, 63, 64, 100, rng.randrange(64, 513), rng.randrange(64, 513), 4096])
    hlen = 2 + (1 if len(addr) < 64 else 2) + len(addr) + (1 if pad < 64 else 2) + pad
    r = rng.random()
    if r < 0.45:
        segs = []                                   # the whole request (and, glued, the early payload) in one segment
    elif r < 0.55:
        segs = [1] * (hlen - 1)                     # byte-wise
    elif r < 0.75:
        b = [2, 2 + (1 if len(addr) < 64 else 2), hlen - pad - (1 if pad < 64 else 2), hlen - pad, hlen - 1]   # field boundaries
        cut = sorted(set(x for x in rng.sample(b, rng.randrange(1, len(b) + 1)) if 0 < x < hlen))
        segs = [y - x for x, y in zip([0] + cut, cut)]
    else:
        cut = sorted(set(rng.randrange(1, hlen) for _ in range(rng.randrange(1, 5))))
        segs = [y - x for x, y in zip([0] + cut, cut)]
    c["req"] = {"addr": addr, "pad": pad, "segs": segs, "glue": glue}
    return c


def gen_e2e(rng):
    """end-to-end class: the request is what the real WriteTCPRequest writes, the dial is faked, the response is written by the real
    WriteTCPResponse, then the relay; the client half (real client.TCP / tcpConn.Read on a QUIC stream) is served what the server half wrote"""
    c = gen_req(rng, False)

    def healthy(side):
        side["reads"] = [{"n": rng.choice([1, 2, 17, 100, 700, 3000, rng.randrange(1, 5000), 32768 if rng.random() < 0.3 else 9]),
                          "err": "", "delay": _delay(rng)} for _ in range(rng.choice([1, 1, 2, 3, 4]))]
        if rng.random() < 0.5:
            side["reads"][-1]["err"] = "eof"
        else:
            side["reads"].append({"n": 0, "err": "eof", "delay": _delay(rng)})
        side["writes"], side["logs"] = [], []
    if rng.random() < 0.7:
        healthy(c["down"])          # the target answers and finishes: the client half has something to read
        if rng.random() < 0.6:
            # ... and the client keeps its side open meanwhile (it finishes later or never), so the answer gets through
            c["up"]["reads"] = [r for r in c["up"]["reads"] if r["err"] == ""][:2]
            c["up"]["writes"], c["up"]["logs"] = [], []
            if rng.random() < 0.5:
                c["up"]["reads"].append({"n": rng.choice([0, 5]), "err": "eof", "delay": rng.randrange(3000, 9000)})
    up = c["up"]["reads"]
    if c["req"]["glue"] and (not up or up[0]["n"] == 0):
        up.insert(0, {"n": rng.choice([1, 5, 300]), "err": "", "delay": 0})
    alen = rng.choice([3, 9, 15, 62, 63, 64, 65, 300])
    c["req"]["addr"] = ("".join(rng.choice("abcdefghijklmnopqrstuvwxyz0123456789.-") for _ in range(max(0, alen - 4))) + ":443")[-alen:]
    c["req"]["pad"] = 0
    r = rng.random()
    if r < 0.4:
        c["req"]["segs"] = []
    elif r < 0.5:
        c["req"]["segs"] = [1] * rng.choice([3, 40, 700])
    else:
        cut = sorted(set(rng.choice([1, 2, 3, 4, 5, alen + 2, alen + 3, alen + 4, alen + 5, rng.randrange(1, alen + 70)]) for _ in range(rng.randrange(1, 5))))
        c["req"]["segs"] = [y - x for x, y in zip([0] + cut, cut)]
    dial_err = ""
    if rng.random() < 0.2:
        n = rng.choice([1, 22, 63, 64, 300, 2048])
        dial_err = ("connect: connection refused %d " % rng.randrange(10**6) + "x" * n)[:n]
    c["e2e"] = {"dial_err": dial_err}
    # the client half
    r = rng.random()
    c["cli"] = {"fo": rng.random() < 0.5, "cutk": "all" if r < 0.6 else ("frame" if r < 0.8 else "data"), "cutr": rng.random(),
                "chunks": rng.choice([[], [1], [7], [1, 5, 1000], [rng.randrange(1, 3000)], [40000]]),
                "end": "fin" if rng.random() < 0.85 else "reset", "bsz": rng.choice([1, 7, 100, 4096, 32768]), "splitr": rng.random()}
    # read-deadline histories (half of the cases): the application polls with a short read deadline and retries; the peer holds
    # back - before the response ("pre": the first Read(s) of a fast-open connection fail before the response has arrived), right
    # behind the response ("post"), inside the data ("data") - until a Read has timed out
    if rng.random() < 0.5:
        pk = rng.choice([["pre"], ["pre"], ["pre", "post"], ["pre", "data"], ["post"], ["data"], ["pre", "post", "data"]])
        c["cli"].update({"pk": pk, "end": "fin", "chunks": rng.choice([[], [], [1000], [40000]]),
                         "cutk": "all" if rng.random() < 0.8 else "data"})
        if "pre" in pk and rng.random() < 0.8:
            c["cli"]["fo"] = True
    return c


def fixed_cases():
    """Hand-picked histories: the non-vacuity example of DESIGN (veto in Down after two forwarded chunks), buffer boundaries,
    and the veto that arrives after the other direction has already ended the relay."""
    cs = []
    cs.append({"k": "relay", "mode": "logged",
               "up": {"a": 3, "b": 1, "reads": [{"n": 10, "err": "", "delay": 100}, {"n": 40000, "err": "eof", "delay": 9000}], "writes": [], "logs": []},
               "down": {"a": 5, "b": 2, "reads": [{"n": 7, "err": "", "delay": 150}, {"n": 9, "err": "", "delay": 500}, {"n": 4, "err": "", "delay": 500}],
                        "writes": [], "logs": [{"delay": 0, "v": True}, {"delay": 10, "v": True}, {"delay": 10, "v": False}]},
               "teardown": 0})
    for n in (32767, 32768, 32769, 65536, 65537):
        for mode in ("logged", "fast"):
            cs.append({"k": "relay", "mode": mode,
                       "up": {"a": 1, "b": 0, "reads": [{"n": n, "err": "eof", "delay": 10}], "writes": [], "logs": []},
                       "down": {"a": 7, "b": 9, "reads": [{"n": 5, "err": "", "delay": 1}], "writes": [], "logs": []}, "teardown": 0})
    # veto swallowed: Up ends the relay with EOF while Down is inside LogTraffic, which then vetoes
    cs.append({"k": "relay", "mode": "logged",
               "up": {"a": 3, "b": 1, "reads": [{"n": 0, "err": "eof", "delay": 500}], "writes": [], "logs": []},
               "down": {"a": 5, "b": 2, "reads": [{"n": 7, "err": "", "delay": 150}], "writes": [], "logs": [{"delay": 1000, "v": False}]},
               "teardown": 0})
    # fast open: request and first payload bytes in one segment, for both relay paths; then around bufio's default buffer
    for mode in ("logged", "fast"):
        for n, end in ((52, "eof"), (52, ""), (4096, "eof"), (40000, "eof")):
            cs.append({"k": "relay", "mode": mode, "req": {"addr": "example.com:443", "pad": 100, "segs": [], "glue": True},
                       "up": {"a": 3, "b": 7, "reads": [{"n": n, "err": end, "delay": 0}] + ([] if end else [{"n": 9, "err": "eof", "delay": 700}]),
                              "writes": [], "logs": []},
                       "down": {"a": 7, "b": 9, "reads": [{"n": 5, "err": "", "delay": 1}], "writes": [], "logs": []}, "teardown": 0})
    return cs


# ------------------------------------------------------------------ cross-relay histories (level a, kind "xrelay")

def _xpatterns(rng, n):
    """distinct multipliers for the 2n streams of a cross-relay run: two chunks of >= 2 bytes of different streams never coincide"""
    mult = rng.sample(range(1, 256), 2 * n)
    return [(mult[2 * i], rng.randrange(256), mult[2 * i + 1], rng.randrange(256)) for i in range(n)]


def _chunk(rng, big=False):
    if big and rng.random() < 0.5:
        return rng.choice(BIG)
    return rng.choice([2, 3, 17, 100, 1000, rng.randrange(2, 600), rng.randrange(2, 3000)])


def gen_xdirected(rng):
    """One relay ends in one direction (EOF / error / veto / failed write) while its other direction is still parked in
    Read; between the return of its copy and the Close of its ends the parked Read gets late bytes; meanwhile 1-3 other
    relays have started, read a chunk and are held inside LogTraffic or a slow Write across that moment."""
    nv = rng.choice([1, 1, 2, 3])
    pats = _xpatterns(rng, nv + 1)
    first = rng.choice("UD")                     # the direction of relay 0 that ends its relay
    how = rng.choice(["eof", "eof", "eof", "err", "veto", "wfault"])
    t1 = rng.randrange(50, 400)
    late_t = t1 + rng.randrange(2000, 6000)
    big = rng.random() < 0.15
    pre = rng.choice([0, 0, 1, 2])
    ender = {"reads": [{"n": _chunk(rng), "err": "", "delay": rng.randrange(0, 20)} for _ in range(pre)], "writes": [], "logs": []}
    if how in ("eof", "err"):
        if ender["reads"] and rng.random() < 0.4:
            ender["reads"][-1]["err"] = how
            ender["reads"][-1]["delay"] = t1
        else:
            ender["reads"].append({"n": 0, "err": how, "delay": t1})
    else:
        ender["reads"].append({"n": _chunk(rng), "err": "", "delay": t1})
        if how == "veto":
            ender["logs"] = [{"delay": 0, "v": True}] * pre + [{"delay": 0, "v": False}]
        else:
            ender["writes"] = [{"delay": 0, "short": -1, "err": ""}] * pre + [{"delay": 0, "short": rng.choice([-1, 0, 1]), "err": "err"}]
    linger = {"reads": [{"n": _chunk(rng), "err": "", "delay": rng.randrange(0, 20)} for _ in range(rng.choice([0, 0, 1, 2]))],
              "writes": [], "logs": []}
    nlate = rng.choice([1, 1, 2])
    for j in range(nlate):
        linger["reads"].append({"n": _chunk(rng, big), "err": rng.choice(["", "", "eof"]) if j == nlate - 1 else "",
                                "delay": late_t if j == 0 else rng.randrange(100, 1500)})
    # the ends are closed after the late bytes arrived (mostly), or before (the parked Read then fails instead)
    teardown = late_t - t1 + (rng.randrange(1500, 6000) if rng.random() < 0.85 else -rng.randrange(100, 1500))
    r0 = {"mode": "logged", "start": 0, "teardown": max(0, teardown),
          "up": ender if first == "U" else linger, "down": linger if first == "U" else ender}
    relays = [r0]
    for v in range(nv):
        start = rng.randrange(t1 + 100, late_t - 300)
        hold = late_t - start + rng.randrange(300, 2500)          # until after the late bytes of relay 0
        sides = rng.choice(["UD", "UD", "UD", "U", "D"])
        rel = {"mode": "logged" if rng.random() < 0.9 else "fast", "start": start, "teardown": rng.choice([0, rng.randrange(1, 2000)])}
        for d, key in (("U", "up"), ("D", "down")):
            side = {"reads": [], "writes": [], "logs": []}
            if d in sides:
                n = _chunk(rng, big)
                side["reads"].append({"n": n, "err": "", "delay": rng.randrange(0, 60)})
                nw = -(-n // 32768)
                if rel["mode"] == "logged" and rng.random() < 0.7:
                    side["logs"] = [{"delay": hold, "v": True}] + [{"delay": 0, "v": True}] * (nw - 1)
                else:
                    side["writes"] = [{"delay": hold, "short": -1, "err": ""}]
                for _ in range(rng.choice([0, 0, 1, 2])):
                    side["reads"].append({"n": _chunk(rng), "err": "", "delay": rng.randrange(0, 500)})
                if rng.random() < 0.5:
                    side["reads"].append({"n": 0, "err": rng.choice(["eof", "eof", "err"]), "delay": rng.randrange(0, 3000)})
            rel[key] = side
        relays.append(rel)
    for rel, (ua, ub, da, db) in zip(relays, pats):
        rel["up"]["a"], rel["up"]["b"], rel["down"]["a"], rel["down"]["b"] = ua, ub, da, db
    return {"k": "xrelay", "relays": relays}


def gen_xrandom(rng):
    """2-4 unrelated random relay histories started within a few milliseconds of each other."""
    n = rng.choice([2, 2, 3, 4])
    pats = _xpatterns(rng, n)
    relays = []
    for i in range(n):
        c = gen_relay(rng, False)
        del c["k"]
        for key in ("up", "down"):
            c[key]["reads"] = c[key]["reads"][:3]
        c["mode"] = "logged" if rng.random() < 0.9 else "fast"
        c["start"] = 0 if i == 0 else rng.randrange(0, 4000)
        c["teardown"] = rng.choice([0, rng.randrange(1, 4000), rng.randrange(1, 4000)])
        c["up"]["a"], c["up"]["b"], c["down"]["a"], c["down"]["b"] = pats[i]
        relays.append(c)
    return {"k": "xrelay", "relays": relays}


def e2e_cases(rng, tier):
    def mk(**kw):
        c = {"k": "e2e", "fastopen": False, "logger": True, "dial_err": "", "up_n": 5000, "up_chunk": 700, "down_n": 70000,
             "down_chunk": 9000, "veto_at": -1, "ua": rng.randrange(256), "ub": rng.randrange(256),
             "da": rng.randrange(256), "db": rng.randrange(256),
             # configuration dimension: an EventLogger configured next to the TrafficLogger / alone / not at all
             "evlog": rng.random() < 0.5, "veto_dir": ""}
        c.update(kw)
        return c
    cs = []
    # configuration x veto matrix: {EventLogger present, absent} x {the vetoed chunk belongs to the Up, the Down direction}
    # (the index counts the LogTraffic calls of that direction only, so the veto lands in the chosen loop whatever the
    # chunking; 40000 / 70000 bytes = at least two / three chunks of the 32 KiB copy buffer), fast open alternating
    fo = rng.random() < 0.5
    for evlog in (True, False):
        for vdir in ("up", "down"):
            fo = not fo
            if vdir == "up":
                cs.append(mk(fastopen=fo, evlog=evlog, veto_dir="up", veto_at=rng.choice([0, 1]), up_n=rng.choice([40000, 70000]),
                             up_chunk=rng.choice([700, 5000]), down_n=rng.choice([1, 3000])))
            else:
                cs.append(mk(fastopen=fo, evlog=evlog, veto_dir="down", veto_at=rng.choice([0, 1, 2]), up_n=rng.choice([0, 1, 700]),
                             up_chunk=700, down_n=rng.choice([70000, 100000]), down_chunk=rng.choice([9000, 40000])))
    for fo in (False, True):
        cs.append(mk(fastopen=fo, dial_err="connect: connection refused (verif %d)" % rng.randrange(10**6)))
        for lg in (True, False):
            cs.append(mk(fastopen=fo, logger=lg, up_n=rng.choice([0, 1, 5000, 40000]), down_n=rng.choice([1, 33000, 70000])))
        cs.append(mk(fastopen=fo, veto_at=rng.choice([0, 1, 2, 3])))
    # fast open, the first chunk written the moment TCP() returns: early payload of every size class (a few bytes, one
    # packet, several packets, beyond a 4 KiB read-ahead) right behind the request
    for n, ch in ((16, 16), (52, 52), (3000, 700), (1199, 1199), (9000, 5000), (2000, 1)):
        cs.append(mk(fastopen=True, logger=rng.random() < 0.7, up_n=n, up_chunk=ch, down_n=rng.choice([1, 3000]), down_chunk=1000))
    # one-way uploads: TCP(); Write(payload); Close() and never a Read - with fast open the connection is closed before the
    # client has seen the response (it only becomes Established on its first Read); eager twins; the server's connect to
    # the target takes a while, so the Close overtakes the dial
    for fo in (True, True, False):
        n = rng.choice([1, 52, 1199, 4096, 9000, 40000])
        cs.append(mk(fastopen=fo, logger=rng.random() < 0.5, no_read=True, dial_delay=rng.choice([100, 300]), up_n=n,
                     up_chunk=rng.choice([n, n, 700, max(1, n // 3)]), down_n=rng.choice([0, 0, 100]), down_chunk=100,
                     close_delay=rng.choice([0, 0, 20])))
    cs.append(mk(fastopen=True, logger=rng.random() < 0.5, no_read=True, dial_delay=0, up_n=rng.choice([16, 3000, 70000]),
                 up_chunk=rng.choice([1000, 5000]), down_n=0, close_delay=0))
    # hooked requests (a RequestHook intercepts: the ok response is written before the dial): hook with / without putback
    # (the head of the client's payload, taken off the stream by the hook), with / without address rewrite, x dial ok / failed
    # x fast open on / off; and a hook that aborts
    def hooked(fo, fail, pb, rw, err=False):
        up_n = rng.choice([pb, pb + 1, pb + 700, pb + 5000]) if pb else rng.choice([0, 16, 3000])
        return mk(fastopen=fo, logger=rng.random() < 0.7, up_n=up_n, up_chunk=rng.choice([max(1, up_n), 700, 1199, max(1, pb)]),
                  down_n=rng.choice([1, 3000, 33000]), down_chunk=rng.choice([1000, 9000]),
                  dial_err=("connect: connection refused (verif %d)" % rng.randrange(10**6)) if fail else "",
                  hook={"putback": pb, "rewrite": ("rewritten-%d.example:443" % rng.randrange(1000)) if rw else "", "err": err})
    for fo in (False, True):
        for fail in (False, True):
            for pb in (0, rng.choice([1, 5, 52, 700, 1199, 3000])):
                for rw in (False, True):
                    cs.append(hooked(fo, fail, pb, rw))
        cs.append(hooked(fo, False, rng.choice([0, 52]), rng.random() < 0.5, err=True))
    if tier != "quick":
        for _ in range(40):
            cs.append(hooked(rng.random() < 0.5, rng.random() < 0.5, rng.choice([0, 1, 52, 4096, 9000, rng.randrange(1, 40000)]),
                             rng.random() < 0.5, err=rng.random() < 0.1))
        for _ in range(16):
            n = rng.choice([1, 16, 52, 1199, 4096, 40000, 200000, rng.randrange(1, 100000)])
            cs.append(mk(fastopen=rng.random() < 0.7, logger=rng.random() < 0.6, no_read=True, dial_delay=rng.choice([0, 10, 100, 300, 1000]),
                         up_n=n, up_chunk=rng.choice([n, 1000, 5000, 40000, max(1, n // 7)]), down_n=rng.choice([0, 100, 40000]),
                         down_chunk=1000, close_delay=rng.choice([0, 0, 5, 50, 400])))
        for _ in range(40):
            cs.append(mk(fastopen=rng.random() < 0.5, logger=rng.random() < 0.7, up_n=rng.randrange(0, 100000),
                         up_chunk=rng.choice([1, 100, 5000, 40000]), down_n=rng.randrange(0, 200000),
                         down_chunk=rng.choice([1, 100, 5000, 40000]) if rng.random() < 0.9 else 1,
                         veto_at=rng.choice([-1, -1, 0, 1, 4, 9]), veto_dir=rng.choice(["", "", "up", "down"])))
        for c in cs:
            if c["up_chunk"] == 1 or c["down_chunk"] == 1:
                c["up_n"], c["down_n"] = min(c["up_n"], 3000), min(c["down_n"], 3000)
    return cs


# ------------------------------------------------------------------ level (c): sniffed relays (kind "snf")

def _u16(n):
    return bytes([n >> 8, n & 255])


def snf_client_hello(rng, sni, pad=0):
    """a TLS 1.3 ClientHello handshake message (without the record header)"""
    exts = b""
    if sni:
        name = sni.encode("ascii")
        sn = b"\x00" + _u16(len(name)) + name
        lst = _u16(len(sn)) + sn
        exts += _u16(0) + _u16(len(lst)) + lst
    exts += _u16(10) + _u16(4) + _u16(2) + _u16(0x1d)
    exts += _u16(13) + _u16(4) + _u16(2) + _u16(0x0403)
    exts += _u16(43) + _u16(3) + b"\x02\x03\x04"
    if pad:
        exts += _u16(21) + _u16(pad) + bytes(pad)
    body = (b"\x03\x03" + bytes(rng.randrange(256) for _ in range(32)) + b"\x20" + bytes(rng.randrange(256) for _ in range(32))
            + _u16(4) + b"\x13\x01\x13\x02" + b"\x01\x00" + _u16(len(exts)) + exts)
    return b"\x01" + len(body).to_bytes(3, "big") + body


def snf_bytes(parts):
    out = b""
    for q in parts:
        out += bytes.fromhex(q[1]) if q[0] == "l" else common.gen_data(q[1], q[2], q[3])
    return out


def _pieces(rng, head, fill):
    """stream pieces: literal head bytes, then `fill` aperiodic bytes"""
    ps = []
    if head:
        ps.append(["l", head.hex()])
    if fill > 0:
        ps.append(["gd", rng.randrange(1, 256), rng.randrange(256), fill])
    return ps


SNF_TLS_HEADS = [b"\x16\x03\x01", b"\x16\x03\x03", b"\x17\x03\x03", b"\x16\x03\x00", b"\x16\x03\x09"]


def gen_snf(rng, tier):
    """Relays whose request hook is the real Sniffer: the client's first flight looks like TLS / HTTP / neither and is CUT at a
    chosen position relative to the record header / record body / header block; there the client pauses until the sniffer has
    given up (hold: its read deadline fired), or the stream ends (FIN), or nothing happens (no pause)."""
    cs = []
    serial = [0]
    quick = tier == "quick"
    tmo = 500 if quick else None

    def mk(shape, parts, cuts, hold, want="", **kw):
        serial[0] += 1
        n = serial[0]
        port = kw.pop("port", rng.choice([443, 443, 80, 8443, 5228]))
        c = {"k": "snf", "shape": shape, "logger": rng.random() < 0.6, "fastopen": rng.random() < 0.5,
             "timeout_ms": (tmo or rng.choice([200, 500, 1000])) if hold else 0, "ports": "", "rw_domain": False,
             "addr": "10.66.%d.%d:%d" % (n // 250, n % 250 + 1, port), "want_addr": ("%s:%d" % (want, port)) if want else "",
             "sentp": parts, "cuts": cuts, "gap_ms": rng.choice([0, 10, 25]) if len(cuts) > 1 else 0, "hold": hold,
             "chunk": rng.choice([0, 0, 700, 1199, 5000]), "down": rng.choice([0, 1, 3000])}
        c.update(kw)
        c["sn"] = len(snf_bytes(parts))
        cs.append(c)
        return c

    def arrival(rng, k, hdr):
        """how the first k bytes reach the server: at once, probe / rest of the header / body as separate writes, or byte-wise"""
        r = rng.random()
        if r < 0.4 or k <= 1:
            cuts = [k]
        elif r < 0.75:
            cuts = sorted(set(x for x in (3, hdr, k) if 0 < x <= k))
        elif r < 0.9 and k <= 12:
            cuts = list(range(1, k + 1))
        else:
            cuts = sorted(set([rng.randrange(1, k + 1) for _ in range(2)] + [k]))
        return cuts

    def tls_part(N, arr, end, head=None, fo=None, tail=None):
        """a record header announcing N body bytes of which `arr` have arrived when the sniffer stops waiting (end = "timeout")
        or when the stream ends (end = "fin")"""
        head = head or rng.choice(SNF_TLS_HEADS)
        hdr = head + _u16(N)
        hello = snf_client_hello(rng, "snf-part.example", pad=max(0, N - 150)) if head[0] == 0x16 and rng.random() < 0.5 else b""
        k = 5 + arr
        if end == "fin":
            body = hello[:arr]
            parts = _pieces(rng, hdr + body, arr - len(body))
            c = mk("tls-part:fin", parts, arrival(rng, k, 5), False, want="snf-part.example", down=0, N=N, arr=arr)
        else:
            tail = rng.choice([0, 0, 1, 700, 3000]) if tail is None else tail
            body = hello[:N]
            parts = _pieces(rng, hdr + body, N - len(body) + tail)
            c = mk("tls-part:timeout", parts, arrival(rng, k, 5), True, want="snf-part.example", N=N, arr=arr)
        if fo is not None:
            c["fastopen"] = fo
        return c

    # directed matrix: header complete + 0, 1, 2, N-1 body bytes arrived, at the timeout / at FIN, x fast open
    for fo in (False, True):
        N = rng.choice([64, 300, 517, 1400])
        for arr in (0, 1, 2, N - 1):
            tls_part(N, arr, "timeout", fo=fo)
            tls_part(N, arr, "fin", fo=fo)
    # header incomplete (3, 4 bytes), fewer than the 3 probe bytes (0, 1, 2), at the timeout / at FIN
    for k in (0, 1, 2, 3, 4):
        head = rng.choice(SNF_TLS_HEADS)
        full = head + _u16(rng.choice([5, 300])) + bytes(rng.randrange(256) for _ in range(40))
        mk("tls-hdr-part:timeout" if k >= 3 else "short:timeout", [["l", full.hex()]], [k] if k else [], True, N=0, arr=k - 5)
        mk("tls-hdr-part:fin" if k >= 3 else "short:fin", [["l", full[:k].hex()]] if k else [], [k] if k else [], False, down=0, N=0, arr=k - 5)

    def tls_full(kind):
        name = "snf-%d.example" % rng.randrange(10**6)
        if kind == "sni":
            hs = snf_client_hello(rng, name, pad=rng.choice([0, 0, 200, 1300]))
            want = name
        elif kind == "nosni":
            hs = snf_client_hello(rng, None, pad=rng.choice([0, 200]))
            want = ""
        else:
            hs = None
            want = ""
        if kind == "lying":        # the length field announces less than the handshake message is long: the rest is relayed
            hs = snf_client_hello(rng, name, pad=100)
            N = len(hs) - rng.choice([1, 2, 50])
            want = name       # (if the parser accepted the truncated message)
        elif hs is not None:
            N = len(hs)
        else:
            N = rng.choice([1, 5, 64, 300, 1400, 5000] + ([] if quick else [16384, 40000]))
        head = b"\x16\x03\x01" if hs is not None else rng.choice(SNF_TLS_HEADS)
        tail = rng.choice([0, 1, 700, 5000])
        if hs is not None:
            parts = _pieces(rng, head + _u16(N) + hs, tail)
            tot = 5 + len(hs)
        else:
            parts = _pieces(rng, head + _u16(N), N + tail)
            tot = 5 + N
        r = rng.random()
        cuts = [] if r < 0.4 else ([3, 5, 5 + N] if r < 0.7 else sorted(set(rng.randrange(1, tot + 1) for _ in range(3))))
        return mk("tls-full:" + kind, parts, cuts, False, want=want, N=N, arr=N)

    def http(kind, end="none"):
        name = "snf-%d.example" % rng.randrange(10**6)
        hostv = name + rng.choice(["", ":8080"])
        lines = ["%s /%s HTTP/1.1" % (rng.choice(["GET", "POST", "HEAD", "OPTIONS"]), "x" * rng.choice([0, 5, 300]))]
        hs = ["User-Agent: verif/%d" % rng.randrange(1000), "Accept: */*"]
        if kind != "nohost":
            hs.insert(rng.randrange(len(hs) + 1), "Host: " + hostv)
        req = ("\r\n".join(lines + hs) + "\r\n\r\n").encode("ascii")
        tail = rng.choice([0, 5, 700, 5000])
        if kind == "part":
            k = rng.choice([3, 4, len(lines[0]), len(lines[0]) + 2, len(req) - 4, len(req) - 2, len(req) - 1, rng.randrange(3, len(req))])
            if end == "fin":
                return mk("http-part:fin", [["l", req[:k].hex()]], arrival(rng, k, 3), False, down=0, N=len(req), arr=k)
            return mk("http-part:timeout", _pieces(rng, req, tail), arrival(rng, k, 3), True, N=len(req), arr=k)
        if kind == "garbage":     # three letters, then nothing a request parser accepts (an SSH banner, say)
            req = rng.choice([b"SSH-2.0-OpenSSH_9.6\r\n", b"abc\x00\x01\x02\xff" + bytes(20) + b"\n", b"GET\r\n\r\n"])
            return mk("http-garbage", _pieces(rng, req, tail), [], False, N=len(req), arr=len(req))
        r = rng.random()
        cuts = [] if r < 0.5 else sorted(set(rng.randrange(1, len(req) + 1) for _ in range(2)))
        return mk("http-full:" + kind, _pieces(rng, req, tail), cuts, False, want=name if kind != "nohost" else "", N=len(req), arr=len(req))

    def unrec():
        head = rng.choice([b"\x00\x01\x02", b"\x15\x03\x01", b"\x16\x03\x0a", b"\x16\x02\x01", b"\x18\x03\x03", b"G\x00T", b"\xff\xff\xff"])
        n = rng.choice([0, 1, 2, 100, 3000])
        return mk("unrecognised", _pieces(rng, head, n), rng.choice([[], [3], [1, 2, 3]]), False, N=0, arr=0)

    for kind in ("sni", "nosni", "random", "lying"):
        tls_full(kind)
    for kind in ("host", "nohost", "garbage"):
        http(kind)
    for end in ("timeout", "timeout", "fin"):
        http("part", end)
    unrec()
    # configuration: the port filter / a domain address keep the sniffer away (no hook), RewriteDomain lets it in
    c = tls_part(300, 2, "fin")
    c.update({"ports": "1-79,81-442,444-5227", "shape": "unhooked:" + c["shape"]})
    c = tls_full("sni")
    c.update({"ports": "1-79,81-442,444-5227", "shape": "unhooked:" + c["shape"]})
    c = tls_part(rng.choice([64, 300]), rng.choice([0, 1, 2]), "fin")
    c.update({"ports": "80,443,5228,8000-9000"})
    c = tls_full("sni")
    c.update({"addr": "dom-%d.example:%s" % (serial[0], c["addr"].split(":")[1]), "rw_domain": True})
    c = http("host")
    c.update({"addr": "dom-%d.example:%s" % (serial[0], c["addr"].split(":")[1]), "rw_domain": False, "shape": "unhooked:" + c["shape"]})
    # random ones
    for _ in range(8 if quick else 120):
        r = rng.random()
        if r < 0.45:
            N = rng.choice([1, 2, 3, 5, 64, 300, 517, 1400, 5000] + ([] if quick else [16384, 65535]))
            arr = rng.choice([0, 1, 2, N - 1, N - 2, rng.randrange(0, N)])
            tls_part(N, max(0, min(arr, N - 1)), rng.choice(["timeout", "fin", "fin"]))
        elif r < 0.6:
            tls_full(rng.choice(["sni", "nosni", "random", "lying"]))
        elif r < 0.8:
            http(rng.choice(["host", "nohost", "garbage", "part", "part"]), rng.choice(["timeout", "fin"]))
        else:
            unrec()
    return cs


def ctx_seed_of(rng):
    """seed of the level (c) generator: one draw from the main generator AFTER every other class has been generated"""
    return rng.randrange(1 << 30)


def gen(rng, tier):
    scale = 1 if tier == "quick" else 10
    cases = fixed_cases() + e2e_cases(rng, tier)
    for _ in range(260 * scale):
        cases.append(gen_relay(rng, False))
    for _ in range(14 * scale):
        cases.append(gen_relay(rng, True))
    for _ in range(45 * scale):
        cases.append(gen_req(rng, False))
    for _ in range(30 * scale):
        cases.append(gen_e2e(rng))
    for _ in range(6 * scale):
        cases.append(gen_req(rng, True))
    for _ in range(24 * scale):
        cases.append(gen_xdirected(rng))
    for _ in range(10 * scale):
        cases.append(gen_xrandom(rng))
    # level (c) last and from its own stream of random numbers: the histories of the other classes stay what they were
    cases += gen_snf(random.Random(ctx_seed_of(rng)), tier)
    return cases


# ------------------------------------------------------------------ Coq terms

def eerr(s):
    return {"nil": "EN", "eof": "EEOF"}.get(s) or "(EE %d)" % int(s[1:])


def gerr(s):
    if s in ("disconnect", "short", "invalid"):
        return {"disconnect": "GDisconnect", "short": "GShortWrite", "invalid": "GInvalidWrite"}[s]
    return "(GEnv %s)" % eerr(s)


def dterm(d):
    return "Up" if d == "U" else "Down"


def obs_term(c, ev):
    k = ev[0]
    if k == "R":
        side = c["up"] if ev[1] == "U" else c["down"]
        return "ORead %s %d %d %d %d %d %s" % (dterm(ev[1]), ev[2], side["a"], side["b"], ev[3], ev[4], eerr(ev[5]))
    if k == "L":
        return "OLog %d %d %s" % (ev[2], ev[3], "true" if ev[4] else "false")
    if k == "W":
        if ev[2] > SMALL:
            return "OWriteBig %s %d %d (%d)%%Z %s" % (dterm(ev[1]), ev[6] if ev[6] >= 0 else 2**62, ev[2], ev[4], eerr(ev[5]))
        return "OWrite %s %d %d (%d)%%Z %s" % (dterm(ev[1]), ev[2], ev[3], ev[4], eerr(ev[5]))
    if k == "F":
        return "OFirst %s" % gerr(ev[1])
    return {"CT": "OCloseT", "CS": "OCloseS", "CC": "OCloseC"}[k]


def xto_coq(c, o):
    """cross-relay run: the merged log with relay index and buffer identity, and every relay's totals"""
    if o.get("panic") or "xtrace" not in o or len(o.get("rel", [])) != len(c["relays"]):
        return None
    if any(str(ev[-1]).startswith("other:") for ev in o["xtrace"] if ev[2] in ("R", "W", "F")):
        return None
    rels = "[" + ";".join("XR %s %d %d %d %d %d %d" % ("Logged" if rc["mode"] == "logged" else "Fast", ro["tx"], ro["rx"],
                                                      ro["sink_up"][0], ro["sink_up"][1], ro["sink_down"][0], ro["sink_down"][1])
                          for rc, ro in zip(c["relays"], o["rel"])) + "]"
    tr = "[" + ";".join("XO %d %d (%s)" % (ev[0], ev[1] + 1, obs_term(c["relays"][ev[0]], ev[2:])) for ev in o["xtrace"]) + "]"
    return "CXRelay %s %s" % (rels, tr)


def dg32(bs):
    h = 0
    for b in bs:
        h = (h * 131 + b + 1) & 0xffffffff
    return h


def _varint(bs, i):
    w = 1 << (bs[i] >> 6)
    v = bs[i] & 0x3f
    for k in range(1, w):
        v = v * 256 + bs[i + k]
    return v, i + w


def parse_req_frame(bs):
    """(address, padding) of a request frame as written by WriteTCPRequest (glue: the model rebuilds the frame from them and
    the check compares length and digest with what the code wrote)"""
    _, i = _varint(bs, 0)
    n, i = _varint(bs, i)
    addr = bs[i:i + n]
    n2, j = _varint(bs, i + n)
    return addr, bs[j:j + n2]


def parse_resp_frame(bs):
    n, i = _varint(bs, 1)
    msg = bs[i:i + n]
    n2, j = _varint(bs, i + n)
    return bs[0] == 0, msg, bs[j:j + n2]


def cstr(bs):
    return '"%s"%%string' % bs.decode("ascii")


ERRK = {"": 0, "eof": 1, "err": 2, "block": 0}


def usegs_term(hlen, req, reads):
    """the client stream as the fake hands it out: request stretches, the first payload segment glued to the last of them or not"""
    evs = []
    if hlen:
        left, hs = hlen, []
        for n in req["segs"]:
            if 0 < n < left:
                hs.append(n)
                left -= n
        hs.append(left)
        lo = 0
        for n in hs:
            evs.append([lo, n, 0, 0, 0])
            lo += n
    off = 0
    first = True
    for r in reads:
        k = ERRK[r["err"]]
        if first and hlen and req["glue"]:
            evs[-1][2:] = [0, r["n"], k]
        else:
            evs.append([0, 0, off, r["n"], k])
        first = False
        off += r["n"]
    return "[" + ";".join("USeg %d %d %d %d %d" % tuple(e) for e in evs) + "]"


def cli_case(c, o):
    """the client half's case, from the server half's output: it is served the first `cut` bytes of what the server half wrote"""
    frame = bytes.fromhex(o.get("resp_hex") or "")
    if not frame or o.get("panic") or o.get("req_err") != "nil" or not o.get("sink_down_is_prefix"):
        return None
    cl = c["cli"]
    n = o["sink_down"][0]
    total = len(frame) + n
    if cl["cutk"] == "all":
        cut = -1
    elif cl["cutk"] == "frame":
        cut = min(total, [0, 1, 2, 3, len(frame) - 1, int(cl["cutr"] * len(frame))][int(cl["cutr"] * 6) % 6])
    else:
        cut = len(frame) + int(cl["cutr"] * (n + 1))
    bsz = cl["bsz"]
    if bsz < 100 and total > 6000:
        bsz = 100
    ok, msg, _ = parse_resp_frame(frame)
    pauses = set()
    for k in cl.get("pk", []):
        if k == "pre":
            pauses.add(0)
        elif k == "post":
            pauses.add(len(frame))
        elif k == "data" and n > 0:
            pauses.add(len(frame) + 1 + int(cl["cutr"] * 7919) % n)
    return {"k": "cli", "fo": cl["fo"], "addr": c["req"]["addr"], "frame": frame.hex(), "ok": ok, "msg": msg.decode("ascii"),
            "a": c["down"]["a"], "b": c["down"]["b"], "n": n, "cut": cut, "chunks": cl["chunks"], "end": cl["end"], "bsz": bsz,
            "pauses": sorted(pauses), "to": 20, "to2": 400}


CLS = {"nil": 0, "dial": 100, "eof": 1, "short": 2, "invalid": 3, "reset": 4, "": 0}


def e2e_to_coq(c, o):
    if o.get("req_err") != "nil" or not o.get("req_hex") or not o.get("resp_hex"):
        return None
    hdr = bytes.fromhex(o["req_hex"])
    resp = bytes.fromhex(o["resp_hex"])
    addr, reqpad = parse_req_frame(hdr)
    rok, rmsg, resppad = parse_resp_frame(resp)
    de = c["e2e"]["dial_err"]
    cli = "None"
    co, cc = o.get("cli"), o.get("cli_case")
    if co and cc and not co.get("skip") and co.get("tcp") in CLS and co.get("final") in CLS:
        served = co["served"]
        if co.get("pauses"):
            cli = "(Some (CObsTo %s %d %d [%s] %d %s %d %d %d %s))" % (
                "true" if cc["fo"] else "false", served, cc["bsz"], ";".join(str(x) for x in co["pauses"]),
                CLS[co["tcp"]], cstr(co["tcp_msg"].encode()) if co["tcp"] == "dial" else '""%string', co["got"][0], co["got"][1],
                CLS[co["final"]], cstr(co["final_msg"].encode()) if co["final"] == "dial" else '""%string')
        split = int(c["cli"]["splitr"] * (served + 1))
        if c["cli"]["splitr"] < 0.3:
            split = min(served, max(0, len(resp) + [-1, 0, 1][int(c["cli"]["splitr"] * 10) % 3]))
        if not co.get("pauses"):
          cli = "(Some (CObs %s %d %d %d %d %d %s %d %d %d %s))" % (
            "true" if cc["fo"] else "false", served, 0 if cc["end"] == "fin" else 1, split, cc["bsz"],
            CLS[co["tcp"]], cstr(co["tcp_msg"].encode()) if co["tcp"] == "dial" else '""%string', co["got"][0], co["got"][1],
            CLS[co["final"]], cstr(co["final_msg"].encode()) if co["final"] == "dial" else '""%string')
    tr = "[" + ";".join(obs_term(c, ev) for ev in o["trace"] if ev[0] not in ("Q", "A", "P")) + "]"
    return "CE2E %s %s %s %d %d %d %d %s %d %d %s %s %s %d %d %s %d %d %d %d %d %d %s" % (
        "Logged" if c["mode"] == "logged" else "Fast", cstr(addr), cstr(reqpad), len(hdr), dg32(hdr),
        c["up"]["a"], c["up"]["b"], usegs_term(len(hdr), c["req"], c["up"]["reads"]),
        c["down"]["a"], c["down"]["b"], usegs_term(0, None, c["down"]["reads"]),
        "(Some %s)" % cstr(de.encode()) if de else "None", cstr(resppad), len(resp), dg32(resp),
        tr, o["tx"], o["rx"], o["sink_up"][0], o["sink_up"][1], o["sink_down"][0], o["sink_down"][1], cli)


def snf_sent_term(parts):
    ts = [common.coq_bytes(bytes.fromhex(q[1])) if q[0] == "l" else "(gen_data %d %d %d)" % (q[1], q[2], q[3]) for q in parts]
    return "(" + " ++ ".join(ts) + ")" if ts else "[]"


def snf_to_coq(c, o):
    """level (c): the sniffer's part is compared with model/C17_Sniff.v on the bytes it was observed to take off the stream
    (TLS-looking, unrecognised and short streams: no library oracle is consulted except the server name, which is answered with
    the name the hook left; HTTP-looking streams need the read pattern of bufio + http.ReadRequest, not visible end to end), the
    server's part with the run of model/C06_Hook.v that produces the target's Write calls"""
    if o.get("skip") or o.get("panic") or "writes" not in o or not o.get("torn") or "pbn" not in o or o.get("hook_err"):
        return None
    if c["logger"] and "stx" not in o:
        return None
    if c["shape"].split(":")[0] == "unhooked":
        if o.get("hooked"):
            return None
    elif c["shape"].startswith("http") or not o.get("hooked"):
        return None
    b = lambda x: "true" if x else "false"
    consumed = c["sn"] - (o["got"] - o["pbn"])
    if consumed < 0 or consumed > c["sn"]:
        consumed = c["sn"]
    e = 1 if c["shape"].endswith(":fin") else (2 if c["hold"] else 0)
    sni = "None"
    haddr = o.get("hook_addr") or c["addr"]
    if o.get("rewritten"):
        sni = "(Some %s)" % common.coq_bytes(haddr.rsplit(":", 1)[0].encode("ascii"))
    nl = lambda l: "[" + ";".join(str(int(x)) for x in l) + "]"
    return "CSniff %s %s %s %d %d %s %s %s %d %s %s %d %d" % (
        b(c["logger"]), b(o.get("hooked")), snf_sent_term(c["sentp"]), consumed, e, sni, cstr(c["addr"].encode()), cstr(haddr.encode()),
        o["pbn"], nl(o.get("writes") or []), nl(o.get("uplogs") or []), o.get("stx", 0), o["got"])


def to_coq(c, o):
    if c["k"] == "snf":
        return snf_to_coq(c, o)
    if c["k"] == "e2e":
        # level (b) is judged by the harness verdict; the hooked requests that end without a relay (hook abort, failed dial)
        # are also compared with the run of model/C06_Hook.v: the application reads no byte and its Reads end with EOF
        hk = c.get("hook")
        if hk and (c["dial_err"] or hk["err"]) and not o.get("skip") and not o.get("panic") and "recv" in o:
            return "CHookFail %s %s %d %s %d %d" % ("true" if c["fastopen"] else "false", "true" if hk["err"] else "false",
                                                    hk["putback"], cstr((c["dial_err"] or "aborted").encode()), o["recv"],
                                                    1 if o.get("rerr") == "EOF" else 9)
        # the end of a relay, per configuration (EventLogger present / absent) and veto (none / Up / Down): compared with the
        # model's tail of handleTCPRequest (model/C06_Events.v)
        if not o.get("skip") and not o.get("panic") and "vetoed" in o and ("conn_closed" in o or "alive_after" in o):
            b = lambda x: "true" if x else "false"
            closed = o["conn_closed"] if o["vetoed"] else not o["alive_after"]
            return "CTail %s %s %s %s [%s]" % (b(c.get("evlog")), b(o["vetoed"]), b(o.get("veto_up")), b(closed),
                                               ";".join(b(x) for x in (o.get("ev_tcp_err") or [])))
        return None
    if c["k"] == "xrelay":
        return xto_coq(c, o)
    if o.get("panic") or "trace" not in o:
        return None
    if any(str(ev[-1]).startswith("other:") for ev in o["trace"] if ev[0] in ("R", "W", "F")):
        return None
    if c.get("req") and o.get("req_err") != "nil":
        return None       # request rejected: no relay (judged by the harness verdict)
    if c.get("e2e"):
        return e2e_to_coq(c, o)
    # request phase ("Q": a Read before the copy started, "A": request accepted) is outside the LTS of the copy; the offsets of
    # the relay's Reads tie it in: check requires them to be consecutive from the first byte behind the request
    tr = "[" + ";".join(obs_term(c, ev) for ev in o["trace"] if ev[0] not in ("Q", "A", "P")) + "]"
    return "CRelay %s %s true %d %d %d %d %d %d" % ("Logged" if c["mode"] == "logged" else "Fast", tr, o["tx"], o["rx"],
                                                  o["sink_up"][0], o["sink_up"][1], o["sink_down"][0], o["sink_down"][1])


def klass(c, o):
    if c["k"] == "snf":
        if o.get("skip"):
            return "snf:%s:SKIPPED" % c["shape"]
        seen = ""
        if o.get("hooked"):
            # how much of the first flight the sniffer had when it returned: all the client had written in front of its pause, or less
            k = c["cuts"][-1] if c["cuts"] else (0 if c["hold"] else c["sn"])
            seen = ":putback=%s" % ("0" if not o.get("pbn") else ("cut" if (c["hold"] or c["shape"].endswith(":fin")) and o["pbn"] == min(k, c["sn"]) else "some"))
        return "snf:%s:fo=%d:logger=%d%s%s" % (c["shape"], c["fastopen"], c["logger"], seen, ":rewritten" if o.get("rewritten") else "")
    if c["k"] == "e2e":
        kind = "dial-error" if c["dial_err"] else ("upload-noread" if c.get("no_read") else ("veto" if o.get("vetoed") else "data"))
        hk = c.get("hook")
        if hk:
            kind = "hooked%s%s%s:" % ("+putback" if hk["putback"] else "", "+rewrite" if hk["rewrite"] else "", "+abort" if hk["err"] else "") + \
                   ("dial-error" if c["dial_err"] else "data")
        if kind == "veto":
            kind = "veto%s" % ("-up" if o.get("veto_up") else "-down")
        return "e2e:%s:fo=%d:logger=%d:evlog=%d%s" % (kind, c["fastopen"], c["logger"], bool(c.get("evlog")), ":SKIPPED" if o.get("skip") else "")
    f = o.get("facts") or {}
    if o.get("panic"):
        return "panic"
    if c["k"] == "xrelay":
        return "xrelay:n=%d%s%s" % (len(c["relays"]), ":late-read" if f.get("late_reads") else "",
                                    ":chunk-in-flight-elsewhere" if f.get("inflight_across_late_read") else "")
    tags = [c["k"] + ("+req" + (":glued" if c["req"]["glue"] else "") if c.get("req") else ""), c["mode"], "ret=" + str(o.get("ret"))]
    if c.get("e2e"):
        co = o.get("cli") or {}
        tags.insert(1, "e2e:%s:cli=%s/%s%s" % ("dial-error" if c["e2e"]["dial_err"] else "relay", co.get("tcp", "-"), co.get("final", "-"),
                                                 ":deadlines@" + ",".join("pre" if x == 0 else ("post" if x == len(o.get("resp_hex", "")) // 2 else "data")
                                                                          for x in co["pauses"]) if co.get("pauses") else ""))
    if f.get("veto"):
        tags.append("veto" + ("U" if f.get("veto_U") else "") + ("D" if f.get("veto_D") else ""))
    if f.get("wfault_U") or f.get("wfault_D"):
        tags.append("wfault")
    if f.get("contract_broken"):
        tags.append("contract-broken")
    if max(f.get("fwd_U", 0), f.get("fwd_D", 0)) > 32768:
        tags.append("big")
    return ":".join(tags)


def nontrivial(c, o):
    if c["k"] == "snf":
        return not o.get("skip") and bool(o.get("hooked")) and o.get("got", 0) > 0
    if c["k"] == "e2e":
        return not o.get("skip")
    f = o.get("facts") or {}
    if c["k"] == "xrelay":
        return bool(f.get("inflight_across_late_read")) or (f.get("writes", 0) > 1 and len(c["relays"]) > 1)
    both = f.get("fwd_U", 0) > 0 and f.get("fwd_D", 0) > 0
    rough = (f.get("fwd_U", 0) + f.get("fwd_D", 0) > 0) and (f.get("veto") or f.get("wfault_U") or f.get("wfault_D") or o.get("ret") != "nil")
    return bool(both or rough)


def fingerprint(c, o):
    why = o.get("why") or ""
    if why.startswith("veto-swallowed:"):
        return FP_VETO
    return None


def search(ctx, disagreeing):
    """Property-directed search on the implementation alone (no model): more seeds."""
    found = []
    for s in range(3):
        rng = random.Random(ctx.seed * 1000 + s + 17)
        cases = gen(rng, "quick")
        cases = [c for c in cases if c["k"] not in ("e2e", "snf")]
        ok, outs, _, log = common.run_go_cases(ctx, GO, cases, tag="search%d" % s)
        for c, o in zip(cases, outs):
            if o.get("ok") is False and fingerprint(c, o) is None:
                found.append({"what": "%s: %s" % (c["k"], o.get("why")), "replay": {"case": c, "impl": o},
                              "fingerprint": fingerprint(c, o), "found_input": True})
        if found:
            break
    return found


def run(ctx):
    """common.run_case_check with the cases routed to two Go packages: relay histories to core/server (level a),
    end-to-end cases to core/internal/integration_tests (level b); outputs merged back in case order."""
    orig = common.run_go_cases

    def both(ctx_, gospec, cases, tag="main", timeout=900, race=False):
        if gospec is not GO:
            return orig(ctx_, gospec, cases, tag=tag, timeout=timeout, race=race)
        ia = [i for i, c in enumerate(cases) if c.get("k") not in ("e2e", "snf")]
        ib = [i for i, c in enumerate(cases) if c.get("k") == "e2e"]
        ic = [i for i, c in enumerate(cases) if c.get("k") == "snf"]
        race = race or ctx_.tier == "thorough"
        # level (c) (package extras/sniff: the real Sniffer as the request hook) runs next to the other packages
        snf_res = {}

        def run_snf():
            snf_res["r"] = orig(ctx_, GO_SNF, [cases[i] for i in ic], tag=tag + "_snf", timeout=timeout, race=race)

        th_snf = None
        if ic:
            import threading
            th_snf = threading.Thread(target=run_snf)
            th_snf.start()
        ok1, o1, params, log1 = orig(ctx_, GO, [cases[i] for i in ia], tag=tag, timeout=timeout, race=race)
        # the client half of the end-to-end class (package client) is served what the server half wrote; it runs while level (b) does
        cli_idx, cli_cases = [], []
        if len(o1) == len(ia):
            for j, i in enumerate(ia):
                if cases[i].get("e2e") and cases[i].get("cli"):
                    cc = cli_case(cases[i], o1[j])
                    if cc:
                        cli_idx.append(j)
                        cli_cases.append(cc)
        cli_res = {}

        def run_cli():
            cli_res["r"] = orig(ctx_, GO_CLI, cli_cases, tag=tag + "_cli", timeout=timeout, race=race)

        th = None
        if cli_cases:
            import threading
            th = threading.Thread(target=run_cli)
            th.start()
        ok2, o2, log2 = True, [], ""
        if ib:
            ok2, o2, _, log2 = orig(ctx_, GO_E2E, [cases[i] for i in ib], tag=tag + "_e2e", timeout=timeout, race=race)
        if th:
            th.join()
            ok3, o3, _, log3 = cli_res.get("r", (False, [], None, "client half did not run"))
            if ok3 and len(o3) == len(cli_cases):
                for j, cc, co in zip(cli_idx, cli_cases, o3):
                    o1[j]["cli"], o1[j]["cli_case"] = co, cc
                    if co.get("ok") is False and o1[j].get("ok"):
                        o1[j]["ok"], o1[j]["why"], o1[j]["detail"] = False, "client half: " + str(co.get("why")), co.get("detail")
            else:
                ok1 = False
                log1 += "\nclient half (core/client) failed:\n" + log3[-3000:]
        ok4, o4, log4 = True, [], ""
        if th_snf:
            th_snf.join()
            ok4, o4, _, log4 = snf_res.get("r", (False, [], None, "level (c) did not run"))
            if len(o4) != len(ic):
                # level (c) did not finish (reported as a broken tie through ok4): keep what the other levels found
                ok4 = False
                o4 = list(o4) + [{"k": "snf", "ok": True, "why": "", "skip": "sniffed-relay harness did not finish"}] * (len(ic) - len(o4))
            if not ok4:
                log1 += "\nlevel (c) (extras/sniff) failed:\n" + log4[-3000:]
        outs = [None] * len(cases)
        if len(o1) == len(ia):
            if len(o2) != len(ib):
                # level (b) did not finish (reported as a broken tie through ok2): keep what level (a) found
                ok2 = False
                o2 = list(o2) + [{"k": "e2e", "ok": True, "why": "", "skip": "end-to-end harness did not finish"}] * (len(ib) - len(o2))
            for i, o in zip(ia, o1):
                outs[i] = o
            for i, o in zip(ib, o2):
                outs[i] = o
            for i, o in zip(ic, o4):
                outs[i] = o
        else:
            outs = []
        skipped = sum(1 for o in o2 if o.get("skip"))
        if skipped:
            ctx_.say("level (b): %d of %d end-to-end cases skipped for infrastructure reasons: %s" % (
                skipped, len(o2), next(o.get("skip") for o in o2 if o.get("skip"))))
        skipped = sum(1 for o in o4 if o.get("skip"))
        if skipped:
            ctx_.say("level (c): %d of %d sniffed relays skipped for infrastructure reasons: %s" % (
                skipped, len(o4), next(o.get("skip") for o in o4 if o.get("skip"))))
        return ok1 and ok2 and ok4, outs, params, log1 + log2

    common.run_go_cases = both
    try:
        return common.run_case_check(ctx, sys.modules[__name__])
    finally:
        common.run_go_cases = orig


def replay(ctx, path):
    r = json.load(open(path))
    c = r["replay"].get("case")
    if not c:
        print("replay file names a broken obligation/correspondence, no concrete input:", r["what"])
        return 1
    ok, outs, _, log = common.run_go_cases(ctx, {"e2e": GO_E2E, "snf": GO_SNF}.get(c.get("k"), GO), [c], tag="replay")
    print(json.dumps(outs, indent=1))
    good = bool(outs and outs[0].get("ok"))
    cc = (r["replay"].get("impl") or {}).get("cli_case")
    if cc:
        # the client half of an end-to-end case: the recorded history (response frame, data, pauses, deadlines) on the real client
        ok2, outs2, _, log2 = common.run_go_cases(ctx, GO_CLI, [cc], tag="replay_cli")
        print(json.dumps(outs2, indent=1))
        good = good and bool(outs2 and outs2[0].get("ok"))
    return 0 if good else 1


LEVEL_TEXT = ("Machine-checked Coq theorems over a labelled transition system transcribed from copyBufferLog / copyTwoWayEx / copyTwoWay(io.Copy) and the "
              "hook-less path of handleTCPRequest: for every interleaving of the two copy loops and the teardown, every chunking, every read/write "
              "error and every veto position (no bound on lengths): each sink holds a prefix of what its source produced, all of it when the loop "
              "returns nil; every Write is directly preceded by the Read of that chunk and the approving LogTraffic of its size in the right argument "
              "position; approved = forwarded + chunk in flight; after a veto the loop only returns errDisconnect; the QUIC connection is closed iff "
              "the first returned error is errDisconnect; a dial error writes the failure response with the server's message and relays nothing; "
              "client view (fast open on/off) over an abstract response codec; over an abstract request codec that consumes exactly its frame, "
              "the target holds a prefix of the payload the client wrote behind the request and all of it when Up returns nil; "
              "the same END TO END over the real codecs of C04 with no codec hypothesis (model/C06_E2E.v: the four streams are io.Reader scripts, every chunking, reads spanning the frame boundary): "
              "the server's request phase leaves exactly the bytes behind the frame, on every run the stream carries the response frame followed by exactly the Down sink, "
              "what the target receives is a prefix of what the client application wrote (whole when the client finishes first) and what the application reads - TCP()/tcpConn.Read with fast open on or off, any buffer sizes - "
              "is a prefix of what the target sent (whole when the target finishes first, nothing is lost and the application reads to the end); a failed dial reaches the application as DialError msg and relays nothing; "
              "isolation between relays: in the world of all copy loops over a memory of pooled buffers (Read stores into the loop's buffer, Write hands out what the buffer "
              "holds then) a buffer has at most one running owner, so every loop's behaviour is a run of the one-loop LTS and its sink holds a prefix of ITS source, "
              "which fails as soon as a buffer may return to the pool before its loop has finished; the client's Close ends the send side with FIN whatever the "
              "connection's Established flag (so a fast-open upload closed before any Read is delivered whole), a reset-if-unestablished Close does not; "
              "a SNIFFED connection (the hook of the run is the sniffer of extras/sniff, composed from C17's model): for every script of the client's stream - every chunking, EOF / reset / a fired read deadline "
              "anywhere in the probe bytes, the TLS record header, the record body, an HTTP header block - the target's stream is a prefix of the client's stream and all that was taken off the stream once Up has returned nil, "
              "and a sniffer whose early return hands back fewer bytes than it consumed leaves a hole (refuted variant). The model is tied to /repo on every run by the regenerated buffer size "
              "and by replaying recorded boundary logs of the real code against the LTS in the kernel (vm_compute).")
LEVEL_NOTE = ("Trusted: Coq kernel + vm_compute; hand-written model (tie is sampled: recorded boundary logs are replayed, not all schedules); python/Go glue. "
              "No axioms. The clause 'a veto closes that user's connection' is proved only when the vetoed loop is the first to report "
              "(C06_veto_closes_conn_partial) and refuted in general (C06_veto_closes_conn_refuted): copyTwoWayEx drops the second loop's errDisconnect.")
TECHNIQUE = "Coq proof (invariants over an LTS of atomic boundary actions, all interleavings) + replay of recorded boundary logs against the LTS in vm_compute"
DESIGN_REF = "DESIGN.md section 4 C06"
