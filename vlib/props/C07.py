"""C07 - Server UDP sessions are isolated, expire when idle, and never leak (DESIGN.md section 4, C07)."""
from vlib import common

GO = dict(module="core", pkg="server", pkgname="server",
          files={"zz_verif_udpenv_test.go": "c07/udpenv_test.go", "zz_verif_c07_test.go": "c07/c07_test.go",
                 "zz_verif_c07s_test.go": "c07/c07_stress_test.go"},
          run="TestVerifC07")
PARAMS_NAME = "ParamsC07"
HEADER = "From Hy Require Import lib.Harness model.C07_UDPSessions corr.C07_Corr.\nFrom Coq Require Import NArith List.\nImport ListNotations.\nLocal Open Scope N_scope.\n"
RULE = ("seeded generator: histories of 10-70 operations on udpSessionManager.Run inside a testing/synctest bubble (fake clock): client "
        "datagrams (complete / never-completed fragment) over <= 6 session ids, scripted reads and read errors on the sessions' sockets, "
        "injected dial / hook / SendMessage / WriteTo failures, a slow event logger (keeps a closed entry in the table for 10 ms), "
        "slow request hooks / outbound dials (the fake Hook / UDP() sleeps on the fake clock for about timeout + one sweep interval or more, so the sweep "
        "that selects the still idle entry runs while its first dial is in progress; other traffic, sleeps and quiescent points fall inside the dial), "
        "every way a session can end (idle expiry, reply-loop read error, SendMessage error, dial failure, hook failure, fragment-only expiry) followed at "
        "once by a datagram with the same id and no other id in between, sleeps chosen around the idle timeout and the 1 s sweep (timeout-1, timeout, "
        "timeout+1, 999/1000/1001 ms ...), bursts of operations issued without waiting for quiescence (real interleavings of receive loop, "
        "reply loops and sweeper), final connection loss; datagrams from the remote of 0, 1, 2, 7, 9, 64 bytes besides the 8-byte tagged ones "
        "(ReadFrom returning 0 with a nil error is an EMPTY DATAGRAM; the tag of a short datagram travels in its source address), alone and as "
        "keep-alives that are a session's only traffic for longer than timeout + two sweeps; FINAL cleanup with 20-40 sessions (8-14 with a slow "
        "logger), some idle past the timeout at the sweep tick that follows the connection loss, some with traffic in either direction shortly "
        "before, some fragment-only, the connection lost 1-300 ms before that tick and the first socket Close() calls of cleanup(false) taking "
        "up to 10-2500 ms of the fake clock (and / or slow logger.Close), so that one to three sweeps run INSIDE the final cleanup (two cleanup() "
        "calls overlapping). The boundary log (fake udpIO / UDPConn / logger calls with fake-clock times) is "
        "replayed against the Coq LTS (nondeterministic-automaton simulation with tau-closure) and must end in a terminal state with an "
        "empty table. The harness verdict (implementation alone) includes: after a session's Close event has settled the next complete datagram of "
        "that id must call the hook, log New, dial a new socket and be written to it; no dial returns a socket for a session already reported closed; "
        "Count() at every quiescent point equals the number of ids with a live session; every socket closed exactly once; no goroutine left at bubble exit; "
        "every datagram ReadFrom returned with a nil error (any length, 0 included) is handed to SendMessage with the owner's session id, the same tag "
        "and the same length before the reply loop reads again, and counts as traffic of the session (a socket with such a read within the timeout "
        "of a sweep is not closed by it). Non-trivial = the history contains an idle expiry, a session id reused on a new socket, or an injected fault. "
        "STRESS histories (k = stress; real goroutines and the real clock, no bubble): the real Run loop consumes 2000-8000 datagrams, nearly all of "
        "fresh session ids (kinds drawn per id from a seeded mix: remote refuses -> reply loop ends the session; dial refused; hook refused; "
        "one reply relayed then refusal; SendMessage failing; a bounded number of sessions that stay and get further datagrams; fragment-only "
        "entries, some completed later) while 1-3 goroutines call cleanup(true) back to back (many sweeper ticks compressed into a loop, next to "
        "the manager's own ticker), optionally a Count() caller, varied yielding / pacing / GOMAXPROCS; idle timeout 300-3600 s so that nothing may "
        "expire; then the connection is lost while the sweeps go on (cleanup(false) overlapping cleanup(true) and the exit functions), then the "
        "sweepers stop.  Verdict on the implementation alone: every complete datagram of a fresh id calls the hook, logs New, dials and is "
        "written to that socket as far as its kind allows; no Close(nil) before the loss of the connection unless the latest datagram of the "
        "id was handed to the receive loop more than the idle timeout earlier; exactly one Close event per session, every socket closed once, "
        "replies tagged with the owner's id; LIVENESS: a progress watchdog (receive loop, every sweeper, Run's return, the sweepers' return, "
        "the exit of every goroutine of the manager) - no progress for 20 s of real time while a heartbeat goroutine shows the process is being "
        "scheduled is a WEDGE, reported with the dump of the manager's goroutines; at the end Count() == 0 and no goroutine of the manager is left. "
        "The per-id outcome codes are checked against the exhaustively explored outcomes of the one-entry LTS of model/C07_Birth.v.  "
        "BIRTH probe (k = birth): newUDPSessionEntry's Last lies between clock readings taken around the call (compared with the model's creation action). "
        "Distinct = distinct JSON case.")
ASSUMPTIONS = [
    "a closed UDPConn returns an error from every later ReadFrom/WriteTo, and ReadFrom blocked on it returns (socket semantics, modelled in the LTS guards)",
    "the ticker fires every idleCleanupInterval and the sweeper consumes a tick before the clock passes the next one (theorems are relative to tick times)",
    "SendMessage / WriteTo / Hook / UDP return (do not block forever); a slow Hook / UDP() is exercised up to the first sweep that selects the entry being "
    "dialed: the sweeper then waits for connLock, a mutex wait is not a durable block for testing/synctest, so the fake dial returns at that fake instant "
    "(after giving the sweeper real time to reach CloseWithErr) instead of later",
    "fragment reassembly abstracted to complete message / ignored fragment (C05); addresses, hook rewrites and the decision cache are C08's",
    "a slow socket Close() is exercised only where no other goroutine can want the entry's connLock while the fake sleeps (a sync.Mutex wait is not a "
    "durable block for testing/synctest): calls made by the receive loop's goroutine after the connection was lost, reply loop parked in ReadFrom, "
    "sleep cut 1 ms before the first tick at which the entry counts as idle; the close takes effect when the sleep is over",
    "stress histories: a wedge is declared after 20 s of real time without any progress of the manager while a heartbeat goroutine "
    "(1 ms sleeps) advanced >= 2000 times in that window, or after 150 s whatever the heartbeat says; the feeding phase is cut (not a "
    "violation) after 45 s; calling cleanup(true) from harness goroutines compresses sweeper ticks (the code's own sweeper calls it once per second)",
    "model/C07_Birth.v follows ONE entry's life (datagrams handed out after the entry left the table belong to the next entry's life, "
    "covered by the LTS of C07_UDPSessions.v); its reply-loop read error is always enabled (over-approximation); the m.mutex programs of "
    "feed / cleanup / exitFunc / Count are transcribed by hand (Locks.code_prog)",
    "the acceptor takes the table delete that ends CloseWithErr at once after the connection loss when the history has no slow logger.Close "
    "(nobody looks an id up any more; closed entries are dropped from cleanup snapshots anyway): a reduction, every reduced run is a run of the LTS",
]
TRUSTED = ["modelled rather than verified: core/server/udp.go session manager, entry, reply loop, sweeper (hand-written LTS in coq/model/C07_UDPSessions.v); "
           "goroutine exit is observed (synctest bubble exit), the model proves 'no program counter left running'"]
PER_SHARD = 15
EXTRA_TARGETS = ["corr/C07_Corr.vo"]
INTERVAL = 1000


def motif_reuse(rng, sid, timeout):
    """a session of `sid` ends in one of the ways the code knows, then the same id is used again at once
    (no datagram of another id in between), usually after quiescence, sometimes racing with the close."""
    how = rng.choice(["idle", "idle", "idle", "readerr", "senderr", "dialfail", "hookfail", "fragidle", "idle+frag"])
    over = timeout + rng.choice([1000, 1000, 1001, 1500, 1999, 2000])
    if how in ("idle", "idle+frag"):
        ops = [[0, sid, 1], [3], [2, over], [3]]
    elif how == "readerr":
        ops = [[0, sid, 1], [3], [1, sid, 0], [3]]
    elif how == "senderr":
        ops = [[0, sid, 1], [3], [6, 1], [1, sid, 1], [3]]
    elif how == "dialfail":
        ops = [[3], [4, 1], [0, sid, 1], [3]]
    elif how == "hookfail":
        ops = [[3], [5, 1], [0, sid, 1], [3]]
    else:
        ops = [[0, sid, 0], [3], [2, over], [3]]
    if rng.random() < 0.2:
        ops.pop()               # no quiescence: the reuse races with the close
    if rng.random() < 0.3:
        ops.append([2, rng.choice([1, 10, 11, 500])])
    if how == "idle+frag":
        ops.append([0, sid, 0])
    ops += [[0, sid, 1]]
    if rng.random() < 0.5:
        ops += [[0, sid, 1]]
    ops += [[3], [1, sid, 1], [3]]
    return ops


def motif_slow_dial(rng, sid, others, timeout):
    """the next Hook / UDP() call sleeps on the fake clock; traffic, sleeps and quiescent points fall inside the dial"""
    ms = rng.choice([timeout + 1001, timeout + 1001, timeout + 1500, timeout + 2000, 3 * timeout + 1000, 10000,
                     timeout + 1000, timeout + 999, timeout + 1, timeout, timeout - 1, 1001, 1000, 999, 500, 10])
    which = rng.choice([10, 10, 10, 11, 11, 12])
    ops = [[3]] if rng.random() < 0.7 else []
    if rng.random() < 0.3:
        ops += [[2, rng.choice([1, 250, 500, 999])]]
    if which == 12:
        ops += [[11, ms // 2], [10, ms - ms // 2]]
    else:
        ops += [[which, ms]]
    if rng.random() < 0.15:
        ops += [[4, 1]]             # the slow dial fails in the end
    ops += [[0, sid, 1]]
    left = ms
    for _ in range(rng.choice([0, 1, 2, 4])):
        x = rng.random()
        o = rng.choice(others) if others else sid
        if x < 0.3:
            ops.append([0, sid, rng.choice([1, 1, 0])])     # queued behind the dial
        elif x < 0.5:
            ops.append([0, o, 1])
        elif x < 0.65:
            ops.append([1, o, 1])
        elif x < 0.8:
            ops.append([3])
        else:
            d = rng.choice([1, 500, 999, 1000, 1001, max(1, left // 2)])
            ops += [[3], [2, d]]
            left -= d
    if rng.random() < 0.8:
        ops += [[3], [2, max(1, left) + rng.choice([0, 1, 1000, 2000])], [3]]
    ops += [[1, sid, 1], [0, sid, 1], [3]]
    return ops


def short_len(rng):
    """payload length of a datagram from the remote that is not the harness's 8-byte tag: mostly EMPTY"""
    return rng.choice([0, 0, 0, 0, 1, 1, 2, 7, 9, 64])


def motif_keepalive(rng, sid, timeout):
    """the remote's datagrams are the session's ONLY traffic for longer than the idle timeout plus two sweeps, and they are
    empty (or 1 byte ...): each must go back tagged with the id, the socket must survive, the client's next datagram must
    leave through the same socket"""
    ops = [[0, sid, 1], [3]]
    if rng.random() < 0.3:
        ops += [[2, rng.choice([1, 250, 999])]]
    total = 0
    kind = rng.choice(["empty", "empty", "one", "mixed"])
    while total <= timeout + 2 * INTERVAL + 500:
        d = rng.choice([timeout // 2, timeout // 3, timeout - 1, timeout, 500, 999, 1000])
        d = max(1, min(d, timeout))
        total += d
        n = 0 if kind == "empty" else 1 if kind == "one" else short_len(rng)
        ops += [[2, d], [1, sid, 1, n]]
        if rng.random() < 0.7:
            ops += [[3]]
    ops += [[3], [0, sid, 1], [3]]
    if rng.random() < 0.5:
        # then silence: it expires like any other session
        ops += [[2, timeout + rng.choice([1000, 1001, 1999, 2000])], [3]]
    return ops


def gen_mass(rng):
    """FINAL cleanup with many sessions while the sweeper is still ticking: 20-40 sessions, some idle past the timeout at
    the tick T that follows the connection loss, some with traffic in either direction shortly before, some fragment-only;
    the connection is lost a few ms before T and the first socket Close() calls of cleanup(false) (and / or logger.Close)
    are slow, so the sweep of T (and later ones) runs INSIDE the final cleanup: two cleanup() calls overlap."""
    timeout = rng.choice([1000, 1500, 2000, 2000, 3000])
    how = rng.choice(["sock", "sock", "sock", "sock+log", "log", "none"])
    # (with a slow logger.Close the acceptor cannot take the table deletes eagerly: its state sets grow with the number of
    # sessions, so those histories stay small)
    n = rng.randint(20, 40) if "log" not in how else rng.randint(8, 14)
    sids = rng.sample(range(100, 400), n)
    start = rng.choice([0, 0, 1, 137, 500, 999])
    ops = [[2, start], [3]] if start else [[3]]
    for sid in sids:
        ops.append([0, sid, 1 if rng.random() < 0.93 else 0])
        if rng.random() < 0.1:
            ops.append([3])
    ops.append([3])
    tick = ((start + timeout) // INTERVAL + 1) * INTERVAL          # first sweep at which the untouched sessions are idle
    delta = rng.choice([1, 1, 5, 5, 50, 300])
    lose_at = tick - delta
    # the refreshed ones get their traffic in (tick - timeout, lose_at): live at `tick`
    lo = max(start + 1, tick - timeout)
    ref = rng.randint(lo, max(lo, lose_at - 1))
    ops.append([2, ref - start])
    frac = rng.choice([0.3, 0.5, 0.5, 0.7, 0.9])
    live = [sid for sid in sids if rng.random() < frac]
    if len(live) < 2:
        live = sids[:n // 2]
    for sid in live:
        x = rng.random()
        if x < 0.5:
            ops.append([0, sid, 1])
        elif x < 0.8:
            ops.append([1, sid, 1])
        else:
            ops.append([1, sid, 1, short_len(rng)])
        if rng.random() < 0.1:
            ops.append([3])
    ops.append([3])
    if lose_at - ref > 0:
        ops.append([2, lose_at - ref])
    if how in ("sock", "sock+log"):
        ops.append([12, rng.choice([1, 1, 2, 3, n]), delta + rng.choice([1, 10, 10, 500, 1000, 1500, 2500])])
    if how in ("log", "sock+log"):
        ops.append([9, rng.choice([1, 2, 5, n])])
    if rng.random() < 0.5:
        ops.append([3])
    ops.append([8])
    return {"timeout": timeout, "ops": ops}


def gen_history(rng, idx):
    timeout = rng.choice([1500, 2000, 2000, 2500, 3000, 1000, 700])
    sids = rng.sample([1, 2, 3, 4, 5, 6, 77, 4294967295], rng.choice([1, 2, 3, 6]))
    nops = rng.randint(10, 70)
    p_reuse = rng.choice([0.0, 0.03, 0.06])
    p_slow = rng.choice([0.0, 0.0, 0.03, 0.06])
    p_keep = rng.choice([0.0, 0.0, 0.02])
    p_short = rng.choice([0.0, 0.1, 0.3, 1.0])
    burst = rng.choice([0.0, 0.2, 0.5, 0.9])
    faulty = rng.random() < 0.6
    sleeps = [1, 10, 250, 500, 990, 999, 1000, 1001, 1500, timeout - 1000, timeout - 1, timeout, timeout + 1,
              timeout + 999, timeout + 1000, timeout + 1001, 2 * timeout + 1000]
    sleeps = [x for x in sleeps if x > 0]
    ops = [[2, rng.choice([0, 1, 137, 500, 999])], [3]] if rng.random() < 0.7 else []
    for _ in range(nops):
        x = rng.random()
        sid = rng.choice(sids)
        y = rng.random()
        if y < p_reuse:
            ops += motif_reuse(rng, sid, timeout)
            continue
        if y < p_reuse + p_slow:
            ops += motif_slow_dial(rng, sid, [q for q in sids if q != sid], timeout)
            continue
        if y < p_reuse + p_slow + p_keep:
            ops += motif_keepalive(rng, sid, timeout)
            continue
        if x < 0.38:
            ops.append([0, sid, 1])
        elif x < 0.45:
            ops.append([0, sid, 0])
        elif x < 0.65:
            ops.append([1, sid, 1, short_len(rng)] if rng.random() < p_short else [1, sid, 1])
        elif x < 0.69:
            ops.append([1, sid, 0])
        elif x < 0.86:
            ops.append([3])
            ops.append([2, rng.choice(sleeps)])
        elif faulty:
            y = rng.random()
            if y < 0.12:
                ops.append([9, rng.choice([1, 2])])
            elif y < 0.3:
                ops.append([4, 1])
            elif y < 0.45:
                ops.append([5, 1])
            elif y < 0.75:
                ops.append([6, 1])
            else:
                ops.append([7, sid, 1])
        else:
            ops.append([0, sid, 1])
        run_len = 0
        for q in reversed(ops):
            if q[0] == 3:
                break
            run_len += 1
        if rng.random() >= burst or run_len >= 6:
            ops.append([3])
    if rng.random() < 0.5:
        ops.append([3])
    ops.append([8])
    return {"timeout": timeout, "ops": ops}


def gen(rng, tier):
    n = 60 if tier == "quick" else 1500
    cases = [
        # two sessions, one expires, its id is reused on a new socket, connection lost (the Example of the proof file)
        {"timeout": 2000, "ops": [[0, 1, 1], [0, 2, 1], [3], [2, 1500], [0, 2, 1], [1, 2, 1], [3], [2, 1600], [3], [0, 1, 1], [1, 1, 1], [3], [8]]},
        # read error racing with a datagram for the same id, no wait in between
        {"timeout": 2000, "ops": [[0, 5, 1], [3], [1, 5, 0], [0, 5, 1], [0, 5, 1], [3], [8]]},
        # dial failure, hook failure, then success
        {"timeout": 1500, "ops": [[4, 1], [0, 3, 1], [3], [5, 1], [0, 3, 1], [3], [0, 3, 1], [3], [2, 2600], [8]]},
        # fragment-only session expires without ever having a socket
        {"timeout": 1000, "ops": [[0, 9, 0], [3], [2, 2100], [0, 9, 0], [0, 9, 1], [3], [8]]},
        # a slow logger.Close keeps a closed entry in the table: a datagram for it must not dial (fragment-only entry) ...
        {"timeout": 1000, "ops": [[0, 9, 0], [3], [9, 1], [2, 2005], [0, 9, 1], [3], [2, 100], [0, 9, 1], [1, 9, 1], [3], [8]]},
        # ... and is written to the already closed socket when the entry had one
        {"timeout": 1000, "ops": [[0, 9, 1], [3], [9, 1], [2, 2005], [0, 9, 1], [3], [2, 100], [0, 9, 1], [1, 9, 1], [3], [8]]},
        # same with the reply loop as the closer (read error), slow logger
        {"timeout": 3000, "ops": [[0, 4, 1], [3], [9, 1], [1, 4, 0], [2, 5], [0, 4, 1], [0, 4, 0], [3], [2, 20], [0, 4, 1], [3], [8]]},
        # connection lost with live sessions and pending replies, everything at once
        {"timeout": 3000, "ops": [[0, 1, 1], [0, 2, 1], [0, 3, 1], [1, 1, 1], [1, 2, 1], [6, 1], [1, 3, 1], [8]]},
        # a slow first dial outlasts timeout + sweep interval: the sweep that selects the idle entry runs during the dial
        {"timeout": 2000, "ops": [[3], [10, 3500], [0, 7, 1], [3], [2, 4000], [3], [1, 7, 1], [0, 7, 1], [3], [2, 3100], [8]]},
        # the same with a slow hook, another session working meanwhile, and the connection lost during the dial
        {"timeout": 1000, "ops": [[0, 2, 1], [3], [11, 5000], [0, 7, 1], [0, 2, 1], [1, 2, 1], [3], [2, 700], [0, 2, 1], [8]]},
        # an id reused immediately after: idle expiry, read error, dial failure (no other id in between)
        {"timeout": 1000, "ops": [[0, 7, 1], [3], [2, 2000], [3], [0, 7, 1], [3], [1, 7, 0], [3], [0, 7, 1], [3], [4, 1], [2, 2500], [3],
                                  [0, 7, 1], [3], [0, 7, 1], [1, 7, 1], [3], [8]]},
    ]
    cases += [
        # the remote's EMPTY datagrams are the session's only traffic for 6 s (timeout 2 s): every one goes back tagged with
        # the id, the socket survives, the client's next datagram leaves through it
        {"timeout": 2000, "ops": [[0, 7, 1], [3]] + [x for _ in range(12) for x in ([2, 500], [1, 7, 1, 0], [3])] + [[0, 7, 1], [3], [8]]},
        # the same with 1-byte datagrams every timeout-1 ms, a second session idle meanwhile (it does expire)
        {"timeout": 1500, "ops": [[0, 1, 1], [0, 2, 1], [3]] + [x for _ in range(4) for x in ([2, 1499], [1, 1, 1, 1], [3])] + [[0, 1, 1], [0, 2, 1], [3], [8]]},
        # 40 sessions, 20 of them with traffic at 1500 ms; the connection is lost at 2995 ms and the first Close() of the final
        # cleanup takes 10 ms: the sweep of 3000 ms (20 idle sessions) runs inside cleanup(false)
        {"timeout": 2000, "ops": [[3]] + [[0, 100 + i, 1] for i in range(40)] + [[3], [2, 1500]] + [[0, 100 + 2 * i, 1] for i in range(20)] +
                                 [[3], [2, 1495], [12, 1, 10], [8]]},
    ]
    n_mass = 6 if tier == "quick" else 150
    for _ in range(n_mass):
        cases.append(gen_mass(rng))
    k = 0
    while len(cases) < n + 14 + n_mass:
        sub = random_sub(rng, k)
        k += 1
        cases.append(sub)
    cases.append({"k": "birth"})
    for j in range(5 if tier == "quick" else 40):
        cases.append(gen_stress(rng, j))
    return cases


def gen_stress(rng, j):
    """one stress history (c07_stress_test.go): the real Run loop against back-to-back sweeps under real concurrency.
    j = 0, 1 are the two plain shapes (everything refused by the remote / the general mix); the rest is drawn."""
    #        refuse dialfail hookfail stay echo frag sendfail
    mixes = [[1, 0, 0, 0, 0, 0, 0], [6, 2, 1, 1, 1, 1, 1], [3, 3, 0, 0, 1, 0, 1], [8, 0, 0, 1, 2, 1, 0], [2, 1, 1, 2, 2, 2, 2], [0, 1, 0, 0, 0, 0, 0]]
    if j == 0:
        mix, sweepers, again, maxstay = mixes[0], 1, 0, 0
    elif j == 1:
        mix, sweepers, again, maxstay = mixes[1], 2, 50, 40
    else:
        mix = mixes[j] if j < 5 else rng.choice(mixes[:5] if j % 8 else mixes)
        sweepers = rng.choice([1, 1, 2, 3])
        again = rng.choice([0, 20, 50, 200])
        maxstay = rng.choice([0, 8, 40, 200])
    return {"k": "stress", "n": rng.choice([2000, 3000, 4000, 6000, 8000]), "timeout": rng.choice([600000, 600000, 300000, 3600000]),
            "seed": rng.getrandbits(48), "base": rng.choice([1, 1000, 4294965000, rng.getrandbits(32)]),
            "sweepers": sweepers, "yield": rng.choice([0, 0, 1, 7]), "pace": rng.choice([0, 0, 1, 16]),
            "napevery": rng.choice([0, 0, 500, 97]), "napus": rng.choice([1, 50, 300]),
            "mix": mix, "maxstay": maxstay, "again": again, "procs": rng.choice([0, 0, 0, 2, 4]),
            "counters": rng.choice([0, 0, 1]), "capms": 45000}


def random_sub(rng, k):
    """every 4th history is built around the two motifs (one or two ids only); the rest is the general mix"""
    if k % 10 == 5:
        # the reply direction on its own: keep-alives of empty / tiny datagrams from the remote
        timeout = rng.choice([700, 1000, 1500, 2000, 3000])
        sids = rng.sample([1, 2, 3, 77, 4294967295], rng.choice([1, 2]))
        ops = []
        for sid in sids:
            ops += motif_keepalive(rng, sid, timeout)
        ops.append([8])
        return {"timeout": timeout, "ops": ops}
    if k % 4 != 3:
        return gen_history(rng, k)
    timeout = rng.choice([700, 1000, 1500, 2000, 3000])
    sids = rng.sample([1, 2, 3, 77, 4294967295], rng.choice([1, 1, 2]))
    ops = []
    for _ in range(rng.randint(2, 4)):
        sid = rng.choice(sids)
        if rng.random() < 0.5:
            ops += motif_reuse(rng, sid, timeout)
        else:
            ops += motif_slow_dial(rng, sid, [q for q in sids if q != sid], timeout)
        if rng.random() < 0.3:
            ops += [[2, rng.choice([1, 999, 1000, timeout, timeout + 1000])]]
    ops.append([8])
    return {"timeout": timeout, "ops": ops}


def events(o):
    """boundary log -> list of Coq event terms (with EAdvance inserted and split at the sweep ticks)."""
    out = []
    t = 0
    for ev in o["log"]:
        nt = ev["t"]
        while nt > t:
            nxt = min(nt, (t // INTERVAL + 1) * INTERVAL)
            out.append("Ad %d" % (nxt - t))
            t = nxt
        k = ev["k"]
        sid = ev.get("sid", 0)
        sock = ev.get("sock", 0)
        ok = ev.get("ok", False)
        if k == "recv":
            out.append(("Rc %d" if ok else "Rf %d") % sid)
        elif k == "recverr":
            out.append("Re")
        elif k == "hook":
            if not ok:
                out.append("He %d" % sid)
        elif k == "dial":
            out.append("Dk %d %d" % (sid, sock) if ok else "Df %d" % sid)
        elif k == "write":
            out.append(("Wk %d %d" if ok else "Wf %d %d") % (sock, ev.get("sid2", 0)))
        elif k == "read":
            out.append("Gk %d %d" % (sock, ev.get("nb", 1) - 1) if ok else "Gf %d" % sock)
        elif k == "send":
            out.append(("Sk %d %d %d" if ok else "Sf %d %d %d") % (max(sock, 0) if sock >= 0 else 999999, sid, ev.get("nb", 1) - 1))
        elif k == "close":
            out.append("Cl %d" % sock)
        elif k == "logclose":
            out.append("Lc %d" % sid)
        elif k == "quiet":
            out.append("Q")
    return out


def to_coq(c, o):
    b = lambda x: "true" if x else "false"
    if c.get("k") == "birth":
        if "last" not in o:
            return None
        l = lambda xs: "[" + ";".join(str(int(x)) for x in xs) + "]"
        return "CBirth %s %s %s" % (l(o["lo"]), l(o["last"]), l(o["hi"]))
    if c.get("k") == "stress":
        if o.get("skipped") or "hist" not in o:
            return None
        count = o.get("count", -1)
        nil = o.get("min_nil_age_us", -1)
        # (rounded up to whole ms: age > timeout  <->  ceil(age) > timeout for a timeout in whole ms)
        nilage = "None" if nil < 0 else "(Some %d)" % ((nil + 999) // 1000)
        return "CStress %d %d %s %d %d %s [%s]" % (c["timeout"], o.get("wall_ms", 0), b(bool(o.get("wedge"))), count if count >= 0 else 999999,
                                                   o.get("left_goroutines", 0), nilage, ";".join("Oc %d %d" % (k, v) for k, v in o["hist"]))
    if "log" not in o:
        return None
    slow = any(op[0] in (10, 11) for op in c["ops"])
    slowc = any(op[0] == 12 for op in c["ops"])
    slowl = any(op[0] == 9 for op in c["ops"])
    b = lambda x: "true" if x else "false"
    return "CHist %d %d %s %s %s [%s]" % (c["timeout"], o.get("count", 0), b(slow), b(slowc), b(slowl), ";".join(events(o)))


def _feat(c, o):
    log = o.get("log") or []
    lost = next((e["t"] for e in log if e["k"] == "recverr"), 1 << 60)
    expiry = any(e["k"] == "logclose" and e.get("ok") and e["t"] < lost for e in log)
    dials = {}
    for e in log:
        if e["k"] == "dial" and e.get("ok"):
            dials[e.get("sid", 0)] = dials.get(e.get("sid", 0), 0) + 1
    reuse = any(v > 1 for v in dials.values())
    fault = any((e["k"] in ("dial", "hook", "send") and not e.get("ok")) for e in log) or \
        any(e["k"] == "logclose" and not e.get("ok") for e in log)
    return expiry, reuse, fault


def klass(c, o):
    if c.get("k") == "birth":
        return "birth-probe"
    if c.get("k") == "stress":
        if o.get("skipped"):
            return "stress:not-run-after-two-wedges"
        if o.get("wedge"):
            return "stress:wedge"
        if o.get("panic"):
            return "stress:panic"
        return "stress:%s%s" % ("sweepers=%d" % c["sweepers"], "+cut" if o.get("cut") else "")
    if o.get("hang"):
        return "hang"
    if o.get("skipped"):
        return "not-run-after-two-hangs"
    if o.get("leak"):
        return "leak"
    if o.get("panic"):
        return "panic"
    expiry, reuse, fault = _feat(c, o)
    nw = sum(1 for op in c["ops"] if op[0] == 3)
    burst = "burst" if nw * 2 < len(c["ops"]) - 2 else "stepwise"
    return "%s:%s%s%s%s" % (burst, "expiry+" if expiry else "", "reuse+" if reuse else "", "sweep-during-dial+" if o.get("overlaps") else "",
                            "fault" if fault else "nofault")


def nontrivial(c, o):
    if c.get("k") == "birth":
        return False
    if c.get("k") == "stress":
        # the sweeps really ran next to the receive loop: at least one sweep per ten datagrams on average
        return o.get("consumed", 0) >= 1000 and o.get("sweeps", 0) * 10 >= o.get("consumed", 0)
    return any(_feat(c, o)) or bool(o.get("overlaps"))


def fingerprint(c, o):
    return None


def search(ctx, disagreeing):
    import random
    found = []
    for s in range(3):
        rng = random.Random(ctx.seed * 1000 + s + 17)
        cases = gen(rng, "quick")
        ok, outs, _, log = common.run_go_cases(ctx, GO, cases, tag="search%d" % s)
        for c, o in zip(cases, outs):
            if o.get("ok") is False:
                o2 = {k: v for k, v in o.items() if k != "log"}
                found.append({"what": "history: %s" % o.get("why"), "replay": {"case": c, "impl": o2},
                              "fingerprint": fingerprint(c, o), "found_input": True})
                break
        if found:
            break
    return found


def run(ctx):
    import random
    import sys
    global PER_SHARD
    PER_SHARD = 10 if ctx.tier == "quick" else 30      # quick: 8 shards side by side; thorough: few large shards
    extra = []
    race_cov = None
    if ctx.tier == "thorough":
        # the same histories under the race detector (implementation only; verdicts must stay ok)
        cases = gen(random.Random(ctx.seed + 1), "quick") + gen(random.Random(ctx.seed + 2), "quick")
        ok, outs, _, log = common.run_go_cases(ctx, GO, cases, tag="race", race=True, timeout=1500)
        if not ok:
            extra.append({"what": "C07 harness under -race failed (data race or crash): %s" % log.strip()[-600:],
                          "replay": {"broken": "go test -race", "log": log[-4000:]}, "found_input": False, "fingerprint": None})
        for c, o in zip(cases, outs):
            if o.get("ok") is False:
                extra.append({"what": "history (-race): %s" % o.get("why"), "replay": {"case": c, "impl": {k: v for k, v in o.items() if k != "log"}},
                              "fingerprint": None, "found_input": True})
        race_cov = {"histories": len(cases), "ok": ok}
        ctx.say("race run: %d histories, ok=%s" % (len(cases), ok))
    orig = common.finish

    def fin(ctx_, pinfo, cov, violations, assumptions, **kw):
        cov = dict(cov)
        if race_cov:
            cov["race_detector_run"] = race_cov
        return orig(ctx_, pinfo, cov, list(violations) + extra, assumptions, **kw)
    common.finish = fin
    try:
        return common.run_case_check(ctx, sys.modules[__name__])
    finally:
        common.finish = orig


def replay(ctx, path):
    import json
    r = json.load(open(path))
    c = r["replay"].get("case")
    if not c:
        print("replay file names a broken obligation/correspondence, no concrete input:", r["what"])
        return 1
    ok, outs, _, log = common.run_go_cases(ctx, GO, [c], tag="replay")
    print(json.dumps(outs, indent=1)[:6000])
    return 0 if outs and outs[0].get("ok") else 1


LEVEL_TEXT = ("Machine-checked Coq theorems over a hand-written labelled transition system of core/server/udp.go whose actions are the code's "
              "atomic sections (table lookup/insert/delete under m.mutex, initConn and CloseWithErr part 1 under connLock, Last stores, every "
              "call on udpIO / UDPConn / logger, ticker, clock): for every action sequence (= every interleaving of receive loop, reply loops "
              "and sweeper, every fault choice and every passage of time) the theorems of props/C07.v hold. The LTS is tied to /repo on every "
              "run by replaying ~70 recorded boundary logs of the real session manager (testing/synctest, fake clock, injected faults, "
              "unsynchronised bursts) against it inside the kernel.  A second layer (model/C07_Birth.v) refines entry creation to the code's "
              "granularity (lookup | newUDPSessionEntry | insert | Feed's Last store | initConn, with sweeps in between) and models m.mutex as a "
              "Go RWMutex over the lock programs of udp.go's functions: visible entries are stamped, young sessions are never swept, the first "
              "datagram reaches the hook, exactly one Close event, no deadlock / everybody finishes, nobody nests m.mutex; it is tied to /repo by "
              "real-concurrency stress histories whose per-id outcomes must be outcomes of the exhaustively explored one-entry LTS and which must "
              "never wedge.")
LEVEL_NOTE = ("Trusted: Coq kernel + vm_compute; hand-written LTS (tie is sampled trace acceptance + regenerated Params); python/Go glue. "
              "initConn (closed check, hook, New, UDP(), socket install under connLock) is ONE action of the LTS taken when the dial returns; time and sweeps "
              "pass with the receive loop inside it (acceptor: quiescent at RInit), so a log in which the entry is closed inside the dial has no run. "
              "ReadFrom's result carries the datagram length n (any n >= 0; ARead e ok n, PGot n, PSend n, ERead / ESend with n): C07_read_any_length, "
              "C07_read_is_traffic, C07_read_is_relayed, C07_relay_not_skipped state that an empty datagram is stamped and relayed like any other. "
              "A slow socket Close() in the final cleanup is the one action AClose1 taken when it takes effect (connLock is held across conn.Close()); "
              "time and sweeps pass with the receive loop at RClose (todo, None) true. "
              "A history that does not finish in 30 s of real time (mutex wait on a sleeping holder, self-deadlock) is reported as a violation with its replay. "
              "No axioms. Not proved: real time.Ticker accuracy (theorems are relative to tick times); goroutine exit is observed by synctest, "
              "not proved; preemption inside one atomic section.")
TECHNIQUE = "Coq proof (inductive invariants over all runs of an atomic-section LTS) + trace-acceptance correspondence check in vm_compute"
DESIGN_REF = "DESIGN.md section 4 C07"
