"""C08 - Every UDP datagram's destination passes the outbound policy (DESIGN.md section 4, C08)."""
import re

from vlib import common

GO = dict(module="core", pkg="server", pkgname="server",
          files={"zz_verif_udpenv_test.go": "c07/udpenv_test.go", "zz_verif_c08_test.go": "c08/c08_test.go",
                 "zz_verif_c08obs_test.go": "c08/c08obs_test.go"},
          run="TestVerifC08")
PARAMS_NAME = "ParamsC08"
HEADER = "From Hy Require Import lib.Harness model.C08_UDPPolicy corr.C08_Corr.\nFrom Coq Require Import NArith.\nLocal Open Scope N_scope.\n"
RULE = ("seeded generator: one session id driven through udpSessionManager.feed with a fake outbound implementing a random "
        "allow/deny predicate (densities 0..1) over a pool of 400 address strings (+ the empty string); destination sequences of "
        "1..2000 datagrams: uniform over the pool (more distinct destinations than the 256-entry cache), small working sets, "
        "sequential sweeps repeated after eviction, denied/allowed alternation; hook off / rewrite-all / rewrite-some / rewrite-to-same / "
        "error; dial faults, socket replies and idle closes interleaved. The cache key evicted by Go's map iteration is recorded and fed "
        "to the model as the oracle. FRAGMENTED datagrams whose fragments name DIFFERENT destinations: every arrival order of 2 and 3 "
        "fragments x every allowed/rejected assignment x (verdicts cached / only the allowed ones cached / nothing cached), in a live plain "
        "session, as the first datagram of a session and in hooked sessions; duplicates, packets abandoned for another id, FragID >= "
        "FragCount, count changes; random sessions mixing complete and fragmented datagrams (2-4 fragments, shuffled). WRITE ERRORS: the "
        "WriteTo of a Feed fails, at every position of short hooked (rewrite-all / rewrite-some) and plain sessions incl. the first datagram "
        "of a session and after a close, and at random in the mixed sessions; the fake socket logs every WriteTo attempt with its address, "
        "successful or not, and the address of every CheckUDP call is recorded and compared with the model's. "
        "TWINS: pairs of DISTINCT destination strings, one allowed and one rejected, that are equal under something a decision cache "
        "might key on instead of the string: equal 32-bit digests (FNV-1a, FNV-1, CRC-32/IEEE, Adler-32, Java 31-multiplier, djb2, sdbm, the low "
        "32 bits and the xor-fold of 64-bit FNV-1a, the leading 4 bytes of MD5 / SHA-1 / SHA-256; pairs found by a seeded birthday search "
        "over ~2^17.6 host:port strings per function on every run) or equal after a normalisation (letter case, trailing dot, port "
        "dropped, host dropped, first / last 64 bytes of a long name); histories: allowed twin first then the rejected one and the "
        "reverse order, as the session's first destination and later, in plain and hooked (rewrite-all / rewrite-some) sessions, as "
        "complete datagrams and as fragments (agreeing and disagreeing), across a close, with write errors, after a sweep that fills "
        "the cache, and random mixed sessions whose working set contains both twins. The decision cache is read by reflection by name: "
        "if it is not a string-keyed map the eviction oracle is unavailable, the model comparison is restricted to the part of each "
        "history in which no eviction can have happened, and the implementation-only verdict still runs on all of it. "
        "Non-trivial = the session evicted a cache entry, met a denied destination, was hooked, completed a datagram from disagreeing "
        "fragments or had a write fail. "
        "Distinct = distinct JSON case. Second stream (policy adapter, extras/outbounds): generated text rule sets over fake outbounds behind "
        "PluggableOutboundAdapter, bare and (class 'resolve') behind a static-table resolver stage with destinations given as host names that "
        "resolve v4 / v6 / both / to nothing / with a lookup error into, next to and at the edges of the CIDR and IP rules (plus IP literals), "
        "CheckUDP/UDP called in 4 orders; the generator's own first-match evaluation is shipped with every address and the routing is compared "
        "with model/C08_Adapter.v in Coq. Third stream: sessions through the real udpSessionManager.feed with that pipeline as the outbound, "
        "first destination mostly allowed, later ones allowed / refused by name / refused by resolved address. REAL LEAF OUTBOUNDS: the same "
        "sessions over pipelines whose leaves are the real direct (5 modes), SOCKS5 (with / without credentials, against a loopback proxy "
        "that grants UDP ASSOCIATE), HTTP / HTTPS proxy and built-in reject outbounds and recording fakes, under user-chosen names incl. "
        "entries called direct / reject / default of any kind and mixed-case references, the proxy often first (= default) with a few "
        "destinations routed direct; a real leaf's own UDP() / CheckUDP() answer, the socket it hands out is closed at once and replaced by "
        "a recording one (nothing leaves the process); the policy oracle of a destination is UDP() of a FRESH session on an untouched "
        "instance; sessions open on a UDP-capable leaf and go on to destinations routed to leaves without UDP / rejecting ones; after the "
        "session CheckUDP(d) of a third untouched instance must not allow any d whose UDP(d) is refused. Fourth stream, policies that FAIL: "
        "sessions through the real udpSessionManager.feed whose udpIO is the server's own udpIOImpl (Hook / UDP / CheckUDP), Config.Outbound "
        "and Config.RequestHook being fakes with three outcomes per destination - allowed, rejected, fails (panic with a string / an error / "
        "nil, index out of range on a malformed address such as an empty port, nil-map write; unusual error values: typed-nil pointer, an "
        "error whose Error() panics) - in CheckUDP only or in UDP too, hook absent / declining / rewriting / failing / panicking; directed "
        "histories (allowed, rejected, failing, allowed, failing again, across a close, failing first) for every kind and random ones; a "
        "propagating panic is recovered by the harness and counts as not forwarded; every session is replayed on model/C08_Fail.v in Coq.")
ASSUMPTIONS = [
    "the outbound policy is a function of the destination string (CheckUDP(a)==nil iff UDP(a) would be allowed): Section variable P",
    "UDP(a) succeeds only for destinations the policy allows (the dial vets the first destination)",
    "third layer (C08_fail_*): the outbound's CheckUDP never allows a destination its UDP refuses for a fresh session (forall a, Qc a = PAllow -> Qd a = PAllow): "
    "proved for the ACL pipeline over the leaf table of extras/outbounds (C08_pipeline_check_implies_dial, C08_leaves_consistent; a SOCKS5 "
    "proxy that does not grant UDP ASSOCIATE excepted) and checked on every run for each real leaf implementation by the pipeline-session harness; "
    "needed: C08_inconsistent_check_refuted, C08_http_check_nil_refuted",
    "third layer: the code between checkAddr and the outbound reports 'allowed' only when the outbound said so (wrapper_safe): proved for the "
    "transcription of udpIOImpl.CheckUDP (C08_io_wrapper_passes_failure_on), tied to the code by the failing-policy sessions; needed: C08_recover_into_local_refuted",
    "a client datagram never carries the empty destination string (wf_input; ParseUDPMessage rejects a zero-length address): discharged from C05's model of ParseUDPMessage for sessions driven by raw datagram bytes (C08_parsed_address_nonempty, C08_raw_denied_never_written, C08_raw_check_is_write; coq/proof/C08_Raw.v; the glue - skip what does not parse, as udpIOImpl.ReceiveMessage does - is read from the code, the parser itself is tied by the C05 check incl. zero-length addresses)",
]
TRUSTED = ["modelled rather than verified: udpSessionEntry.Feed/checkAddr/initConn and the reply address stamp of core/server/udp.go "
           "(hand transcription in coq/model/C08_UDPPolicy.v and, with the Defragger in front and the WriteTo result explicit, "
           "coq/model/C08_Feed.v; its Defragger is proved to be the C05 model of frag.Defragger.Feed with the payload forgotten); the UDP entry points of PluggableOutboundAdapter / resolver stage / aclEngine "
           "(coq/model/C08_Adapter.v on top of the C09 engine model); the resolver stage is a static-table stand-in with the shape of "
           "systemResolver/standardResolver; the harness checks on generated rule sets that CheckUDP(addr)==nil iff UDP(addr) succeeds with "
           "identical routing (outbound, rewritten address, resolve info) and that both equal the generator's first-match evaluation; "
           "udpIOImpl.CheckUDP / UDP / Hook (core/server/server.go) as wrappers that pass the callee's answer and panic on, and the UDP side of the "
           "leaf outbounds of extras/outbounds as a two-column table (coq/model/C08_Fail.v: io_result, leaf_udp, leaf_check), tied by the replay of "
           "every failing-policy session and of every (leaf, UDP ok, CheckUDP ok) observation in corr/C08_Fail_Corr.v; direct outbounds bound to a "
           "local address (UDP() refuses destinations without an address of the bound family, WriteTo fails for them alike) are not exercised"]
PER_SHARD = 25
EXTRA_TARGETS = ["corr/C08_Corr.vo", "corr/C08_Adapter_Corr.vo", "corr/C08_Fail_Corr.vo"]
POOL = 401


def gen_session(rng, big):
    dens = rng.choice([0.0, 0.1, 0.5, 0.5, 0.7, 0.9, 1.0])
    allowed = [a for a in range(POOL) if rng.random() < dens and (a != 0 or rng.random() < 0.3)]
    hm = rng.random()
    if hm < 0.55:
        hook = [0]
    elif hm < 0.72:
        hook = [1, rng.choice(allowed) if allowed and rng.random() < 0.8 else rng.randrange(1, POOL)]
    elif hm < 0.84:
        hook = [2, rng.choice([2, 3, 5]), rng.choice(allowed) if allowed and rng.random() < 0.8 else rng.randrange(1, POOL)]
    elif hm < 0.89:
        hook = [3]
    elif hm < 0.93:
        hook = [1, 0]  # rewrite to the empty string (edge, see EDGE_CASES)
        if rng.random() < 0.7 and 0 not in allowed:
            allowed = [0] + allowed
    else:
        hook = [1, -1]  # rewrite to the session's first destination: same address, no override
    r = rng.random()
    if big:
        n = rng.randint(600, 2000)
    elif r < 0.15:
        n = rng.randint(1, 6)
    elif r < 0.45:
        n = rng.randint(10, 120)
    else:
        n = rng.randint(290, 430)
    mode = rng.choice(["uniform", "work", "sweep", "alt", "mixed"])
    work = [rng.randrange(1, POOL) for _ in range(rng.choice([2, 5, 20, 255, 256, 257, 300]))]
    denied = [a for a in range(1, POOL) if a not in set(allowed)] or [1]
    okl = [a for a in allowed if a != 0] or [1]
    ops = []
    sweep_n = rng.choice([256, 257, 258, 300, 400])
    # sessions long enough start with a run of distinct destinations that fills the cache past its cap
    prefix = rng.sample(range(1, POOL), rng.choice([255, 256, 257, 270, 300])) if n >= 290 and rng.random() < 0.8 else []
    if prefix and okl and rng.random() < 0.8:
        prefix[0] = rng.choice(okl)   # let the session start at once
    pclose = 0.003 if prefix else 0.01
    for j in range(n):
        x = rng.random()
        if x < 0.04 and j > 0:
            ops.append([1, rng.randrange(0, POOL)])
            continue
        if x < 0.04 + pclose and j > 0:
            ops.append([2])
            continue
        m = mode if mode != "mixed" else rng.choice(["uniform", "work", "sweep", "alt"])
        if j < len(prefix):
            a = prefix[j]
        elif m == "uniform":
            a = rng.randrange(1, POOL)
        elif m == "work":
            a = rng.choice(work)
        elif m == "sweep":
            a = 1 + (j % sweep_n)
        else:
            a = rng.choice(denied) if j % 2 else rng.choice(okl)
        ops.append([0, a, 1 if rng.random() < (0.004 if prefix else 0.03) else 0])
    if hook == [1, -1]:
        first = next((o[1] for o in ops if o[0] == 0), 1)
        hook = [1, first]
    return {"pool": POOL, "allowed": allowed, "hook": hook, "ops": ops}


# the finding fixed by /repo bbf8060: the hook rewrites the destination to "" and the outbound accepts "";
# before the fix the original, unchecked destination was seeded into the decision cache as allowed
EDGE_CASES = [
    {"pool": POOL, "allowed": [0], "hook": [1, 0], "ops": [[0, 1, 0], [0, 1, 0]]},
    {"pool": POOL, "allowed": [0, 2], "hook": [1, 0], "ops": [[0, 1, 0], [0, 2, 0], [1, 9], [0, 1, 0], [2], [0, 2, 0], [1, 3]]},
    {"pool": POOL, "allowed": [0, 3], "hook": [2, 2, 0], "ops": [[0, 4, 0], [0, 3, 0], [0, 5, 0], [1, 7], [2], [0, 3, 0], [0, 4, 0]]},
]


def _perms(n):
    import itertools
    return list(itertools.permutations(range(n)))


def frag_ops(pid, addrs, order, fault=0, werr_at=None):
    """one datagram as len(addrs) fragments; fragment i names addrs[i]; `order` = arrival order of the FragIDs"""
    cnt = len(addrs)
    return [[3, addrs[f], fault, 1 if werr_at is not None and j == werr_at else 0, pid, f, cnt] for j, f in enumerate(order)]


def gen_frag_directed(rng):
    """Datagrams whose fragments DISAGREE about the destination: every arrival order of 2 and 3 fragments, every
    allowed/rejected assignment, in a live plain session (destination verdicts cached and not cached), as the first
    datagram of a session, and in a hooked session."""
    cases = []
    A = rng.sample(range(1, POOL), 6)            # allowed
    D = rng.sample([x for x in range(1, POOL) if x not in A], 6)   # rejected
    pid = [rng.randrange(1, 60000)]

    def nxt():
        pid[0] = pid[0] % 65535 + 1
        return pid[0]
    for cnt in (2, 3):
        perms = _perms(cnt)
        for mask in range(1, 2 ** cnt - 1):          # at least one allowed and one rejected fragment address
            for warm in (0, 1, 2):
                ops = [[0, A[0], 0]]                  # the session comes up on an allowed destination
                if warm == 1:                          # the verdicts of the addresses involved are already cached
                    ops += [[0, A[1], 0], [0, A[2], 0], [0, D[1], 0], [0, D[2], 0], [0, D[3], 0]]
                elif warm == 2:                        # only the allowed ones are cached
                    ops += [[0, A[1], 0], [0, A[2], 0], [0, A[3], 0]]
                for order in perms:
                    addrs = [(A[1 + i] if mask >> i & 1 else D[1 + i]) for i in range(cnt)]
                    ops += frag_ops(nxt(), addrs, order)
                ops += [[1, A[0]], [0, A[0], 0]]
                cases.append({"pool": POOL, "allowed": sorted(A), "hook": [0], "ops": ops})
    # disagreeing fragments as the FIRST datagram of the session (the dial vets one of the addresses)
    for order in _perms(2) + _perms(3)[:4]:
        cnt = len(order)
        for mask in range(0, 2 ** cnt):
            addrs = [(A[i] if mask >> i & 1 else D[i]) for i in range(cnt)]
            ops = frag_ops(nxt(), addrs, order) + [[0, A[3], 0], [0, D[3], 0]] + frag_ops(nxt(), addrs, order) + [[1, A[3]]]
            cases.append({"pool": POOL, "allowed": sorted(A), "hook": [0], "ops": ops})
    # hooked sessions: whatever the fragments say, only the rewritten destination is written to
    for hook in ([1, A[5]], [2, 2, A[5]]):
        for order in _perms(2) + _perms(3)[:3]:
            cnt = len(order)
            addrs = [rng.choice(D + A[:3]) for _ in range(cnt)]
            first = rng.choice([x for x in D if hook[0] == 1 or x % 2 == 0] or D)
            ops = [[0, first, 0]] + frag_ops(nxt(), addrs, order) + [[1, A[0]]] + frag_ops(nxt(), list(reversed(addrs)), order, werr_at=cnt - 1)
            cases.append({"pool": POOL, "allowed": sorted(A), "hook": hook, "ops": ops})
    # defragmenter corners: duplicates, a packet abandoned for another id, FragID >= FragCount, count change
    p1, p2 = nxt(), nxt()
    ops = [[0, A[0], 0],
           [3, D[0], 0, 0, p1, 0, 2], [3, D[0], 0, 0, p1, 0, 2], [3, A[1], 0, 0, p1, 1, 2], [3, A[1], 0, 0, p1, 1, 2],
           [3, D[1], 0, 0, p2, 0, 3], [3, A[2], 0, 0, p1, 1, 2], [3, D[2], 0, 0, p1, 0, 2],
           [3, A[1], 0, 0, p2, 2, 2], [3, A[1], 0, 0, p2, 5, 3], [3, D[1], 0, 0, p2, 0, 3], [3, A[1], 0, 0, p2, 1, 3],
           [3, A[2], 0, 0, p2, 2, 3], [3, D[3], 0, 0, p2, 2, 3], [3, A[2], 0, 0, p2, 0, 2], [3, D[3], 0, 0, p2, 1, 2]]
    cases.append({"pool": POOL, "allowed": sorted(A), "hook": [0], "ops": ops})
    return cases


def gen_werr_directed(rng):
    """A failing WriteTo at every position of short sessions, hooked and plain; in the hooked ones the datagrams name
    destinations the policy rejects, so a datagram re-sent to its own address after the failure is a policy breach."""
    cases = []
    A = rng.sample(range(1, POOL), 5)
    D = rng.sample([x for x in range(1, POOL) if x not in A], 5)
    n = 4
    for hook in ([1, A[4]], [2, 1, A[4]], [0]):
        for pos in list(range(n)) + [None, "all"]:
            ops = []
            for j in range(n):
                a = (D[j % len(D)] if j % 2 == 0 else A[j % 4]) if hook[0] else (A[j % 4] if j != 2 else D[0])
                ops.append([0, a, 0, 1 if (pos == "all" or pos == j) else 0])
                if j == 1:
                    ops.append([1, A[0]])
            ops.append([0, D[1] if hook[0] else A[1], 0, 0])
            cases.append({"pool": POOL, "allowed": sorted(A), "hook": hook, "ops": ops})
    # after a close the next session starts with a failing write
    ops = [[0, D[0], 0, 0], [2], [0, D[1], 0, 1], [0, D[2], 0, 0], [2], [0, D[0], 1, 1], [0, D[0], 0, 1]]
    cases.append({"pool": POOL, "allowed": sorted(A), "hook": [1, A[4]], "ops": ops})
    return cases


def gen_frag_session(rng):
    """random session mixing complete datagrams, fragmented datagrams (same / different addresses per fragment, random
    arrival order, sometimes interrupted), replies, closes, dial faults and write errors"""
    dens = rng.choice([0.3, 0.5, 0.5, 0.7, 0.9])
    small = rng.sample(range(1, POOL), rng.choice([4, 8, 30]))       # a small working set so that verdicts get cached
    allowed = [a for a in small if rng.random() < dens]
    if rng.random() < 0.8 and not allowed:
        allowed = [small[0]]
    okl = allowed or [small[0]]
    hm = rng.random()
    if hm < 0.55:
        hook = [0]
    elif hm < 0.8:
        hook = [1, rng.choice(okl)]
    elif hm < 0.95:
        hook = [2, rng.choice([2, 3]), rng.choice(okl)]
    else:
        hook = [3]
    pw = rng.choice([0.0, 0.0, 0.1, 0.3])
    ops = []
    pid = rng.randrange(1, 65000)
    started = False
    for _ in range(rng.randint(6, 40)):
        x = rng.random()
        if x < 0.07 and ops:
            ops.append([1, rng.choice(small)])
        elif x < 0.11 and ops:
            ops.append([2])
            started = False
        elif x < 0.45:
            a = rng.choice(okl) if (not started and rng.random() < 0.8) else rng.choice(small)
            ops.append([0, a, 1 if rng.random() < 0.04 else 0, 1 if rng.random() < pw else 0])
            started = True
        else:
            cnt = rng.choice([2, 2, 3, 4])
            pid = pid % 65535 + 1
            if rng.random() < 0.3:
                addrs = [rng.choice(small)] * cnt
            else:
                addrs = [rng.choice(small) for _ in range(cnt)]
            order = list(range(cnt))
            rng.shuffle(order)
            fo = frag_ops(pid, addrs, order, fault=1 if rng.random() < 0.04 else 0,
                          werr_at=(cnt - 1) if rng.random() < pw else None)
            r = rng.random()
            if r < 0.12:
                fo = fo[:-1]                                   # abandoned
            elif r < 0.22:
                fo.insert(rng.randrange(len(fo)), list(rng.choice(fo)))   # a duplicate
            elif r < 0.30:
                fo.insert(rng.randrange(1, len(fo) + 1), [0, rng.choice(small), 0, 0])   # a complete datagram in between
            ops += fo
            started = True
    return {"pool": POOL, "allowed": sorted(allowed), "hook": hook, "ops": ops}


# ---- twins: distinct destination strings that a cache keyed on a digest / a normalised form would confuse ----------
_M32 = 0xFFFFFFFF


def _seq_hashes():
    """32-bit digests computed byte by byte: name -> (initial state, update(state, bytes) -> state, final(state) -> key)"""
    import zlib

    def fnv1a(h, bs):
        for b in bs:
            h = ((h ^ b) * 16777619) & _M32
        return h

    def fnv1(h, bs):
        for b in bs:
            h = ((h * 16777619) & _M32) ^ b
        return h

    def fnv64lo(h, bs):      # low half of 64-bit FNV-1a (prime 0x100000001b3): depends on the low half of the state only
        for b in bs:
            h = ((h ^ b) * 0x1b3) & _M32
        return h

    def fnv64(h, bs):
        for b in bs:
            h = ((h ^ b) * 0x100000001b3) & 0xFFFFFFFFFFFFFFFF
        return h

    def java31(h, bs):
        for b in bs:
            h = (31 * h + b) & _M32
        return h

    def djb2(h, bs):
        for b in bs:
            h = (33 * h + b) & _M32
        return h

    def sdbm(h, bs):
        for b in bs:
            h = (b + (h << 6) + (h << 16) - h) & _M32
        return h
    ident = lambda h: h
    return {
        "fnv1a32": (2166136261, fnv1a, ident),
        "fnv1-32": (2166136261, fnv1, ident),
        "crc32": (0, lambda h, bs: zlib.crc32(bs, h), ident),
        "adler32": (1, lambda h, bs: zlib.adler32(bs, h), ident),
        "java31": (0, java31, ident),
        "fnv1a64-low32": (0x84222325, fnv64lo, ident),
        "djb2": (5381, djb2, ident),
        "sdbm": (0, sdbm, ident),
        "fnv1a64-fold32": (0xcbf29ce484222325, fnv64, lambda h: (h >> 32) ^ (h & _M32)),
    }


TWIN_HASHES_QUICK = ["fnv1a32", "fnv1-32", "crc32", "adler32", "java31", "fnv1a64-low32", "djb2", "md5-32", "sha256-32"]
TWIN_HASHES_ALL = TWIN_HASHES_QUICK + ["sdbm", "fnv1a64-fold32", "sha1-32"]
_TWIN_DOMS = ["cdn.example.net", "edge.example.org", "dns.example.com", "srv.example.net", "gw.example.org"]
_TWIN_CACHE = {}


def find_twins(rng, hname, want=2, nhosts=400, nports=512):
    """seeded birthday search: up to `want` pairs of distinct host:port strings with equal 32-bit digest under hname.
    Candidates are nhosts x nports strings `<label><k>.<domain>:<port>`; the state after `host:` is shared by a host's ports."""
    import hashlib
    seq = _seq_hashes()
    pairs = []
    for attempt in range(4):
        dom = rng.choice(_TWIN_DOMS)
        lab = rng.choice(["n", "a", "px", "s", "u"])
        hosts = ["%s%d.%s" % (lab, k, dom) for k in rng.sample(range(1, 100000), nhosts)]
        ports = [str(p).encode() for p in rng.sample(range(1, 65536), nports)]
        seen = {}
        if hname in seq:
            init, upd, fin = seq[hname]
            for h in hosts:
                st = upd(init, (h + ":").encode())
                for pb in ports:
                    v = fin(upd(st, pb))
                    o = seen.get(v)
                    if o is None:
                        seen[v] = (h, pb)
                    else:
                        pairs.append((o[0] + ":" + o[1].decode(), h + ":" + pb.decode()))
                        if len(pairs) >= want:
                            return pairs
        else:
            mk = getattr(hashlib, hname.split("-")[0])
            for h in hosts:
                st = mk((h + ":").encode())
                for pb in ports:
                    x = st.copy()
                    x.update(pb)
                    v = x.digest()[:4]
                    o = seen.get(v)
                    if o is None:
                        seen[v] = (h, pb)
                    else:
                        pairs.append((o[0] + ":" + o[1].decode(), h + ":" + pb.decode()))
                        if len(pairs) >= want:
                            return pairs
        if pairs:
            return pairs
    return pairs


def normalisation_twins(rng):
    """pairs of distinct strings equal after a normalisation a cache key might apply"""
    k = rng.randrange(1, 9000)
    port = rng.randrange(1024, 65000)
    long = "".join(rng.choice("abcdefghijklmnopqrstuvwxyz0123456789") for _ in range(64))
    return [
        ("letter-case", "Api%d.Example.NET:%d" % (k, port), "api%d.example.net:%d" % (k, port)),
        ("trailing-dot", "api%d.example.net.:%d" % (k, port), "api%d.example.net:%d" % (k, port)),
        ("port-dropped", "api%d.example.net:%d" % (k, port), "api%d.example.net:%d" % (k, port + 1)),
        ("host-dropped", "api%d.example.net:%d" % (k, port), "api%d.example.org:%d" % (k + 1, port)),
        ("first-64-bytes", "%s.a%d.example.net:%d" % (long, k, port), "%s.b%d.example.org:%d" % (long, k, port + 7)),
        ("last-64-bytes", "a%d.%s:%d" % (k, long, port), "b%d.%s:%d" % (k + 1, long, port)),
        ("ip-forms", "[::ffff:192.0.2.%d]:%d" % (k % 250 + 1, port), "192.0.2.%d:%d" % (k % 250 + 1, port)),
        ("leading-zero-port", "api%d.example.net:0%d" % (k, port), "api%d.example.net:%d" % (k, port)),
    ]


def twin_histories(rng, kind, sa, sd, rich):
    """sessions over a pair of twins: pool index iA (named sa) is ALLOWED, iD (named sd) is REJECTED"""
    iA, iD, o1, o2, o3, x1, x2 = rng.sample(range(1, POOL), 7)     # o*: other allowed, x*: other rejected
    allowed = sorted([iA, o1, o2, o3])
    names = {str(iA): sa, str(iD): sd}
    pid = [rng.randrange(1, 60000)]

    def nxt():
        pid[0] = pid[0] % 65535 + 1
        return pid[0]

    def mk(hook, ops):
        return {"pool": POOL, "allowed": allowed, "hook": hook, "ops": ops, "names": names, "twins": kind}
    cases = []
    # the allowed twin is the session's first destination (vetted by the dial), then the rejected one
    cases.append(mk([0], [[0, iA, 0], [0, iD, 0], [0, iA, 0], [0, iD, 0], [1, iD], [0, o1, 0], [0, iD, 0], [0, x1, 0]]))
    # the allowed twin gets its verdict from CheckUDP, then the rejected one
    cases.append(mk([0], [[0, o1, 0], [0, iA, 0], [0, iD, 0], [0, x1, 0], [0, iD, 0], [0, iA, 0], [1, iA], [0, iD, 0, 1]]))
    # the rejected twin first: the allowed one must still be forwarded
    cases.append(mk([0], [[0, o1, 0], [0, iD, 0], [0, iA, 0], [0, iA, 0], [0, x1, 0], [0, iD, 0], [0, iA, 0, 1], [0, iA, 0]]))
    # the rejected twin is the first datagram (dial refused, entry gone), then a session on the allowed one
    cases.append(mk([0], [[0, iD, 0], [0, iA, 0], [0, iD, 0], [2], [0, iD, 0], [0, o2, 0], [0, iD, 0], [0, iA, 0], [0, iD, 0]]))
    # fragments: both fragments name the rejected twin / the fragments name one twin each, in both arrival orders
    cases.append(mk([0], [[0, iA, 0]] + frag_ops(nxt(), [iD, iD], [1, 0]) + frag_ops(nxt(), [iA, iD], [0, 1])
                    + frag_ops(nxt(), [iA, iD], [1, 0]) + frag_ops(nxt(), [iD, iA, iD], [2, 0, 1]) + [[0, iD, 0]]))
    cases.append(mk([0], [[0, o1, 0]] + frag_ops(nxt(), [iD, iD], [0, 1]) + frag_ops(nxt(), [iA, iA], [1, 0])
                    + frag_ops(nxt(), [iD, iA], [0, 1]) + frag_ops(nxt(), [iA, iD], [0, 1], werr_at=1) + [[0, iA, 0]]))
    if rich:
        # the first datagram of the session is fragmented and names the allowed twin; later the rejected one
        cases.append(mk([0], frag_ops(nxt(), [iA, iA], [1, 0]) + [[0, iD, 0]] + frag_ops(nxt(), [iD, iD, iD], [0, 2, 1]) + [[0, iA, 0]]))
        # hooked sessions: rewrite-all, and rewrite-some with the first destination rewritten / not rewritten
        cases.append(mk([1, o1], [[0, iA, 0], [0, iD, 0], [1, o1], [0, iA, 0], [2], [0, iD, 0], [0, iA, 0], [0, iD, 0]]))
        k = 2
        ev = [a for a in (iA, o2, o3, x1, x2) if a % k == 0]
        od = [a for a in (iA, o1, o2, o3) if a % k]
        if ev:
            cases.append(mk([2, k, o1], [[0, ev[0], 0], [0, iA, 0], [0, iD, 0], [0, iA, 0]]))
        if od:
            cases.append(mk([2, k, o1], [[0, od[0], 0], [0, iA, 0], [0, iD, 0], [0, iA, 0], [2], [0, od[0], 0], [0, iD, 0], [0, iA, 0]]))
        # the hook rewrites the first destination to the allowed twin itself / the session is closed in between
        cases.append(mk([1, iA], [[0, iA, 0], [0, iD, 0], [0, iA, 0], [2], [0, o1, 0], [0, iD, 0]]))
        # interleaved with a handful of other destinations, both orders, dial fault at the start
        others = [o1, o2, o3, x1, x2]
        ops = [[0, iA, 1], [0, o1, 0]]
        seq = [iA, iD] if rng.random() < 0.5 else [iD, iA]
        for j in range(14):
            ops.append([0, rng.choice(others), 0])
            if j % 3 == 1:
                ops.append([0, seq[(j // 3) % 2], 0])
            if j == 8:
                ops.append([1, iD])
        ops += [[0, iD, 0], [0, iA, 0]]
        cases.append(mk([0], ops))
    return cases


def twin_random_session(rng, kind, sa, sd):
    """a random mixed session (complete / fragmented datagrams, replies, closes, faults, write errors) whose small working
    set contains both twins"""
    for _ in range(20):
        c = gen_frag_session(rng)
        used = sorted({op[1] for op in c["ops"] if op[0] in (0, 3)})
        al = [a for a in used if a in c["allowed"]]
        de = [a for a in used if a not in c["allowed"]]
        if al and de:
            c["names"] = {str(rng.choice(al)): sa, str(rng.choice(de)): sd}
            c["twins"] = kind
            return c
    return None


def gen_twins(rng, tier):
    quick = tier == "quick"
    import random
    cases = []
    key = (rng.getrandbits(48), tier)
    if key not in _TWIN_CACHE:           # the search is the expensive part: once per (seed, tier) and process
        rs = random.Random(key[0])
        found = []
        for hn in (TWIN_HASHES_QUICK if quick else TWIN_HASHES_ALL):
            for a, b in find_twins(rs, hn, want=1 if quick else 3):
                found.append((hn, a, b, True))
        _TWIN_CACHE[key] = found
    pairs = list(_TWIN_CACHE[key])
    for kind, a, b in normalisation_twins(rng):
        pairs.append((kind, a, b, False))
    for kind, a, b, digest in pairs:
        if rng.random() < 0.5:
            a, b = b, a
        cases += twin_histories(rng, kind, a, b, rich=(not quick) or digest)
        for _ in range(1 if quick else 6):
            c = twin_random_session(rng, kind, a, b)
            if c:
                cases.append(c)
    # one pair after a sweep that fills the decision cache (and one that overflows it)
    for n in ((254,) if quick else (200, 254, 255, 256, 300)):
        kind, a, b, _ = rng.choice(pairs)
        iA, iD = rng.sample(range(1, POOL), 2)
        sweep = [x for x in range(1, POOL) if x not in (iA, iD)][:n]
        al = sorted([iA] + [x for x in sweep if x % 3])
        ops = [[0, sweep[1], 0]] + [[0, x, 0] for x in sweep] + [[0, iA, 0], [0, iD, 0], [0, iA, 0], [0, iD, 0]]
        cases.append({"pool": POOL, "allowed": al, "hook": [0], "ops": ops, "names": {str(iA): a, str(iD): b}, "twins": kind})
    return cases


def gen(rng, tier):
    nq = 90 if tier == "quick" else 2500
    cases = []
    # fixed corner: two destinations, denied then allowed then denied (the suite's scenario reversed), cap boundary sweeps
    cases.append({"pool": POOL, "allowed": [1, 3], "hook": [0], "ops": [[0, 1, 0], [0, 2, 0], [0, 3, 0], [0, 2, 0], [0, 1, 0], [0, 2, 0]]})
    cases.append({"pool": POOL, "allowed": [2], "hook": [0], "ops": [[0, 1, 0], [0, 2, 0], [0, 1, 0], [1, 5], [0, 2, 0]]})
    for n in (255, 256, 257):
        ops = [[0, 1 + j, 0] for j in range(n)] * 2
        cases.append({"pool": POOL, "allowed": [a for a in range(1, POOL) if a % 3], "hook": [0], "ops": ops})
    cases.append({"pool": POOL, "allowed": [5], "hook": [1, 5], "ops": [[0, 1, 0], [0, 2, 0], [1, 9], [0, 5, 0], [2], [0, 5, 0], [1, 9], [0, 6, 0]]})
    cases += [dict(c) for c in EDGE_CASES]
    for i in range(nq):
        cases.append(gen_session(rng, big=(i % 25 == 0)))
    # fragments that disagree about the destination; write errors (a separate stream of the generator, so the
    # sessions above are the same as before for a given seed)
    import random
    rng2 = random.Random(rng.randrange(2 ** 32))
    for _ in range(1 if tier == "quick" else 6):
        cases += gen_frag_directed(rng2)
        cases += gen_werr_directed(rng2)
    for _ in range(60 if tier == "quick" else 1500):
        cases.append(gen_frag_session(rng2))
    # twins (again a stream of its own)
    rng3 = random.Random(rng.randrange(2 ** 32))
    cases += gen_twins(rng3, tier)
    return cases


def nl(xs):
    return "[" + ";".join(str(x) for x in xs) + "]"


OBS_STATE = {"unavailable": 0, "truncated": 0, "status": None, "steps_dropped": 0}


def oracle_available(o):
    """the harness could read the decision cache's keys (the model's eviction oracle)"""
    ob = o.get("obs")
    return ob is None or ob.get("aclCache") == "ok"


def comparable_prefix(c, o):
    """Without the eviction oracle the model can follow the implementation only while no eviction can have happened:
    number of leading steps before the first CheckUDP consultation at which the decision cache of the session may
    already hold `cap` entries (1 for the destination the dial vetted + one per consultation since; an upper bound
    whatever the cache is keyed on)."""
    cap = o.get("cap", 0)
    count = 0
    for i, (op, s) in enumerate(zip(c["ops"], o["steps"])):
        if op[0] in (0, 3):
            if s[0] & 32:              # dialed: a fresh entry
                count = 1
            if s[0] % 4 == 2:          # entry gone
                count = 0
            if s[0] & 4:               # consulted: one more entry, after an eviction if the cache is full
                if count >= cap:
                    return i
                count += 1
        elif op[0] == 2:
            count = 0
    return len(o["steps"])


def to_coq(c, o):
    if o.get("panic") or "steps" not in o:
        return None
    h = c["hook"]
    hm = "HMOff" if h[0] == 0 else "(HMConst %d)" % h[1] if h[0] == 1 else "(HMMod %d %d)" % (h[1], h[2]) if h[0] == 2 else "HMErr"
    st = []
    nsteps = len(o["steps"])
    if not oracle_available(o):
        # the exact comparison needs the evicted key; fall back to the eviction-free prefix of the history
        OBS_STATE["unavailable"] += 1
        OBS_STATE["status"] = (o.get("obs") or {}).get("aclCache")
        nsteps = comparable_prefix(c, o)
        if nsteps < len(o["steps"]):
            OBS_STATE["truncated"] += 1
            OBS_STATE["steps_dropped"] += len(o["steps"]) - nsteps
    for op, s in list(zip(c["ops"], o["steps"]))[:nsteps]:
        if op[0] in (0, 3):
            a = op[1]
            pid, fid, cnt = (op[4], op[5], op[6]) if op[0] == 3 else (0, 0, 1)
            chk = s[4] if len(s) > 4 else (a if s[0] & 4 else 0)
            plain = cnt <= 1 and chk == (a if s[0] & 4 else 0)      # SD: a consulted CheckUDP was consulted for a itself
            short = {0: "Fc", 4: "Fk", 1: "Dc", 5: "Dk"}.get(s[0])
            if plain and short and s[1] == (a if s[0] % 4 == 0 else 0) and s[2] == 0 and s[3] == 0:
                st.append("%s %d" % (short, a))
            elif plain and s[0] == 20 and s[1] == a and s[3] == 0:
                st.append("Fe %d %d" % (a, s[2]))
            elif plain and s[0] == 21 and s[1] == 0 and s[3] == 0:
                st.append("De %d %d" % (a, s[2]))
            elif plain:
                st.append("SD %d %d %d %d %d" % (a, s[0], s[1], s[2], s[3]))
            elif s[0] == 1 and s[1] == 0 and s[2] == 0 and s[3] == 0 and chk == 0:
                st.append("Nf %d %d %d %d" % (pid, fid, cnt, a))
            else:
                st.append("SM %d %d %d %d %d %d %d %d %d" % (pid, fid, cnt, a, s[0], s[1], s[2], s[3], chk))
        elif op[0] == 1:
            st.append("SR %d %d %d" % (op[1], s[0], s[1]))
        else:
            st.append("SC")
    al = set(c["allowed"])
    bits = [sum(1 << j for j in range(24) if 24 * w + j in al) for w in range((c["pool"] + 23) // 24)]
    return "CSess %s %s [%s]" % (nl(bits), hm, ";".join(st))


def _stats(c, o):
    ev = den = fwd = 0
    for op, s in zip(c["ops"], o.get("steps") or []):
        if op[0] in (0, 3):
            if s[0] & 16:
                ev += 1
            if s[0] % 4 == 1 and (op[0] == 0 or s[0] & 4):
                den += 1
            if s[0] % 4 == 0:
                fwd += 1
    return ev, den, fwd


def _frag_stats(c, o):
    """(datagrams completed from fragments that disagree about the destination, write errors that reached the socket)"""
    dis = wf = 0
    cur = {}
    for op, s in zip(c["ops"], o.get("steps") or []):
        if op[0] == 3 and op[6] > 1:
            key = (op[4], op[6])
            if cur.get("key") != key:
                cur = {"key": key, "addrs": set()}
            cur["addrs"].add(op[1])
            if s and (s[0] % 4 == 0 or s[0] & 4) and len(cur["addrs"]) > 1:
                dis += 1
        if op[0] in (0, 3) and s and s[0] & 128:
            wf += 1
    return dis, wf


def klass(c, o):
    ev, den, fwd = _stats(c, o)
    h = {0: "nohook", 1: "hook-all", 2: "hook-some", 3: "hook-err"}[c["hook"][0]]
    n = len(c["ops"])
    dis, wf = _frag_stats(c, o)
    frag = any(op[0] == 3 for op in c["ops"])
    return "%s:%s:%s%s%s%s%s" % (h, "len<=256" if n <= 256 else "len<=700" if n <= 700 else "len>700",
                                 "evict" if ev else "noevict", "+deny" if den else "",
                                 "+frag-disagree" if dis else "+frag" if frag else "", "+write-error" if wf else "",
                                 "+twins" if c.get("names") else "")


def nontrivial(c, o):
    ev, den, fwd = _stats(c, o)
    dis, wf = _frag_stats(c, o)
    return ev > 0 or den > 0 or (c["hook"][0] in (1, 2) and fwd > 0) or dis > 0 or wf > 0


def fingerprint(c, o):
    h = c["hook"]
    if (h[0] == 1 and h[1] == 0 or h[0] == 2 and h[2] == 0) and 0 in c["allowed"]:
        # hook rewrote the destination to the empty string and the outbound accepted "": OverrideAddr == "" is read as
        # "no override", the original (unchecked) destination is seeded into the cache as allowed
        return "hook-rewrite-to-empty-string-seeds-unchecked-destination"
    return None


def search(ctx, disagreeing):
    import random
    found = []
    for s in range(3):
        rng = random.Random(ctx.seed * 1000 + s + 17)
        cases = gen(rng, "quick")
        ok, outs, _, log = common.run_go_cases(ctx, GO, cases, tag="search%d" % s)
        for c, o in zip(cases, outs):
            if o.get("ok") is False:
                found.append({"what": "session: %s" % o.get("why"), "replay": {"case": c, "impl": o},
                              "fingerprint": fingerprint(c, o), "found_input": True})
                break
        if found:
            break
    return found


# ---- second stream: the real extras/outbounds ACL engine behind PluggableOutboundAdapter (no Coq model: the
# harness verdict is "CheckUDP(addr)==nil iff UDP(addr) succeeds, both routed to the same outbound/address")
GO_ACL = dict(module="extras", pkg="outbounds", pkgname="outbounds",
              files={"zz_verif_c08acl_test.go": "c08acl/c08acl_test.go"}, run="TestVerifC08ACL")


def gen_acl(rng, tier):
    n = 40 if tier == "quick" else 600
    hosts = ["a.example.com", "b.example.com", "example.org", "x.y.example.net", "1.2.3.4", "10.0.0.7", "[2001:db8::1]",
             "8.8.8.8", "dns.google", "localhost"]
    pats = ["all", "*.example.com", "suffix:example.com", "example.org", "1.2.3.0/24", "10.0.0.0/8", "2001:db8::/32",
            "8.8.8.8", "*.google", "x.y.example.net"]
    cases = []
    for _ in range(n):
        nob = rng.randint(1, 3)
        obs = ["ob%d" % j for j in range(nob)]
        allow = [rng.random() < 0.6 for _ in obs]
        names = obs + ["reject", "direct", "default"]
        if rng.random() < 0.3:
            obs.append("direct")       # override the built-in direct (it would open real sockets)
            allow.append(rng.random() < 0.5)
        rules = []
        for _ in range(rng.randint(1, 8)):
            ob = rng.choice([x for x in names if x != "direct" or "direct" in obs])
            pat = rng.choice(pats)
            pp = rng.choice(["", "", ", udp", ", tcp", ", udp/53", ", tcp/53", ", udp/1-1000", ", */443", ", udp/443", ", tcp/443"])
            hj = rng.choice(["", "", "", ", 9.9.9.9"]) if pp else ""
            rules.append("%s(%s%s%s)" % (ob, pat, pp, hj))
        if "direct" not in obs:
            rules.append("%s(all)" % rng.choice(obs + ["reject"]))   # never fall through to the real direct outbound
            if obs[0] == "default":
                pass
        addrs = ["%s:%d" % (rng.choice(hosts), rng.choice([53, 443, 80, 1000, 1001, 65535, 0])) for _ in range(12)]
        addrs += ["noport.example.com", "a.example.com:99999", ":53", ""]
        cases.append({"rules": "\n".join(rules), "obs": obs, "allow": allow, "addrs": addrs})
    return cases


# ---- pipeline class "resolve": resolver stage (static table) -> ACL engine -> fake outbounds.  Destinations are host
# names that resolve (v4 / v6 / both / neither / lookup error) into, next to, or at the edge of the CIDR and IP rules.
# The generator evaluates its own rules first-match (python ipaddress) and ships the verdict with every address.
R_NAMES = ["int.corp.example", "db.corp.example", "www.example.com", "cdn.example.net", "v6only.example.org",
           "dual.example.org", "nx.example.org", "blocked.example", "mail.example.com", "a.b.example.net"]
R_NETS4 = ["10.0.0.0/8", "192.168.0.0/16", "172.16.0.0/12", "100.64.0.0/10", "203.0.113.0/24", "198.51.100.128/25", "0.0.0.0/0"]
R_NETS6 = ["fd00::/8", "2001:db8::/32", "fe80::/10", "2001:db8:aa::/48", "::/0"]
R_PP = ["", "", "", "udp", "tcp", "udp/53", "*/53", "udp/1-1000", "tcp/443", "*", "udp/1001-65535", "*/*"]


def _parse_pp(pp):
    """-> (protocols matching: set of 'tcp','udp'), start, end"""
    if pp in ("", "*", "*/*"):
        return {"tcp", "udp"}, 0, 65535
    parts = pp.split("/", 1)
    pr = {"tcp", "udp"} if parts[0] == "*" else {parts[0]}
    if len(parts) == 1 or parts[1] == "*":
        return pr, 0, 65535
    if "-" in parts[1]:
        a, b = parts[1].split("-")
        return pr, int(a), int(b)
    return pr, int(parts[1]), int(parts[1])


def _rand_in(rng, net, edge):
    import ipaddress
    n = ipaddress.ip_network(net)
    if n.prefixlen == 0:
        off = rng.randrange(1, 2 ** 24)
    elif edge:
        off = rng.choice([0, n.num_addresses - 1])
    else:
        off = rng.randrange(n.num_addresses)
    return n.network_address + off


def _rand_out(rng, net):
    import ipaddress
    n = ipaddress.ip_network(net)
    if n.prefixlen == 0:
        return None
    # just below / just above the block, or far away
    cands = []
    lo, hi = int(n.network_address), int(n.broadcast_address)
    mx = 2 ** n.max_prefixlen - 1
    if lo > 0:
        cands.append(lo - 1)
    if hi < mx:
        cands.append(hi + 1)
    cands.append(lo ^ (1 << (n.max_prefixlen - 1)))
    return n.network_address.__class__(rng.choice(cands))


def acl_first_match(rules, obs, allow, name, v4, v6, port):
    """python reference of RuleSet.Match + aclEngine default for one UDP query. rules: (ob, kind, pat, pp).
    Returns True (allowed) / False (refused)."""
    import ipaddress
    verdict = {"reject": False, "direct": True, "default": allow[0]}     # the built-ins ...
    verdict.update({o.lower(): a for o, a in zip(obs, allow)})           # ... unless a user entry carries the name
    for ob, kind, pat, pp in rules:
        pr, sp, ep = _parse_pp(pp)
        if "udp" not in pr or not (sp <= port <= ep):
            continue
        if kind == "all":
            hit = True
        elif kind == "cidr":
            n = ipaddress.ip_network(pat)
            hit = any(x is not None and x.version == n.version and x in n for x in (v4, v6))
        elif kind == "ip":
            a = ipaddress.ip_address(pat)
            hit = any(x is not None and x == a for x in (v4, v6))
        elif kind == "exact":
            hit = name == pat
        else:  # suffix
            hit = name == pat or name.endswith("." + pat)
        if hit:
            return verdict[ob.lower()]
    return verdict["default"]   # no rule matched: the default outbound = the first in the list (or the one named default)


# ---- real leaf outbounds (extras/outbounds): what UDP() of a FRESH session answers for ANY destination
LEAF_KINDS = ["direct:0", "direct:1", "direct:2", "direct:3", "direct:4", "socks5", "socks5auth", "http", "https"]
LEAF_NAMES = ["proxy", "corp", "tor", "upstream", "exit", "ob0", "ob1", "Wan", "lan", "HttpProxy", "s5"]


def leaf_udp_capable(kind):
    return not kind.startswith("http")


def gen_leaf_set(rng):
    """outbound entries (name, kind) for the ACL engine: leaves of every kind under user-chosen names, some of which
    do not carry UDP; always an entry called direct (the built-in one would send real packets), now and then entries
    called reject / default of any kind. kind "" = the recording fake with an allow flag. The first entry is the default."""
    nob = rng.randint(1, 4)
    names = rng.sample(LEAF_NAMES, nob)
    kinds = [rng.choice(LEAF_KINDS + ["", ""]) for _ in names]
    if rng.random() < 0.75 and not any(k.startswith("http") for k in kinds):
        kinds[rng.randrange(nob)] = rng.choice(["http", "https"])        # a leaf without UDP
    names.append("direct")
    kinds.append(rng.choice(LEAF_KINDS[:5]) if rng.random() < 0.85 else rng.choice(LEAF_KINDS[5:] + [""]))
    if rng.random() < 0.12:
        names.append("reject")
        kinds.append(rng.choice(LEAF_KINDS + [""]))
    if rng.random() < 0.12:
        names.append("default")
        kinds.append(rng.choice(LEAF_KINDS + [""]))
    order = list(range(len(names)))
    rng.shuffle(order)
    if rng.random() < 0.45:
        # the common deployment: the proxy is the first (= default) outbound, a few destinations go direct
        px = [i for i in order if kinds[i].startswith("http")]
        if px:
            order.remove(px[0])
            order.insert(0, px[0])
    names = [names[i] for i in order]
    kinds = [kinds[i] for i in order]
    allow = [(rng.random() < 0.6) if k == "" else leaf_udp_capable(k) for k in kinds]
    return names, allow, kinds


def gen_acl_resolve(rng, n, leafy=False):
    import ipaddress
    cases = []
    for ci in range(n):
        nob = rng.randint(1, 3)
        obs = ["ob%d" % j for j in range(nob)]
        allow = [rng.random() < 0.7 for _ in obs]
        kinds = None
        if leafy:
            obs, allow, kinds = gen_leaf_set(rng)
        elif ci % 3 == 0:
            allow[0] = True      # the default outbound accepts: a rule that is skipped means "allowed"
        nets = rng.sample(R_NETS4, rng.randint(1, 2)) + rng.sample(R_NETS6, rng.randint(0, 2))
        names = rng.sample(R_NAMES, rng.randint(4, 7))
        table = {}
        ips = []
        for nm in names:
            k = rng.random()
            v4 = v6 = None
            n4 = [x for x in nets if ":" not in x]
            n6 = [x for x in nets if ":" in x]

            def pick(nl, fallback):
                net = rng.choice(nl) if nl else fallback
                r = rng.random()
                if r < 0.55:
                    return _rand_in(rng, net, edge=rng.random() < 0.3)
                return _rand_out(rng, net) or _rand_in(rng, net, False)
            if k < 0.08:
                continue                                   # lookup error
            if k < 0.14:
                table[nm] = ["", ""]                       # resolves to nothing
                continue
            if k < 0.55 or not n6 and k < 0.7:
                v4 = pick(n4, "10.0.0.0/8")
            elif k < 0.72:
                v6 = pick(n6, "fd00::/8")
            else:
                v4, v6 = pick(n4, "10.0.0.0/8"), pick(n6, "fd00::/8")
            table[nm] = [str(v4) if v4 is not None else "", str(v6) if v6 is not None else ""]
            ips += [x for x in (v4, v6) if x is not None]
        rules = []
        for _ in range(rng.randint(1, 6)):
            ob = rng.choice(obs + ["reject", "reject", "default"])
            if leafy:
                ob = rng.choice(obs + obs + ["reject", "default", "direct"])
                if rng.random() < 0.2:
                    ob = rng.choice([ob.upper(), ob.lower(), ob.capitalize()])      # outbound names are case-insensitive
            r = rng.random()
            if r < 0.45:
                kind, pat = "cidr", rng.choice(nets)
            elif r < 0.65 and ips:
                kind, pat = "ip", str(rng.choice(ips))
            elif r < 0.75:
                kind, pat = "exact", rng.choice(names)
            elif r < 0.85:
                kind, pat = "suffix", rng.choice(["example.com", "corp.example", "example.org", "example.net", "example"])
            elif r < 0.92:
                kind, pat = "ip", str(_rand_in(rng, rng.choice(nets), False))
            else:
                kind, pat = "all", "all"
            rules.append((ob, kind, pat, rng.choice(R_PP)))
        if rng.random() < 0.6:
            rules.append((rng.choice(obs + ["reject"]), "all", "all", ""))
        lines, rf = [], []
        for ob, kind, pat, pp in rules:
            ptxt = ("suffix:" + pat) if kind == "suffix" else pat
            hj = ""
            if pp and rng.random() < 0.2:
                hj = rng.choice(["9.9.9.9", "2001:db8::9"])
            lines.append("%s(%s%s%s)" % (ob, ptxt, ", " + pp if pp else "", ", " + hj if hj else ""))
            rf.append([ob, ptxt, pp, hj])
        hosts = list(names) + [nm for nm in R_NAMES if nm not in names][:1]
        lits = [str(x) for x in ips[:3]] + [str(_rand_in(rng, rng.choice(nets), False))]
        addrs, expect, order, qhosts = [], [], [], []
        for _ in range(14):
            port = rng.choice([53, 53, 443, 1000, 1001, 0, 65535])
            if rng.random() < 0.75:
                h = rng.choice(hosts)
                e = table.get(h)
                v4 = ipaddress.ip_address(e[0]) if e and e[0] else None
                v6 = ipaddress.ip_address(e[1]) if e and e[1] else None
                a = "%s:%d" % (h, port)
            else:
                h = rng.choice(lits)
                x = ipaddress.ip_address(h)
                v4, v6 = (x, None) if x.version == 4 else (None, x)
                a = ("%s:%d" if x.version == 4 else "[%s]:%d") % (h, port)
            addrs.append(a)
            qhosts.append([h, port])
            expect.append(1 if acl_first_match(rules, obs, allow, h, v4, v6, port) else 0)
            order.append(rng.randrange(4))
        cases.append({"rules": "\n".join(lines), "obs": obs, "allow": allow, "addrs": addrs, "resolve": table,
                      "expect": expect, "order": order, "rf": rf, "qhosts": qhosts})
        if kinds is not None:
            cases[-1]["kinds"] = kinds
    return cases


# ---- third stream: sessions through the real udpSessionManager.feed with the pipeline (resolver -> ACL -> outbounds,
# behind PluggableOutboundAdapter) as the outbound; the first destination of a session is mostly an allowed one, the
# later ones mix allowed / refused-by-name / refused-by-resolved-address destinations
GO_CHAIN = dict(module="core", pkg="server", pkgname="server",
                files={"zz_verif_udpenv_test.go": "c07/udpenv_test.go", "zz_verif_c08chain_test.go": "c08/c08chain_test.go",
                       "zz_verif_c08chainx_test.go": "c08/c08chainx_test.go", "zz_verif_c08impl_test.go": "c08/c08impl_test.go"},
                run="TestVerifC08Chain")


def gen_chain(rng, n, leafy=False):
    cases = []
    for c in gen_acl_resolve(rng, n, leafy=leafy):
        dsts, expect = [], []
        for a, e in zip(c["addrs"], c["expect"]):
            if a not in dsts:
                dsts.append(a)
                expect.append(e)
        ok_i = [i for i, e in enumerate(expect) if e == 1]
        ops = []
        fresh = True
        for _ in range(rng.randint(6, 40)):
            if not fresh and rng.random() < 0.06:
                ops.append([2])
                fresh = True
                continue
            if fresh and ok_i and rng.random() < 0.85:
                ops.append([0, rng.choice(ok_i)])
            else:
                ops.append([0, rng.randrange(len(dsts))])
            fresh = False
        cases.append({"spec": {"rules": c["rules"], "obs": c["obs"], "allow": c["allow"], "resolve": c["resolve"]},
                      "dsts": dsts, "expect": expect, "ops": ops})
        if "kinds" in c:
            cases[-1]["spec"]["kinds"] = c["kinds"]
            cases[-1]["leaves"] = True
    return cases


# ---- fourth stream: the policy FAILS.  Sessions through the real udpSessionManager.feed whose udpIO is the server's own
# udpIOImpl (Hook / UDP / CheckUDP), Config.Outbound / Config.RequestHook being fakes with THREE outcomes per destination:
# allowed (1), rejected (0), fails (2..5, 8, 9: panics of several kinds; 6, 7: unusual error values, which are rejections)
IMPL_POOL = 48
IMPL_FAIL_KINDS = [2, 3, 4, 5, 8, 9]
IMPL_ODD_ERRORS = [6, 7]
IMPL_BAD_NAMES = ["192.0.2.9:", "h7.example.net", "[::1", ":53", "example.org:99999", "198.51.100.7:http", "a b:53", "[fe80::1%eth0]:"]


def impl_outcome3(k):
    """Coq's three outcomes: 0 rejected, 1 allowed, 2 fails (a panic propagates)"""
    return k if k in (0, 1) else 0 if k in IMPL_ODD_ERRORS else 2


def gen_impl_session(rng):
    pool = IMPL_POOL
    dens = rng.choice([0.3, 0.5, 0.5, 0.7])
    pf = rng.choice([0.1, 0.2, 0.3, 0.5])
    out = [0] * pool
    for a in range(1, pool):
        x = rng.random()
        if x < dens:
            out[a] = 1
        elif x < dens + (1 - dens) * pf:
            out[a] = rng.choice(IMPL_FAIL_KINDS + IMPL_FAIL_KINDS + IMPL_ODD_ERRORS)
    okl = [a for a in range(1, pool) if out[a] == 1] or [1]
    if out[okl[0]] != 1:
        out[okl[0]] = 1
    bad = [a for a in range(1, pool) if out[a] >= 2]
    if not bad:
        bad = [rng.choice([a for a in range(1, pool) if a not in okl] or [2])]
        out[bad[0]] = rng.choice(IMPL_FAIL_KINDS)
    den = [a for a in range(1, pool) if out[a] == 0] or bad
    names = {}
    for nm, a in zip(rng.sample(IMPL_BAD_NAMES, rng.randint(0, 4)), rng.sample(bad, min(4, len(bad)))):
        names[str(a)] = nm            # the destinations the policy chokes on are mostly ordinary, some are malformed
    hm = rng.random()
    if hm < 0.5:
        hook = [0]
    elif hm < 0.62:
        hook = [4]
    elif hm < 0.72:
        hook = [1, rng.choice(okl + bad[:1])]
    elif hm < 0.84:
        hook = [2, rng.choice([2, 3, 5]), rng.choice(okl + bad[:1])]
    elif hm < 0.88:
        hook = [3]
    elif hm < 0.94:
        hook = [5, rng.choice([2, 3, 7])]
    else:
        hook = [6, rng.choice([2, 3, 7])]
    work = rng.sample(range(1, pool), rng.choice([4, 8, 16]))
    ops = []
    fresh = True
    for _ in range(rng.randint(4, 45)):
        x = rng.random()
        if not fresh and x < 0.05:
            ops.append([2])
            fresh = True
            continue
        if fresh and rng.random() < 0.8:
            a = rng.choice(okl)
        elif x < 0.40:
            a = rng.choice(bad)
        elif x < 0.55:
            a = rng.choice(den)
        elif x < 0.8:
            a = rng.choice(okl)
        else:
            a = rng.choice(work)
        ops.append([0, a])
        if rng.random() < 0.25:
            ops.append([0, a])          # again at once: the second time the answer would come from the cache
        fresh = False
    return {"impl": True, "pool": pool, "out": out, "dmode": rng.choice([0, 0, 1]), "hook": hook, "names": names, "ops": ops}


def gen_impl_directed(rng):
    """the session comes up on an allowed destination; then, for every way of failing: rejected, failing, allowed, failing
    again (cache), across a close, as the first destination of the next session; without / with a RequestHook"""
    cases = []
    for k in IMPL_FAIL_KINDS + IMPL_ODD_ERRORS:
        A, B, D, F = rng.sample(range(1, IMPL_POOL), 4)
        out = [0] * IMPL_POOL
        out[A] = out[B] = 1
        out[F] = k
        names = {str(F): rng.choice(IMPL_BAD_NAMES)} if rng.random() < 0.6 else {}
        for hook in ([0], [4]):
            for dmode in (0, 1):
                ops = [[0, A], [0, D], [0, F], [0, A], [0, F], [0, B], [0, F], [2], [0, B], [0, F], [0, F], [0, D], [2], [0, F], [0, A], [0, F]]
                cases.append({"impl": True, "pool": IMPL_POOL, "out": out, "dmode": dmode, "hook": hook, "names": names, "ops": ops})
        # hooked: the session's one destination is the rewritten one, whatever the datagrams name
        cases.append({"impl": True, "pool": IMPL_POOL, "out": out, "dmode": 0, "hook": [1, B], "names": names,
                      "ops": [[0, A], [0, F], [0, D], [2], [0, F], [0, A]]})
        cases.append({"impl": True, "pool": IMPL_POOL, "out": out, "dmode": 1, "hook": [1, F], "names": names,
                      "ops": [[0, A], [0, F], [0, B]]})
    return cases


def gen_impl(rng, tier):
    cases = gen_impl_directed(rng)
    for _ in range(50 if tier == "quick" else 1200):
        cases.append(gen_impl_session(rng))
    return cases


def run_chain_stream(ctx):
    import random
    cases = gen_chain(random.Random(ctx.seed + 888), 60 if ctx.tier == "quick" else 900)
    # real leaf outbounds of every kind behind the ACL engine (same Go test binary)
    cases += gen_chain(random.Random(ctx.seed + 8888), 45 if ctx.tier == "quick" else 700, leafy=True)
    # policies that fail, through the real udpIOImpl (same Go test binary)
    cases += gen_impl(random.Random(ctx.seed + 88888), ctx.tier)
    ok, outs, _, log = common.run_go_cases(ctx, GO_CHAIN, cases, tag="chain")
    viol = []
    if not ok:
        ctx.say("Go harness (pipeline sessions) failed:\n" + log[-2000:])
        viol.append({"what": "tie broken: pipeline-session harness for C08 did not build/run against the current tree (%s)" % log.strip()[-300:],
                     "replay": {"broken": "go harness (pipeline sessions)", "log": log[-3000:]}, "found_input": False, "fingerprint": None})
    seen_why = set()
    fwd = drop = 0
    lf = {"sessions": 0, "forwarded": 0, "not_forwarded": 0, "refused_by_leaf_without_udp": 0}
    im = {"sessions": 0, "forwarded": 0, "not_forwarded": 0, "policy_failed_in_check": 0, "policy_failed_in_dial": 0}
    for c, o in zip(cases, outs):
        if c.get("impl"):
            im["sessions"] += 1
            for st in o.get("steps") or []:
                if st:
                    im["forwarded" if st[0] % 4 == 0 else "not_forwarded"] += 1
                    if st[0] % 4 == 3:
                        im["policy_failed_in_dial" if st[0] & 64 else "policy_failed_in_check"] += 1
        else:
            tgt = lf if c.get("leaves") else None
            if tgt is not None:
                tgt["sessions"] += 1
                kinds = dict(zip([x.lower() for x in c["spec"]["obs"]], c["spec"]["kinds"]))
            for op, st in zip(c["ops"], o.get("steps") or []):
                if st:
                    fwd += st[0]
                    drop += 1 - min(st[0], 1)
                    if tgt is not None:
                        tgt["forwarded"] += st[0]
                        tgt["not_forwarded"] += 1 - min(st[0], 1)
            if tgt is not None:
                tgt["refused_by_leaf_without_udp"] += sum(1 for a, ca in zip(o.get("allowed") or [], o.get("check_allows") or []) if not a and not ca)
        if o.get("ok") is False:
            k = re.sub(r"\d+", "N", re.sub(r"\([^)]*\)", "", re.sub(r'"[^"]*"', "Q", str(o.get("why"))))).split(":")[0]
            if k in seen_why:
                continue
            seen_why.add(k)
            label = "failing-policy session (real udpIOImpl)" if c.get("impl") else "pipeline session (real leaf outbounds)" if c.get("leaves") else "pipeline session"
            viol.append({"what": "%s: %s" % (label, o.get("why")), "replay": {"chain_case": c, "impl": o}, "fingerprint": None,
                         "found_input": True})
    nchain = sum(1 for c in cases if not c.get("impl"))
    ctx.say("pipeline sessions: %d sessions through udpSessionManager.feed, datagrams forwarded=%d not forwarded=%d "
            "(of these %d over real leaf outbounds: forwarded=%d not forwarded=%d); failing-policy sessions through the real "
            "udpIOImpl: %d, forwarded=%d not forwarded=%d, policy failed in CheckUDP=%d in the dial=%d"
            % (nchain, fwd, drop, lf["sessions"], lf["forwarded"], lf["not_forwarded"],
               im["sessions"], im["forwarded"], im["not_forwarded"], im["policy_failed_in_check"], im["policy_failed_in_dial"]))
    FAIL_STATE["leaf_obs"] = set()
    for c, o in zip(cases, outs):
        if c.get("leaves"):
            FAIL_STATE["leaf_obs"] |= leaf_observations(c, o)
    FAIL_STATE["cases"] = [c for c in cases if c.get("impl")]
    FAIL_STATE["outs"] = [o for c, o in zip(cases, outs) if c.get("impl")]
    return viol, {"evaluations": nchain, "datagrams_forwarded": fwd, "datagrams_not_forwarded": drop,
                  "real_leaf_outbounds": lf, "failing_policy_sessions": im}


FAIL_STATE = {"cases": [], "outs": [], "leaf_obs": set()}

HEADER_FAIL = ("From Hy Require Import lib.Harness model.C08_UDPPolicy model.C08_Fail corr.C08_Fail_Corr.\n"
               "From Coq Require Import NArith.\nLocal Open Scope N_scope.\n")


def fail_to_coq(c, o):
    """a failing-policy session as a CFail term (None: the harness produced nothing comparable)"""
    if o.get("panic") or "steps" not in o:
        return None
    h = c["hook"]
    hm = ("H3Off" if h[0] in (0, 4) else "(H3Const %d)" % h[1] if h[0] == 1 else "(H3Mod %d %d)" % (h[1], h[2]) if h[0] == 2
          else "H3Err" if h[0] == 3 else "(H3PanicMod %d)" % h[1])
    st = []
    for op, s_ in zip(c["ops"], o["steps"]):
        if op[0] == 0:
            st.append("FS %d %d %d %d" % (op[1], s_[0], s_[1], s_[2]))
        else:
            st.append("FC")
    return "CFail %s %s %s [%s]" % (nl([impl_outcome3(k) for k in c["out"]]), "true" if c["dmode"] else "false", hm, ";".join(st))


def leaf_of_kind(kind, allow):
    if kind.startswith("direct:"):
        return "LDirect"
    if kind.startswith("socks5"):
        return "(LSocks5 true)"
    if kind.startswith("http"):
        return "LHttp"
    return "(LFake %s)" % ("true" if allow else "false")


def leaf_observations(c, o):
    """(leaf, UDP() succeeded, CheckUDP() == nil) for every destination of a pipeline session over real leaves, by the
    outbound its CheckUDP was routed to; a destination that reached no recording outbound was answered by the built-in
    reject (the built-in direct is always overridden by an entry of that name)"""
    res = set()
    sp = c["spec"]
    kinds = {n.lower(): (k, a) for n, k, a in zip(sp["obs"], sp["kinds"], sp["allow"])}
    if "default" not in kinds:
        kinds["default"] = (sp["kinds"][0], sp["allow"][0])
    for rt, a, ca in zip(o.get("check_routes") or [], o.get("allowed") or [], o.get("check_allows") or []):
        if rt == "":
            if "reject" not in kinds:
                res.add(("LReject", bool(a), bool(ca)))
            continue
        k = kinds.get(rt.lower())
        if k is not None:
            res.add((leaf_of_kind(*k), bool(a), bool(ca)))
    return res


def eval_fail(ctx, impl_bad):
    """after the proof stage built corr/C08_Fail_Corr.vo: the failing-policy sessions and the leaf table against the model"""
    import time
    t1 = time.time()
    terms, idx = [], []
    for i, (c, o) in enumerate(zip(FAIL_STATE["cases"], FAIL_STATE["outs"])):
        t = fail_to_coq(c, o)
        if t is not None:
            terms.append(t)
            idx.append(i)
    nsess = len(terms)
    leafs = sorted(FAIL_STATE["leaf_obs"])
    for lf, u, ck in leafs:
        terms.append("CLeaf %s %s %s" % (lf, "true" if u else "false", "true" if ck else "false"))
    eok, mm, err = common.eval_cases(ctx, "fail", HEADER_FAIL, terms, 30)
    ctx.say("coq evaluation of %d failing-policy sessions and %d leaf-outbound observations (third layer): %.1fs, disagreements=%d"
            % (nsess, len(leafs), time.time() - t1, len(mm)))
    viol = []
    if not eok:
        viol.append({"what": "no longer shown to hold: third-layer correspondence evaluation (%s)" % err[:300],
                     "replay": {"broken": "corr.C08_Fail_Corr evaluation", "err": err[-2000:]}, "fingerprint": None, "found_input": False})
    elif mm and not impl_bad:
        dis = []
        for j in mm[:5]:
            if j < nsess:
                dis.append({"chain_case": FAIL_STATE["cases"][idx[j]], "impl": FAIL_STATE["outs"][idx[j]]})
            else:
                dis.append({"leaf_observation": list(leafs[j - nsess])})
        viol.append({"what": "no longer shown to hold: correspondence C08_Fail_Corr on %d case(s)" % len(mm),
                     "replay": {"broken": "corr.C08_Fail_Corr", "disagreeing_cases": dis}, "fingerprint": None, "found_input": False})
    return viol, {"failing_policy_sessions_validated_against_model": nsess, "leaf_observations_validated_against_model": len(leafs),
                  "model_impl_disagreements": len(mm)}


HEADER_PIPE = ("From Hy Require Import lib.Harness model.C09_ACL corr.C08_Adapter_Corr.\nFrom Coq Require Import ZArith.\n"
               "Local Open Scope N_scope.\n")


def _cb(x):
    return common.coq_bytes(x if isinstance(x, (bytes, bytearray)) else x.encode("latin-1"))


def _ipbytes(txt):
    """what net.ParseIP returns: always the 16-byte form (IPv4 as v4-mapped)"""
    import ipaddress
    if not txt:
        return b""
    a = ipaddress.ip_address(txt)
    return (bytes(10) + b"\xff\xff" + a.packed) if a.version == 4 else a.packed


def pipe_to_coq(c, o):
    """resolver-class case of the ACL stream as a CPipe term (None: nothing comparable was observed)"""
    if c.get("resolve") is None or "routes" not in o or len(o["routes"]) != len(c["addrs"]):
        return None
    import ipaddress
    tbl = {}
    for h, _ in c["qhosts"]:
        if h in tbl:
            continue
        try:
            a = ipaddress.ip_address(h)
            tbl[h] = (_ipbytes(h), b"") if a.version == 4 else (b"", _ipbytes(h))   # tryParseIP
        except ValueError:
            e = c["resolve"].get(h)
            tbl[h] = (_ipbytes(e[0]), _ipbytes(e[1])) if e else (b"", b"")
    entries = "[" + ";".join("(%s,%d)" % (_cb(n), i + 1) for i, n in enumerate(c["obs"])) + "]"
    acc = "[" + ";".join(str(i + 1) for i, a in enumerate(c["allow"]) if a) + "]"
    rules = "[" + ";".join("mkTRule %s %s %s %s" % tuple(_cb(x) for x in r) for r in c["rf"]) + "]"
    t = "[" + ";".join("(%s,(%s,%s))" % (_cb(h), _cb(v[0]), _cb(v[1])) for h, v in tbl.items()) + "]"
    qs = []
    for (h, port), rt, v in zip(c["qhosts"], o["routes"], o["verdicts"]):
        qs.append("(%s,%d,(%d,%s,%d,%s))" % (_cb(h), port, rt[0] or 1001, "true" if v & 1 else "false",
                                             rt[1] or 1001, "true" if v & 2 else "false"))
    return "CPipe %s %s %s %s [%s]" % (entries, acc, rules, t, ";".join(qs))


def run_acl_stream(ctx):
    import random
    rng = random.Random(ctx.seed + 8)
    cases = gen_acl(rng, ctx.tier)
    cases += gen_acl_resolve(random.Random(ctx.seed + 88), 60 if ctx.tier == "quick" else 900)
    ok, outs, _, log = common.run_go_cases(ctx, GO_ACL, cases, tag="acl")
    viol = []
    if not ok:
        ctx.say("Go harness (ACL stream) failed:\n" + log[-2000:])
        viol.append({"what": "tie broken: ACL-stream harness for C08 did not build/run against the current tree (%s)" % log.strip()[-300:],
                     "replay": {"broken": "go harness (acl stream)", "log": log[-3000:]}, "found_input": False, "fingerprint": None})
    compiled = 0
    seen_why = set()
    for c, o in zip(cases, outs):
        if "compile_error" not in o:
            compiled += 1
        if o.get("ok") is False:
            # one replay per class of failure (quoted addresses, numbers and the routing detail stripped)
            k = re.sub(r"\d+", "N", re.sub(r'"[^"]*"', "Q", str(o.get("why")))).split(":")[0]
            if k in seen_why:
                continue
            seen_why.add(k)
            viol.append({"what": "acl adapter: %s" % o.get("why"), "replay": {"acl_case": c, "impl": o}, "fingerprint": None,
                         "found_input": True})
    # the resolver pipelines against model/C08_Adapter.v (rule set compiled by the C09 model), evaluated in Coq
    terms, tidx = [], []
    for i, (c, o) in enumerate(zip(cases, outs)):
        t = pipe_to_coq(c, o)
        if t is not None:
            terms.append(t)
            tidx.append(i)
    pipe_state = {"terms": terms, "idx": tidx, "cases": cases, "outs": outs}
    both = sum(1 for o in outs for v in o.get("verdicts", []) if v == 3)
    neither = sum(1 for o in outs for v in o.get("verdicts", []) if v == 0)
    res = [(c, o) for c, o in zip(cases, outs) if c.get("resolve") is not None]
    # names (not IP literals) whose verdict is decided by the address they resolve to: refused / allowed
    name_ref = sum(1 for c, o in res for a, e in zip(c["addrs"], c["expect"]) if e == 0 and a.rsplit(":", 1)[0] in c["resolve"])
    name_all = sum(1 for c, o in res for a, e in zip(c["addrs"], c["expect"]) if e == 1 and a.rsplit(":", 1)[0] in c["resolve"])
    ctx.say("ACL stream: %d rule sets (%d compiled), address verdicts allowed=%d refused=%d; resolver pipelines=%d "
            "(resolved host names refused=%d allowed=%d)" % (len(cases), compiled, both, neither, len(res), name_ref, name_all))
    return viol, {"evaluations": len(cases), "compiled": compiled, "addresses_allowed": both, "addresses_refused": neither,
                  "resolver_pipelines": len(res), "resolved_names_refused": name_ref, "resolved_names_allowed": name_all}, pipe_state


def eval_pipe(ctx, ps, impl_bad):
    """after the proof stage built corr/C08_Adapter_Corr.vo: model vs implementation on the resolver pipelines"""
    import time
    t1 = time.time()
    eok, mm, err = common.eval_cases(ctx, "pipe", HEADER_PIPE, ps["terms"], 30)
    ctx.say("coq evaluation of %d resolver pipelines (adapter model): %.1fs, disagreements=%d" % (len(ps["terms"]), time.time() - t1, len(mm)))
    viol = []
    if not eok:
        viol.append({"what": "no longer shown to hold: adapter correspondence evaluation (%s)" % err[:300],
                     "replay": {"broken": "corr.C08_Adapter_Corr evaluation", "err": err[-2000:]}, "fingerprint": None, "found_input": False})
    elif mm and not impl_bad:
        # the model and the implementation disagree although the implementation-only verdict passed
        dis = [{"acl_case": ps["cases"][ps["idx"][j]], "impl": ps["outs"][ps["idx"][j]]} for j in mm[:5]]
        viol.append({"what": "no longer shown to hold: correspondence C08_Adapter_Corr on %d pipeline(s)" % len(mm),
                     "replay": {"broken": "corr.C08_Adapter_Corr", "disagreeing_cases": dis}, "fingerprint": None, "found_input": False})
    return viol, {"pipelines_validated_against_model": len(ps["terms"]), "model_impl_disagreements": len(mm)}


def run(ctx):
    import sys
    acl_viol, acl_cov, pipe_state = run_acl_stream(ctx)
    chain_viol, chain_cov = run_chain_stream(ctx)
    orig = common.finish

    for k in OBS_STATE:
        OBS_STATE[k] = None if k == "status" else 0

    def fin(ctx_, pinfo, cov, violations, assumptions, **kw):
        cov = dict(cov)
        if OBS_STATE["unavailable"]:
            ctx_.say("NOTE: observation of the decision cache unavailable on this tree (%s): the model's eviction oracle cannot be "
                     "recorded; %d sessions compared with the model on their eviction-free prefix only (%d truncated, %d steps "
                     "not compared); the implementation-only verdict ran on every whole history"
                     % (OBS_STATE["status"], OBS_STATE["unavailable"], OBS_STATE["truncated"], OBS_STATE["steps_dropped"]))
            cov["observations"] = {"aclCache": OBS_STATE["status"], "sessions_compared_on_eviction_free_prefix": OBS_STATE["unavailable"],
                                   "sessions_truncated": OBS_STATE["truncated"], "steps_not_compared": OBS_STATE["steps_dropped"]}
        else:
            cov["observations"] = {"aclCache": "ok"}
        extra = acl_viol + chain_viol
        # by now the proof stage has built EXTRA_TARGETS (corr/C08_Adapter_Corr.vo)
        pv, pcov = eval_pipe(ctx_, pipe_state, any(v.get("found_input") for v in list(violations) + extra))
        acl_cov.update(pcov)
        cov["acl_adapter_stream"] = acl_cov
        fv, fcov = eval_fail(ctx_, any(v.get("found_input") for v in list(violations) + extra))
        chain_cov.update(fcov)
        cov["pipeline_session_stream"] = chain_cov
        return orig(ctx_, pinfo, cov, list(violations) + extra + pv + fv, assumptions, **kw)
    common.finish = fin
    try:
        return common.run_case_check(ctx, sys.modules[__name__])
    finally:
        common.finish = orig


def replay(ctx, path):
    import json
    r = json.load(open(path))
    if r["replay"].get("acl_case"):
        ok, outs, _, log = common.run_go_cases(ctx, GO_ACL, [r["replay"]["acl_case"]], tag="replay")
        print(json.dumps(outs, indent=1)[:4000])
        return 0 if outs and outs[0].get("ok") else 1
    if r["replay"].get("chain_case"):
        ok, outs, _, log = common.run_go_cases(ctx, GO_CHAIN, [r["replay"]["chain_case"]], tag="replay")
        print(json.dumps(outs, indent=1)[:4000])
        return 0 if outs and outs[0].get("ok") else 1
    c = r["replay"].get("case")
    if not c:
        print("replay file names a broken obligation/correspondence, no concrete input:", r["what"])
        return 1
    ok, outs, _, log = common.run_go_cases(ctx, GO, [c], tag="replay")
    print(json.dumps(outs, indent=1)[:4000])
    return 0 if outs and outs[0].get("ok") else 1


LEVEL_TEXT = ("Machine-checked Coq theorems over a statement-by-statement Gallina model of the tail of udpSessionEntry.Feed "
              "(first-datagram dial through the hook, override bookkeeping, the 256-entry decision cache with oracle-chosen eviction, "
              "reply address stamp): for every policy predicate, every hook, every sequence of datagrams/replies/closes/dial faults and "
              "every eviction choice, a datagram is written only to a destination the policy allows, exactly the allowed ones are "
              "forwarded in un-hooked sessions (equal to the cache-less evaluation), the cache only ever holds the policy's own verdicts, "
              "and a hooked session writes everything to the rewritten destination without consulting CheckUDP and reports replies from "
              "the original one. Second layer (the whole Feed: Defragger, WriteTo result, entries without a socket): for every sequence of "
              "fragments with arbitrary packet ids / fragment ids / counts / per-fragment addresses, every arrival order, every injected write "
              "error, nothing is ever handed to WriteTo for a rejected destination; the address given to checkAddr is the address given to "
              "WriteTo and is the address of the message the Defragger returns (the last arrived fragment, by composition with the C05 "
              "model); a failed WriteTo is only reported (one attempt, same state); an overridden session only ever writes to the rewritten "
              "destination; the first layer is the restriction to complete messages. "
              "Third layer (policies that fail; dial-time and per-datagram policy as two three-valued functions; the wrapper "
              "udpIOImpl.CheckUDP explicit): only 'allowed' answers enter the decision cache as allowed, a destination on which the policy did "
              "not say 'allowed' is never written to - not by the Feed in which it failed, not later from the cache -, an aborted Feed leaves "
              "the entry as it was, for every wrapper that reports 'allowed' only when the outbound did and every outbound whose CheckUDP never "
              "allows what its UDP refuses; that hypothesis is proved for resolver -> aclEngine -> {direct, SOCKS5, HTTP proxy, reject} under "
              "any rule set, both hypotheses are shown to be needed by refutations (recover into a local with an unnamed result; an HTTP leaf "
              "whose CheckUDP says nil); the first layer is the restriction to one two-valued policy. "
              "Tied to /repo on every run by the regenerated cap and a differential replay of ~250 recorded sessions "
              "(with Go's actual eviction choices) against the model in the kernel.")
LEVEL_NOTE = ("Trusted: Coq kernel + vm_compute; hand-written model (tie is sampled differential testing + regenerated Params); python/Go glue. "
              "No axioms. Not proved: policies that are not functions of the destination string (a real resolver may answer differently from one "
              "lookup to the next); for outbounds other than the extras/outbounds leaves, that UDP() refuses what CheckUDP() refuses is a hypothesis (checked per run for the real leaves). For the ACL pipeline "
              "C08_adapter_check_walks_same_acl / C08_adapter_same_policy state that CheckUDP and UDP evaluate the same handle on the same AddrEx "
              "(resolve info included), tied to the code by the adapter correspondence stream.")
TECHNIQUE = "Coq proof (invariant over session histories, all eviction oracles) on a hand-written model + differential correspondence check in vm_compute"
DESIGN_REF = "DESIGN.md section 4 C08"
