"""C08 - Every UDP datagram's destination passes the outbound policy (DESIGN.md section 4, C08)."""
from vlib import common

GO = dict(module="core", pkg="server", pkgname="server",
          files={"zz_verif_udpenv_test.go": "c07/udpenv_test.go", "zz_verif_c08_test.go": "c08/c08_test.go"},
          run="TestVerifC08")
PARAMS_NAME = "ParamsC08"
HEADER = "From Hy Require Import lib.Harness model.C08_UDPPolicy corr.C08_Corr.\nFrom Coq Require Import NArith.\nLocal Open Scope N_scope.\n"
RULE = ("seeded generator: one session id driven through udpSessionManager.feed with a fake outbound implementing a random "
        "allow/deny predicate (densities 0..1) over a pool of 400 address strings (+ the empty string); destination sequences of "
        "1..2000 datagrams: uniform over the pool (more distinct destinations than the 256-entry cache), small working sets, "
        "sequential sweeps repeated after eviction, denied/allowed alternation; hook off / rewrite-all / rewrite-some / rewrite-to-same / "
        "error; dial faults, socket replies and idle closes interleaved. The cache key evicted by Go's map iteration is recorded and fed "
        "to the model as the oracle. Non-trivial = the session evicted a cache entry, met a denied destination, or was hooked. "
        "Distinct = distinct JSON case.")
ASSUMPTIONS = [
    "the outbound policy is a function of the destination string (CheckUDP(a)==nil iff UDP(a) would be allowed): Section variable P",
    "UDP(a) succeeds only for destinations the policy allows (the dial vets the first destination)",
    "a client datagram never carries the empty destination string (wf_input; ParseUDPMessage rejects a zero-length address)",
]
TRUSTED = ["modelled rather than verified: udpSessionEntry.Feed/checkAddr/initConn and the reply address stamp of core/server/udp.go "
           "(hand transcription in coq/model/C08_UDPPolicy.v); the extras/outbounds ACL engine + PluggableOutboundAdapter are not modelled: "
           "a second harness stream checks on generated rule sets that CheckUDP(addr)==nil iff UDP(addr) succeeds with identical routing"]
PER_SHARD = 25
EXTRA_TARGETS = ["corr/C08_Corr.vo"]
POOL = 401


def gen_session(rng, big):
    dens = rng.choice([0.0, 0.1, 0.5, 0.5, 0.7, 0.9, 1.0])
    allowed = [a for a in range(POOL) if rng.random() < dens and (a != 0 or rng.random() < 0.3)]
    hm = rng.random()
    if hm < 0.55:
        hook = [0]
    elif hm < 0.72:
        hook = [1, rng.choice(allowed) if allowed and rng.random() < 0.8 else rng.randrange(1, POOL)]
    elif hm < 0.84:
        hook = [2, rng.choice([2, 3, 5]), rng.choice(allowed) if allowed and rng.random() < 0.8 else rng.randrange(1, POOL)]
    elif hm < 0.89:
        hook = [3]
    elif hm < 0.93:
        hook = [1, 0]  # rewrite to the empty string (edge, see EDGE_CASES)
        if rng.random() < 0.7 and 0 not in allowed:
            allowed = [0] + allowed
    else:
        hook = [1, -1]  # rewrite to the session's first destination: same address, no override
    r = rng.random()
    if big:
        n = rng.randint(600, 2000)
    elif r < 0.15:
        n = rng.randint(1, 6)
    elif r < 0.45:
        n = rng.randint(10, 120)
    else:
        n = rng.randint(290, 430)
    mode = rng.choice(["uniform", "work", "sweep", "alt", "mixed"])
    work = [rng.randrange(1, POOL) for _ in range(rng.choice([2, 5, 20, 255, 256, 257, 300]))]
    denied = [a for a in range(1, POOL) if a not in set(allowed)] or [1]
    okl = [a for a in allowed if a != 0] or [1]
    ops = []
    sweep_n = rng.choice([256, 257, 258, 300, 400])
    # sessions long enough start with a run of distinct destinations that fills the cache past its cap
    prefix = rng.sample(range(1, POOL), rng.choice([255, 256, 257, 270, 300])) if n >= 290 and rng.random() < 0.8 else []
    if prefix and okl and rng.random() < 0.8:
        prefix[0] = rng.choice(okl)   # let the session start at once
    pclose = 0.003 if prefix else 0.01
    for j in range(n):
        x = rng.random()
        if x < 0.04 and j > 0:
            ops.append([1, rng.randrange(0, POOL)])
            continue
        if x < 0.04 + pclose and j > 0:
            ops.append([2])
            continue
        m = mode if mode != "mixed" else rng.choice(["uniform", "work", "sweep", "alt"])
        if j < len(prefix):
            a = prefix[j]
        elif m == "uniform":
            a = rng.randrange(1, POOL)
        elif m == "work":
            a = rng.choice(work)
        elif m == "sweep":
            a = 1 + (j % sweep_n)
        else:
            a = rng.choice(denied) if j % 2 else rng.choice(okl)
        ops.append([0, a, 1 if rng.random() < (0.004 if prefix else 0.03) else 0])
    if hook == [1, -1]:
        first = next((o[1] for o in ops if o[0] == 0), 1)
        hook = [1, first]
    return {"pool": POOL, "allowed": allowed, "hook": hook, "ops": ops}


# the finding fixed by /repo bbf8060: the hook rewrites the destination to "" and the outbound accepts "";
# before the fix the original, unchecked destination was seeded into the decision cache as allowed
EDGE_CASES = [
    {"pool": POOL, "allowed": [0], "hook": [1, 0], "ops": [[0, 1, 0], [0, 1, 0]]},
    {"pool": POOL, "allowed": [0, 2], "hook": [1, 0], "ops": [[0, 1, 0], [0, 2, 0], [1, 9], [0, 1, 0], [2], [0, 2, 0], [1, 3]]},
    {"pool": POOL, "allowed": [0, 3], "hook": [2, 2, 0], "ops": [[0, 4, 0], [0, 3, 0], [0, 5, 0], [1, 7], [2], [0, 3, 0], [0, 4, 0]]},
]


def gen(rng, tier):
    nq = 90 if tier == "quick" else 2500
    cases = []
    # fixed corner: two destinations, denied then allowed then denied (the suite's scenario reversed), cap boundary sweeps
    cases.append({"pool": POOL, "allowed": [1, 3], "hook": [0], "ops": [[0, 1, 0], [0, 2, 0], [0, 3, 0], [0, 2, 0], [0, 1, 0], [0, 2, 0]]})
    cases.append({"pool": POOL, "allowed": [2], "hook": [0], "ops": [[0, 1, 0], [0, 2, 0], [0, 1, 0], [1, 5], [0, 2, 0]]})
    for n in (255, 256, 257):
        ops = [[0, 1 + j, 0] for j in range(n)] * 2
        cases.append({"pool": POOL, "allowed": [a for a in range(1, POOL) if a % 3], "hook": [0], "ops": ops})
    cases.append({"pool": POOL, "allowed": [5], "hook": [1, 5], "ops": [[0, 1, 0], [0, 2, 0], [1, 9], [0, 5, 0], [2], [0, 5, 0], [1, 9], [0, 6, 0]]})
    cases += [dict(c) for c in EDGE_CASES]
    for i in range(nq):
        cases.append(gen_session(rng, big=(i % 25 == 0)))
    return cases


def nl(xs):
    return "[" + ";".join(str(x) for x in xs) + "]"


def to_coq(c, o):
    if o.get("panic") or "steps" not in o:
        return None
    h = c["hook"]
    hm = "HMOff" if h[0] == 0 else "(HMConst %d)" % h[1] if h[0] == 1 else "(HMMod %d %d)" % (h[1], h[2]) if h[0] == 2 else "HMErr"
    st = []
    for op, s in zip(c["ops"], o["steps"]):
        if op[0] == 0:
            a = op[1]
            short = {0: "Fc", 4: "Fk", 1: "Dc", 5: "Dk"}.get(s[0])
            if short and s[1] == (a if s[0] % 4 == 0 else 0) and s[2] == 0 and s[3] == 0:
                st.append("%s %d" % (short, a))
            elif s[0] == 20 and s[1] == a and s[3] == 0:
                st.append("Fe %d %d" % (a, s[2]))
            elif s[0] == 21 and s[1] == 0 and s[3] == 0:
                st.append("De %d %d" % (a, s[2]))
            else:
                st.append("SD %d %d %d %d %d" % (a, s[0], s[1], s[2], s[3]))
        elif op[0] == 1:
            st.append("SR %d %d %d" % (op[1], s[0], s[1]))
        else:
            st.append("SC")
    al = set(c["allowed"])
    bits = [sum(1 << j for j in range(24) if 24 * w + j in al) for w in range((c["pool"] + 23) // 24)]
    return "CSess %s %s [%s]" % (nl(bits), hm, ";".join(st))


def _stats(c, o):
    ev = den = fwd = 0
    for op, s in zip(c["ops"], o.get("steps") or []):
        if op[0] == 0:
            if s[0] & 16:
                ev += 1
            if s[0] % 4 == 1:
                den += 1
            if s[0] % 4 == 0:
                fwd += 1
    return ev, den, fwd


def klass(c, o):
    ev, den, fwd = _stats(c, o)
    h = {0: "nohook", 1: "hook-all", 2: "hook-some", 3: "hook-err"}[c["hook"][0]]
    n = len(c["ops"])
    return "%s:%s:%s%s" % (h, "len<=256" if n <= 256 else "len<=700" if n <= 700 else "len>700",
                           "evict" if ev else "noevict", "+deny" if den else "")


def nontrivial(c, o):
    ev, den, fwd = _stats(c, o)
    return ev > 0 or den > 0 or (c["hook"][0] in (1, 2) and fwd > 0)


def fingerprint(c, o):
    h = c["hook"]
    if (h[0] == 1 and h[1] == 0 or h[0] == 2 and h[2] == 0) and 0 in c["allowed"]:
        # hook rewrote the destination to the empty string and the outbound accepted "": OverrideAddr == "" is read as
        # "no override", the original (unchecked) destination is seeded into the cache as allowed
        return "hook-rewrite-to-empty-string-seeds-unchecked-destination"
    return None


def search(ctx, disagreeing):
    import random
    found = []
    for s in range(3):
        rng = random.Random(ctx.seed * 1000 + s + 17)
        cases = gen(rng, "quick")
        ok, outs, _, log = common.run_go_cases(ctx, GO, cases, tag="search%d" % s)
        for c, o in zip(cases, outs):
            if o.get("ok") is False:
                found.append({"what": "session: %s" % o.get("why"), "replay": {"case": c, "impl": o},
                              "fingerprint": fingerprint(c, o), "found_input": True})
                break
        if found:
            break
    return found


# ---- second stream: the real extras/outbounds ACL engine behind PluggableOutboundAdapter (no Coq model: the
# harness verdict is "CheckUDP(addr)==nil iff UDP(addr) succeeds, both routed to the same outbound/address")
GO_ACL = dict(module="extras", pkg="outbounds", pkgname="outbounds",
              files={"zz_verif_c08acl_test.go": "c08acl/c08acl_test.go"}, run="TestVerifC08ACL")


def gen_acl(rng, tier):
    n = 40 if tier == "quick" else 600
    hosts = ["a.example.com", "b.example.com", "example.org", "x.y.example.net", "1.2.3.4", "10.0.0.7", "[2001:db8::1]",
             "8.8.8.8", "dns.google", "localhost"]
    pats = ["all", "*.example.com", "suffix:example.com", "example.org", "1.2.3.0/24", "10.0.0.0/8", "2001:db8::/32",
            "8.8.8.8", "*.google", "x.y.example.net"]
    cases = []
    for _ in range(n):
        nob = rng.randint(1, 3)
        obs = ["ob%d" % j for j in range(nob)]
        allow = [rng.random() < 0.6 for _ in obs]
        names = obs + ["reject", "direct", "default"]
        if rng.random() < 0.3:
            obs.append("direct")       # override the built-in direct (it would open real sockets)
            allow.append(rng.random() < 0.5)
        rules = []
        for _ in range(rng.randint(1, 8)):
            ob = rng.choice([x for x in names if x != "direct" or "direct" in obs])
            pat = rng.choice(pats)
            pp = rng.choice(["", "", ", udp", ", tcp", ", udp/53", ", tcp/53", ", udp/1-1000", ", */443", ", udp/443", ", tcp/443"])
            hj = rng.choice(["", "", "", ", 9.9.9.9"]) if pp else ""
            rules.append("%s(%s%s%s)" % (ob, pat, pp, hj))
        if "direct" not in obs:
            rules.append("%s(all)" % rng.choice(obs + ["reject"]))   # never fall through to the real direct outbound
            if obs[0] == "default":
                pass
        addrs = ["%s:%d" % (rng.choice(hosts), rng.choice([53, 443, 80, 1000, 1001, 65535, 0])) for _ in range(12)]
        addrs += ["noport.example.com", "a.example.com:99999", ":53", ""]
        cases.append({"rules": "\n".join(rules), "obs": obs, "allow": allow, "addrs": addrs})
    return cases


def run_acl_stream(ctx):
    import random
    cases = gen_acl(random.Random(ctx.seed + 8), ctx.tier)
    ok, outs, _, log = common.run_go_cases(ctx, GO_ACL, cases, tag="acl")
    viol = []
    if not ok:
        ctx.say("Go harness (ACL stream) failed:\n" + log[-2000:])
        viol.append({"what": "tie broken: ACL-stream harness for C08 did not build/run against the current tree (%s)" % log.strip()[-300:],
                     "replay": {"broken": "go harness (acl stream)", "log": log[-3000:]}, "found_input": False, "fingerprint": None})
    compiled = 0
    for c, o in zip(cases, outs):
        if "compile_error" not in o:
            compiled += 1
        if o.get("ok") is False:
            viol.append({"what": "acl adapter: %s" % o.get("why"), "replay": {"acl_case": c, "impl": o}, "fingerprint": None,
                         "found_input": True})
    both = sum(1 for o in outs for v in o.get("verdicts", []) if v == 3)
    neither = sum(1 for o in outs for v in o.get("verdicts", []) if v == 0)
    ctx.say("ACL stream: %d rule sets (%d compiled), address verdicts allowed=%d refused=%d" % (len(cases), compiled, both, neither))
    return viol, {"evaluations": len(cases), "compiled": compiled, "addresses_allowed": both, "addresses_refused": neither}


def run(ctx):
    import sys
    acl_viol, acl_cov = run_acl_stream(ctx)
    orig = common.finish

    def fin(ctx_, pinfo, cov, violations, assumptions, **kw):
        cov = dict(cov)
        cov["acl_adapter_stream"] = acl_cov
        return orig(ctx_, pinfo, cov, list(violations) + acl_viol, assumptions, **kw)
    common.finish = fin
    try:
        return common.run_case_check(ctx, sys.modules[__name__])
    finally:
        common.finish = orig


def replay(ctx, path):
    import json
    r = json.load(open(path))
    if r["replay"].get("acl_case"):
        ok, outs, _, log = common.run_go_cases(ctx, GO_ACL, [r["replay"]["acl_case"]], tag="replay")
        print(json.dumps(outs, indent=1)[:4000])
        return 0 if outs and outs[0].get("ok") else 1
    c = r["replay"].get("case")
    if not c:
        print("replay file names a broken obligation/correspondence, no concrete input:", r["what"])
        return 1
    ok, outs, _, log = common.run_go_cases(ctx, GO, [c], tag="replay")
    print(json.dumps(outs, indent=1)[:4000])
    return 0 if outs and outs[0].get("ok") else 1


LEVEL_TEXT = ("Machine-checked Coq theorems over a statement-by-statement Gallina model of the tail of udpSessionEntry.Feed "
              "(first-datagram dial through the hook, override bookkeeping, the 256-entry decision cache with oracle-chosen eviction, "
              "reply address stamp): for every policy predicate, every hook, every sequence of datagrams/replies/closes/dial faults and "
              "every eviction choice, a datagram is written only to a destination the policy allows, exactly the allowed ones are "
              "forwarded in un-hooked sessions (equal to the cache-less evaluation), the cache only ever holds the policy's own verdicts, "
              "and a hooked session writes everything to the rewritten destination without consulting CheckUDP and reports replies from "
              "the original one. Tied to /repo on every run by the regenerated cap and a differential replay of ~200 recorded sessions "
              "(with Go's actual eviction choices) against the model in the kernel.")
LEVEL_NOTE = ("Trusted: Coq kernel + vm_compute; hand-written model (tie is sampled differential testing + regenerated Params); python/Go glue. "
              "No axioms. Not proved: policies that are not functions of the destination string; that a real outbound's UDP() refuses what "
              "its CheckUDP() refuses (read for the ACL engine: both go through aclEngine.handle(ProtocolUDP)).")
TECHNIQUE = "Coq proof (invariant over session histories, all eviction oracles) on a hand-written model + differential correspondence check in vm_compute"
DESIGN_REF = "DESIGN.md section 4 C08"
