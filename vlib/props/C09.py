"""C09 - ACL decisions are first-match and independent of lookup history (DESIGN.md section 4, C09)."""
import ipaddress

from vlib import common

import os


def _ref_for(pkgname):
    """instantiate the shared record types + reference evaluator for a package; path relative to harness/go"""
    tmpl = open(os.path.join(common.VERIF, "harness", "go", "c09", "c09ref_test.go.tmpl")).read()
    d = os.path.join(common.VERIF, "harness", "go", "_gen")
    os.makedirs(d, exist_ok=True)
    p = os.path.join(d, "c09ref_%s_test.go" % pkgname)
    text = tmpl.replace("__PKG__", pkgname)
    if not os.path.exists(p) or open(p).read() != text:
        with open(p, "w") as f:
            f.write(text)
    return "_gen/c09ref_%s_test.go" % pkgname


GO = dict(module="extras", pkg="outbounds", pkgname="outbounds",
          files={"zz_verif_c09_test.go": "c09/c09_test.go", "zz_verif_c09engx_test.go": "c09/c09engx_test.go",
                 "zz_verif_c09ref_test.go": _ref_for("outbounds")}, run="TestVerifC09")
# concurrency class: in-package harness of extras/outbounds/acl (gates around the rule matchers, goroutine stress)
GO_CONC = dict(module="extras", pkg="outbounds/acl", pkgname="acl",
               files={"zz_verif_c09conc_test.go": "c09/c09conc_test.go", "zz_verif_c09ref_test.go": _ref_for("acl")},
               run="TestVerifC09Conc")
PARAMS_NAME = "ParamsC09"
HEADER = ("From Hy Require Import lib.Harness model.C09_ACL corr.C09_Corr.\nFrom Coq Require Import ZArith.\n"
          "Local Open Scope N_scope.\n")
RULE = ("seeded generator: rule lists (1-7 rules) over a small per-case universe of domains, IPv4 and IPv6 addresses and ports, "
        "every matcher kind (exact, suffix:, wildcard with '*' at any place, IP, CIDR v4/v6 incl. v4-mapped forms, all/*), mixed case and "
        "trailing dots, every proto/port form (empty, *, */*, tcp, udp, single port, range, 0, 65535, malformed), hijack addresses, "
        "unknown outbounds and malformed fields (compile errors); compiled with the real acl.Compile with cache size 1/2/16/1024 (also 0/-1) "
        "or through NewACLEngineFromString; query histories of 24-48 lookups over 6-30 distinct queries built as one-component "
        "variants of each other (port +-1 at range ends, other protocol, 4-byte vs v4-mapped 16-byte address, address in the other "
        "slot, bit flips at the CIDR boundary, case / trailing dots / label-boundary variants of the name) with ABAB thrashing and repeats. "
        "Non-trivial = the list compiled and the history contains a repeated query and more distinct queries than the cache holds, or "
        "answers from at least two different rules. Distinct = distinct JSON case. "
        "Concurrency class (in-package harness of extras/outbounds/acl): gate schedules - every rule's matcher is wrapped in a gate, "
        "lookups of mostly cold keys are suspended inside their rule scan (at a chosen rule or the first one evaluated; some twice) while "
        "other lookups of the same and of other keys start, return or are suspended too, resumed in any order, also with the key's "
        "entry created and evicted meanwhile (exactly one lookup runs at a time: deterministic) - and stress cases: 4-12 goroutines x "
        "12 rounds (thorough 60) asking 10-20 keys of a cold rule set of 150-300 rules at the same instant (spin barrier, staggered); "
        "thorough also runs the class under -race. Every answer is compared with the reference evaluator, a never-asked rule set and the "
        "LTS of model/C09_Conc.v run on the observed schedule. "
        "Rule files (text): engine cases are written as rule FILES by the generator (rules between blank and comment lines, inline comments, "
        "tabs / \\r / \\f / NBSP / ideographic space around names and fields, CRLF) and go through NewACLEngineFromString = ParseTextRules ; Compile "
        "on both sides (the Coq model parses the same bytes); file cases feed acl.ParseTextRules alone with generated files (rule lines with "
        "1-3 fields incl. fields that trim to nothing, parentheses / Unicode / invalid UTF-8 inside fields, every line of a pool of 28 "
        "malformed lines, every empty/blank/filled combination of 1-3 fields, 4 fields, byte-level fuzz lines over the alphabet of the "
        "pattern) and compare rules, line numbers and the reported error line with the model AND with an independent reading of the line "
        "grammar (python re on bytes + own TrimSpace). net.IP.String / HostInfo.String cases: all 256 zero/non-zero patterns of the eight "
        "IPv6 groups (every position and length of zero runs, ties), groups with 1-4 hex digits, dotted-decimal digit-count boundaries, "
        "4-byte vs v4-mapped forms and near misses of the mapping, nil and lengths other than 4 / 16; the model's rendering is compared "
        "byte for byte, the harness checks on the implementation that no rendering contains '|', that equal renderings mean equal "
        "addresses and that net.ParseIP reads the rendering back. "
        "Engine entry points (engx): engines built from generated rule files are called through PluggableOutbound.TCP / UDP / CheckUDP "
        "(recording outbounds; user-defined direct, built-in or user-defined reject) with requests as a resolver hands them over: "
        "ResolveInfo nil, {IPv4, IPv6}, or {IPv4, IPv6, Err} - v4 only + error, v6 only + error, both + error, none + error, none + nil "
        "(partial resolver failures) - over hosts whose addresses sit inside / at the edge of the generated IP and CIDR rules; every call "
        "is compared with the first-match decision of the reference evaluator on exactly (Host, IPv4, IPv6), with the same call made "
        "with only the error flipped, and with model/C09_Engine.v (outbound, method, rewrite, Host and ResolveInfo the outbound saw). "
        "All classes: hosts whose v6 slot holds the IPv4-mapped form of an address inside / next to a generated IPv4 prefix (v4 slot "
        "empty or different), and prefixes written in mapped form (::ffff:a.b.c.d/96+n) asked with plain 4-byte addresses.")
ASSUMPTIONS = [
    "host names and patterns are ASCII and no query label starts with 'xn--' (idna.ToUnicode is then the identity; read in x/net/idna, not "
    "modelled). ENFORCED, not only assumed: the generator asserts it on every case and the Go harness asserts on every case that all rule "
    "fields and names are ASCII, that no label starts with xn-- and that idna.ToUnicode returns the lower-cased name unchanged "
    "(a case outside the grammar is reported as 'assumption: ...' instead of being compared)",
    "geoip:/geosite: rules need a database and are outside the property's grammar clause: not modelled, not generated",
    "net.IP.String() is modelled (model/C09_IPString.v: <nil>, ?hex, dotted decimal, RFC 5952 text as net/netip of go1.25 prints it) and the "
    "two facts the cache theorems need (no '|'; equal renderings only for addresses equal after To4) are PROVED of the model "
    "(C09_ip_string_nobar / _injective / _decodes); the model is tied to Go's String() by the ipstr cases; the standard library itself "
    "is not under test and cannot be mutated through the overlay",
    "hashicorp/golang-lru is abstracted as a finite map with an arbitrary eviction oracle (strictly more behaviours than any LRU); "
    "its Get/Add are atomic (library mutex)",
    "a Match call touches shared state only in Cache.Get and Cache.Add, and Add is handed the final scan result by value "
    "(step relation of model/C09_Conc.v; tied to the code by gate schedules that suspend lookups between their Get and their Add)",
    "outbound values handed to Compile are not the zero value of their type (the engine passes non-nil outbounds)",
    "ParseTextRules is modelled on bytes (model/C09_Text.v); the language of linePattern is transcribed by hand (covered regexp features: "
    "^ $ without (?m), ASCII-only \\w and \\s of RE2 (no \\v), negated class [^,] incl. newline and U+FFFD-per-invalid-byte decoding, greedy "
    "+ * ?, capture groups with unset = \"\", non-capturing groups; the pattern uses nothing else) - Go's regexp engine is trusted to "
    "implement that language and is compared on every generated file",
    "strings.TrimSpace is modelled as stripping valid UTF-8 encodings of unicode.IsSpace code points (table copied from Go's unicode "
    "tables) at both ends; strings.ToLower inside Compile stays ASCII-only (rule fields that reach Compile are ASCII, enforced)",
]
TRUSTED = ["modelled rather than verified: extras/outbounds/acl/{compile,matchers}.go, the hijack/default part of extras/outbounds/acl.go and the "
           "net/netip text parsers they call (hand transcription in coq/model/C09_ACL.v)"]
PER_SHARD = 36
EXTRA_TARGETS = ["corr/C09_Corr.vo"]

DOMS = ["example.com", "google.co.uk", "a.b.c.org", "localhost", "x.y", "xn.io", "my-site.net", "q.example.com"]


def v4text(b):
    return ".".join(str(x) for x in b)


def v6text(b, rng):
    a = ipaddress.IPv6Address(bytes(b))
    r = rng.random()
    if r < 0.5:
        return a.compressed
    if r < 0.7:
        return a.exploded
    if r < 0.85:
        # embedded IPv4 tail
        if bytes(b[:12]) == bytes(12):
            return "::" + v4text(b[12:])
        parts = a.exploded.split(":")
        return ":".join(parts[:6]) + ":" + v4text(b[12:])
    return a.compressed.upper()


def flip(b, bit):
    b = bytearray(b)
    if 0 <= bit < 8 * len(b):
        b[bit // 8] ^= 0x80 >> (bit % 8)
    return bytes(b)


MAPPED = bytes([0] * 10 + [255, 255])


class Universe:
    def __init__(self, rng):
        self.rng = rng
        self.doms = rng.sample(DOMS, 2)
        self.v4 = [bytes(rng.choice([rng.randrange(256), 0, 255, 10]) for _ in range(4)) for _ in range(2)]
        self.v6 = [bytes([0x20, 0x01, 0x0d, 0xb8] + [rng.choice([0, 0, rng.randrange(256)]) for _ in range(12)]),
                   rng.choice([bytes(15) + b"\x01", bytes(16), bytes([0xfe, 0x80] + [0] * 13 + [7]),
                               bytes(rng.randrange(256) for _ in range(16))])]
        self.ports = sorted(set([rng.choice([0, 1, 53, 80, 443, 8080, 65534, 65535]), rng.randrange(65536), rng.choice([80, 443, 6881])]))
        self.cidrs = []   # (family, base bytes, prefix) of generated CIDR rules, for boundary queries
        self.prange = []  # generated port bounds

    # ---- patterns
    def dom_pat(self):
        rng = self.rng
        d = rng.choice(self.doms)
        lab = d.split(".")
        forms = [d, d, d.upper() + ".", d.title(), "suffix:" + d, "suffix:" + d, "SUFFIX:" + d.upper() + ".", "suffix:" + lab[-1],
                 "*." + d, "*." + d, "*" + d, lab[0] + ".*", "*." + ".".join(lab[1:]), "w*." + d, "*.*", "**." + d, "*" + d[1:],
                 d[:2] + "*" + d[-3:], "*.*." + lab[-1], "www." + d, "suffix:www." + d, "*.", d + "..", "*" + lab[0] + "*",
                 "suffix:." + d, "." + d]
        # several '*' that may all match the empty string (the name is then SHORTER than the pattern)
        for k in (2, 3, 4):
            ds = list(d)
            for _ in range(k):
                ds.insert(rng.randrange(len(ds) + 1), "*")
            forms.append("".join(ds))
        forms.append("*" + lab[0] + "*." + ".".join(lab[1:]) + "*")
        return rng.choice(forms)

    def ip_pat(self):
        rng = self.rng
        r = rng.random()
        if r < 0.3:
            b = rng.choice(self.v4)
            return rng.choice([v4text(b), v4text(b), "::ffff:" + v4text(b), "::FFFF:" + v4text(b), v4text(b) + "."])
        if r < 0.5:
            return v6text(rng.choice(self.v6), rng)
        if r < 0.8:
            b = rng.choice(self.v4)
            p = rng.choice([0, 1, 7, 8, 9, 15, 16, 23, 24, 25, 30, 31, 32, rng.randrange(33)])
            if rng.random() < 0.2:
                p6 = rng.choice([96 + p, 96 + p, 80, 95, 64])
                self.cidrs.append((4 if p6 >= 96 else 6, b if p6 >= 96 else MAPPED + b, p6 - 96 if p6 >= 96 else p6))
                return "::ffff:%s/%d" % (v4text(b), p6)
            self.cidrs.append((4, b, p))
            return "%s/%s" % (v4text(b), rng.choice([str(p), str(p), "0" + str(p)]))
        b = rng.choice(self.v6)
        p = rng.choice([0, 1, 10, 32, 44, 63, 64, 65, 96, 120, 127, 128, rng.randrange(129)])
        self.cidrs.append((6, b, p))
        return "%s/%d" % (v6text(b, rng), p)

    def bad_addr(self):
        return self.rng.choice(["suffix:", "SUFFIX:.", "1.2.3.4/33", "1.2.3/24", "::1/129", "2001:db8::/", "/24", "1.2.3.4/-1", "1.2.3.4/ 8",
                                "example.com/24", "1.2.3.4/8/9", "fe80::1%eth0/64", "::ffff:1.2.3.4/x"])

    def odd_addr(self):
        # accepted, but classified in a surprising way (all of these become exact/wildcard domain rules or "all")
        return self.rng.choice(["1.2.3.04", "1.2.3.256", "1.2.3.4.5", "::1::2", "1:2:3:4:5:6:7:8:9", "fe80::1%eth0", "1.2.3", "12345::", ":1",
                                "1::2::*", "all.", "ALL", "*..", "...", "a|b", "1:2:3:4:5:6:7::", "::2:3:4:5:6:7:8", "1:2:3:4:5:6:7:1.2.3.4"])

    def pp(self, valid=True):
        rng = self.rng
        ports = self.ports
        a, b = sorted([rng.choice(ports), rng.choice(ports + [rng.randrange(65536)])])
        pr = rng.choice(["tcp", "udp", "*", "TCP", "Udp"])
        r = rng.random()
        if r < 0.25:
            return rng.choice(["", "*", "*/*", "tcp", "udp", "TCP", "tcp/*", "udp/*", "UDP/*"])
        if r < 0.5:
            self.prange.append((a, a))
            return "%s/%d" % (pr, a)
        if r < 0.85 or valid:
            if rng.random() < 0.25:
                a = 0
            if rng.random() < 0.15:
                b = 65535
            self.prange.append((a, b))
            return "%s/%d-%d" % (pr, a, b)
        return rng.choice(["tcp/ 80", "tcp/ 80-90", "tcp/90-80", "tcp/65536", "icmp", "tcp/80-", "tcp/-80", "tcp/+80", "tcp/080", "/80",
                           "tcp/", "tcp/80/90", "tcp/0x50", "tcp/80 - 90", "tcp/80-90-100", "**", "*/", "tcp/99999999999999999999", "tcp/1-65536",
                           " tcp/80", "tcp /80", "*/ *", "tcp/\t443-444 "])

    def hijack(self, valid=True):
        rng = self.rng
        r = rng.random()
        if r < 0.55:
            return ""
        if r < 0.93 or valid:
            return rng.choice(["1.1.1.1", "8.8.4.4", "2001:db8::53", "::ffff:8.8.8.8", "ABCD::1", "::", "0.0.0.0", "::1.2.3.4", "1:2:3:4:5:6:7:8"])
        return rng.choice(["example.com", "1.2.3.4/8", "1.2.3", "fe80::1%lo", "1.2.3.4 ", ":", "."])

    # ---- hosts
    def names(self):
        rng = self.rng
        out = []
        for d in self.doms:
            lab = d.split(".")
            out += [d, "www." + d, "a.b." + d, "x" + d, d + ".evil.org", d.upper(), d + ".", d.title() + "..", "." + d, d[1:], d + "x",
                    "w." + d, "www" + d, lab[-1], ".".join(lab[1:]), "WWW." + d.upper() + ".", "wx." + d, d.replace(".", "-"), "*." + d]
        out += ["", ".", "..", "*", "a|b", "1.2.3.4", v4text(self.v4[0]), "xn.io", "all", "suffix:" + self.doms[0]]
        return out

    def addr_variants(self):
        rng = self.rng
        out = [b""]
        for b in self.v4:
            out += [b, MAPPED + b, flip(b, 31), flip(b, 0), MAPPED[:11] + b"\xfe" + b]
        for b in self.v6:
            out += [b, flip(b, 127), flip(b, 0)]
        for fam, b, p in self.cidrs:
            base = b if len(b) in (4, 16) else b
            if fam == 4 and len(base) == 16:
                base = base[12:]
            for bit in (p - 1, p, p + 1, 8 * len(base) - 1):
                x = flip(base, bit)
                out.append(x)
                if len(x) == 4 and rng.random() < 0.5:
                    out.append(MAPPED + x)
        out += [b"\x01\x02\x03\x04\x05", bytes(range(1, 17))]
        return out


def gen_one(rng, kind, tier, force_valid=False):
    u = Universe(rng)
    valid = rng.random() < 0.85 or force_valid
    nobs = rng.randint(1, 3)
    if kind == "acl":
        obs = ["ob%d" % (i + 1) for i in range(nobs)]
        obnames = obs + [o.upper() for o in obs] + ["Ob1"]
    else:
        obs = rng.choice([["ob1", "ob2", "ob3"][:nobs], ["ob1", "Direct"], ["a", "default", "b"], ["X", "x", "reject"], []])
        obnames = [o for o in obs] + [o.swapcase() for o in obs] + ["direct", "reject", "default", "REJECT", "Default"]
    nr = rng.randint(1, 7)
    rules = []
    for j in range(nr):
        r = rng.random()
        if r < 0.45:
            addr = u.dom_pat()
        elif r < 0.85:
            addr = u.ip_pat()
        elif r < 0.93:
            addr = rng.choice(["all", "*", "ALL", "All."])
        else:
            addr = u.odd_addr()
        ob = rng.choice(obnames)
        pp = u.pp(True)
        hj = u.hijack(True)
        rules.append({"ob": ob, "addr": addr, "pp": pp, "hj": hj})
    if not valid:
        # one defect somewhere
        j = rng.randrange(nr)
        what = rng.randrange(4)
        if what == 0:
            rules[j]["addr"] = u.bad_addr()
        elif what == 1:
            rules[j]["pp"] = u.pp(False)
        elif what == 2:
            rules[j]["hj"] = u.hijack(False)
        else:
            rules[j]["ob"] = rng.choice(["nope", "ob9", "ob1 ", ""]) if kind == "acl" else rng.choice(["nope", "ob9"])
    if kind == "eng":
        for r in rules:
            for k in ("addr", "pp", "hj"):
                r[k] = r[k].strip().replace(",", "").replace("(", "").replace(")", "").replace("#", "")
            if r["addr"] == "":
                r["addr"] = "x"
            if r["hj"] and not r["pp"]:
                pass
    if rng.random() < 0.35:
        rules.append({"ob": rng.choice(obnames) if obnames else "direct", "addr": rng.choice(["all", "*"]),
                      "pp": rng.choice(["", "tcp", "udp", "*/*"]), "hj": rng.choice(["", "", "9.9.9.9"])})
    cache = rng.choice([1, 1, 2, 2, 16, 1024]) if kind == "acl" else 1024
    if kind == "acl" and rng.random() < 0.03:
        cache = rng.choice([0, -1])
    # hosts
    names = u.names()
    addrs = u.addr_variants()
    nh = rng.randint(4, 12)
    hosts = []
    for _ in range(nh):
        n = rng.choice(names)
        a4 = rng.choice(addrs) if rng.random() < 0.6 else b""
        a6 = rng.choice(addrs) if rng.random() < 0.35 else b""
        hosts.append({"n": n, "v4": a4.hex(), "v6": a6.hex()})
    # one-component variants of existing hosts (collide on everything else)
    for _ in range(rng.randint(2, 6)):
        h = dict(rng.choice(hosts))
        w = rng.randrange(8)
        if w >= 6:
            # same name and IPv4, different IPv6 (and one of the two often empty)
            h["v6"] = rng.choice(addrs).hex() if (h["v6"] == "" or rng.random() < 0.5) else ""
        elif w == 0:
            h["n"] = h["n"].swapcase()
        elif w == 1:
            h["n"] = h["n"] + "."
        elif w == 2 and len(h["v4"]) == 8:
            h["v4"] = MAPPED.hex() + h["v4"]
        elif w == 3:
            h["v4"], h["v6"] = h["v6"], h["v4"]
        elif w == 4:
            h["v4"] = rng.choice(addrs).hex()
        else:
            h["n"] = rng.choice(names)
        hosts.append(h)
    # the v6 slot holds the IPv4-mapped form of an address inside / next to a generated IPv4 rule (an AAAA answer
    # ::ffff:a.b.c.d), the v4 slot empty or a different address; and the converse (a plain 4-byte address in the v6 slot)
    a4s = [a for a in addrs if len(a) == 4]
    for _ in range(rng.randint(1, 3)):
        a = rng.choice(a4s)
        w = rng.randrange(4)
        n = rng.choice(names) if rng.random() < 0.5 else "m.example.org"
        if w == 0:
            hosts.append({"n": n, "v4": "", "v6": (MAPPED + a).hex()})
        elif w == 1:
            hosts.append({"n": n, "v4": flip(a, rng.choice([0, 7, 8, 31])).hex(), "v6": (MAPPED + a).hex()})
        elif w == 2:
            hosts.append({"n": n, "v4": "", "v6": a.hex()})
        else:
            hosts.append({"n": n, "v4": rng.choice(u.v6).hex(), "v6": (MAPPED + a).hex()})
    # distinct queries: families around port bounds and protocols
    pcs = set(u.ports)
    for a, b in u.prange:
        pcs.update([a - 1, a, a + 1, b - 1, b, b + 1])
    pcs.update([0, 65535])
    pcs = sorted(p for p in pcs if 0 <= p <= 65535)
    nd = rng.choice([3, 6, 10, 18, 30])
    dq = []
    for _ in range(nd):
        base = [rng.randrange(len(hosts)), rng.choice([1, 2]), rng.choice(pcs)]
        dq.append(base)
        if rng.random() < 0.6:
            v = list(base)
            w = rng.randrange(3)
            if w == 0:
                v[2] = rng.choice(pcs)
            elif w == 1:
                v[1] = 3 - v[1] if rng.random() < 0.9 else rng.choice([0, 7])
            else:
                v[0] = rng.randrange(len(hosts))
            dq.append(v)
    qlen = rng.choice([24, 32, 48])
    qs = []
    mode = rng.random()
    while len(qs) < qlen:
        if mode < 0.3:
            a, b = rng.choice(dq), rng.choice(dq)
            qs += [a, b, a, b, a]
        elif mode < 0.6:
            blk = rng.sample(dq, min(len(dq), rng.randint(2, 5)))
            qs += blk + blk
        else:
            q = rng.choice(dq)
            qs += [q] * rng.randint(1, 3)
        if rng.random() < 0.3:
            mode = rng.random()
    qs = qs[:qlen]
    return {"k": kind, "obs": obs, "rules": rules, "cache": cache, "hosts": hosts, "qs": qs, "valid": valid}


def gen_engx(rng, tier):
    """engine entry points: a rule file, recording outbounds (one of them named direct) and requests whose ResolveInfo is
    nil / without error / with an error NEXT TO its addresses (partial resolver failure), per host; qs = (host, entry point, port)"""
    c = gen_one(rng, "eng", tier, force_valid=rng.random() < 0.9)
    c["k"] = "engx"
    if not any(o.lower() == "direct" for o in c["obs"]):
        c["obs"] = c["obs"] + ["direct"]
    hosts = []
    for h in c["hosts"]:
        h = dict(h)
        if h["v4"] == "" and h["v6"] == "":
            h["e"] = rng.choice([0, 1, 2, 2])
        else:
            h["e"] = rng.choice([1, 2, 2])
        hosts.append(h)
    # every host also under the other error flag somewhere (same index space: appended)
    n0 = len(hosts)
    for i in range(n0):
        if hosts[i]["e"] and rng.random() < 0.4:
            h = dict(hosts[i])
            h["e"] = 3 - h["e"]
            hosts.append(h)
    c["hosts"] = hosts
    qs = []
    for q in c["qs"]:
        hi = q[0] if rng.random() < 0.7 else rng.randrange(len(hosts))
        op = 1 if q[1] == 1 else (rng.choice([2, 3]) if q[1] == 2 else rng.choice([1, 2, 3]))
        qs.append([hi, op, q[2]])
    c["qs"] = qs
    return c


def fixed_engx_cases():
    """a CIDR / IP rule in front of a catch-all, one address family resolved and the other failed, for every entry point"""
    H = lambda n, v4=b"", v6=b"", e=1: {"n": n, "v4": v4.hex(), "v6": v6.hex(), "e": e}
    rules = [{"ob": "reject", "addr": "10.0.0.0/8", "pp": "", "hj": ""},
             {"ob": "ob2", "addr": "fd00::/8", "pp": "", "hj": ""},
             {"ob": "ob2", "addr": "192.168.0.0/16", "pp": "*/22", "hj": "192.168.0.1"},
             {"ob": "direct", "addr": "2001:db8::1", "pp": "udp", "hj": "2001:db8::53"},
             {"ob": "ob1", "addr": "suffix:example.com", "pp": "tcp/443", "hj": ""},
             {"ob": "ob1", "addr": "all", "pp": "", "hj": ""}]
    a10, a192, afd, adb = bytes([10, 1, 2, 3]), bytes([192, 168, 7, 7]), bytes([0xfd] + [0] * 14 + [1]), bytes([0x20, 1, 0xd, 0xb8] + [0] * 11 + [1])
    hosts = []
    for e in (1, 2):
        hosts += [H("intranet.example", a10, b"", e), H("intranet6.example", b"", afd, e), H("nas.example", a192, b"", e),
                  H("both.example", a10, afd, e), H("dns.example", b"", adb, e), H("nowhere.example", b"", b"", e),
                  H("www.example.com", bytes([8, 8, 8, 8]), b"", e), H("mapped.example", b"", MAPPED + a10, e),
                  H("www.example.com", b"", MAPPED + a192, e)]
    hosts.append(H("nowhere.example", b"", b"", 0))
    qs = [[hi, op, port] for hi in range(len(hosts)) for op in (1, 2, 3) for port in (22, 443)]
    return [{"k": "engx", "obs": ["ob1", "ob2", "direct"], "rules": rules, "cache": 1024, "hosts": hosts, "qs": qs, "valid": True}]


def fixed_cases():
    """hand-picked lists: the boundaries a refactor breaks first"""
    H = lambda n, v4=b"", v6=b"": {"n": n, "v4": v4.hex(), "v6": v6.hex()}
    out = []
    ip = bytes([1, 2, 3, 4])
    rules = [{"ob": "ob1", "addr": "suffix:example.com", "pp": "tcp/80-90", "hj": "1.1.1.1"},
             {"ob": "ob2", "addr": "*.example.com", "pp": "udp", "hj": ""},
             {"ob": "OB1", "addr": "Example.COM.", "pp": "*/443", "hj": "2001:db8::53"},
             {"ob": "ob2", "addr": "1.2.3.0/24", "pp": "tcp/0-100", "hj": ""},
             {"ob": "ob1", "addr": "1.2.3.4", "pp": "udp/0", "hj": ""},
             {"ob": "ob2", "addr": "2001:db8::/32", "pp": "tcp/65535", "hj": "::ffff:9.9.9.9"}]
    hosts = [H("example.com"), H("www.example.com"), H("notexample.com"), H("EXAMPLE.com."), H("x", ip), H("x", MAPPED + ip),
             H("x", b"", ip), H("x"), H("x", ip, bytes([0x20, 1, 0xd, 0xb8] + [0] * 11 + [9])), H("y", bytes([1, 2, 4, 4])), H("z", b"", bytes([0x20, 1, 0xd, 0xb8] + [0] * 11 + [9])), H("example.com.."),
             H("a.b.example.com"), H(".example.com"), H("example.comm")]
    qs = []
    for hi in range(len(hosts)):
        for pr in (1, 2):
            for port in (0, 79, 80, 90, 91, 100, 101, 443, 65535):
                qs.append([hi, pr, port])
    for cache in (1, 2, 16, 1024):
        qq = qs + qs[::7] + qs[:40] if cache in (1, 1024) else qs[cache % 3::3] + qs[::7]
        out.append({"k": "acl", "obs": ["ob1", "ob2"], "rules": rules, "cache": cache, "hosts": hosts, "qs": qq, "valid": True})
    out.append({"k": "eng", "obs": ["ob1", "ob2"], "rules": rules, "cache": 1024, "hosts": hosts, "qs": qs[::3] + qs[::5], "valid": True})
    return out


# ---------------------------------------------------------------- rule files (text)

# unicode.IsSpace (Go's White_Space table) as UTF-8; strings.TrimSpace strips these (valid encodings only) at both ends
SPACE_CP = list(range(9, 14)) + [0x20, 0x85, 0xA0, 0x1680] + list(range(0x2000, 0x200B)) + [0x2028, 0x2029, 0x202F, 0x205F, 0x3000]
SPACE_ENC = [chr(c).encode("utf-8") for c in SPACE_CP]
# the line grammar of acl/parse.go read independently of Go's regexp package and of the Coq model: python's
# backtracking engine on bytes with the Perl classes of RE2 spelled out (\w = [0-9A-Za-z_], \s = [\t\n\f\r ])
import re as _re
LINE_RE = _re.compile(rb"^([0-9A-Za-z_]+)[\t\n\f\r ]*\(([^,]+)(?:,([^,]+))?(?:,([^,]+))?\)\Z")


def go_trim(b):
    again = True
    while again:
        again = False
        for e in SPACE_ENC:
            if b.startswith(e):
                b, again = b[len(e):], True
    again = True
    while again:
        again = False
        for e in SPACE_ENC:
            if b.endswith(e):
                b, again = b[:len(b) - len(e)], True
    return b


def ref_parse(text):
    """(rules [[line, ob, addr, pp, hj]], None) or (None, [line, cleaned line]) by the documentation of parse.go"""
    rules = []
    for i, line in enumerate(text.split(b"\n")):
        j = line.find(b"#")
        if j >= 0:
            line = line[:j]
        line = go_trim(line)
        if not line:
            continue
        m = LINE_RE.match(line)
        if not m:
            return None, [i + 1, line]
        rules.append([i + 1, m.group(1), go_trim(m.group(2)), go_trim(m.group(3) or b""), go_trim(m.group(4) or b"")])
    return rules, None


FW = [b"", b"", b" ", b"\t", b"  ", b"\xc2\xa0", b"\xe3\x80\x80", b" \t", b"\x0b", b"\xe2\x80\x88 ", b"\xc2\x85", b"\x0c", b"\xe2\x80\xa9", b"\xe1\x9a\x80\xe2\x81\x9f",
      b"\xe2\x80\x80\xe2\x80\x8a", b"\xe2\x80\xaf"]
WS1 = [b"", b"", b" ", b"\t", b" \t ", b"\r", b"\x0c", b"  "]
F_ADDR = [b"1.2.3.4", b"10.0.0.0/8", b"suffix:example.com", b"*.example.com", b"all", b"*", b"2001:db8::/32", b"geoip:cn", b"a(b)c",
          b"x y", b"\xe4\xbe\x8b\xe3\x81\x88.jp", b"\xf0\x9f\x98\x80", b"\xff\xfe", b"\xa0x", b"x\xe2\x80", b"(", b")", b"))", b"a|b", b"::1", b"\xc2\xa0\xa0"]
F_PP = [b"tcp", b"udp/53", b"*/*", b"tcp/80-90", b"TCP / 80", b"*", b"\xc2", b"icmp", b"tcp/\xc2\xa080"]
F_HJ = [b"1.1.1.1", b"::1", b"example.com", b"\xe2\x80\x8bx", b"8.8.8.8 "]
F_OB = [b"a", b"direct", b"OB_1", b"x9", b"_", b"R2d2", b"reject", b"0"]
BLANKS = [b"", b"", b"   ", b"\t", b"\xc2\xa0", b"\r", b" \xe3\x80\x80 ", b"\x0b\x0c"]
COMMENTS = [b"# comment", b"   # a(b)", b"#", b"##", b"\t#x(y", b"# \xe4\xbe\x8b", b" \xc2\xa0# nbsp first", b"#a(b)\r"]
BAD = [b"a(b,)", b"a(,b)", b"a()", b"a(b,c,d,e)", b"a\x0b(x)", b"(x)", b"a(x) y", b"a x", b"\xc3\xa9(x)", b"a(x", b"ab c(x)", b"a\xc2\xa0(x)",
       b"a(x)\xc2", b"a(b,,c)", b"a(b, ,c,)", b"a-b(x)", b"a.b(x)", b"a(x),", b"a", b"a(", b")", b"a)x(", b"a(x)\x85", b",", b"a(,)", b"a (  ", b"a(x)(",
       b"\xef\xbb\xbfa(x)"]
FUZZ = [b"a", b"b", b"1", b"_", b" ", b"\t", b"(", b")", b",", b"#", b"\r", b"\x0b", b"\xc2\xa0", b"\xe3\x80\x80", b"\xff", b"\xc2", b"x", b"(", b")", b",",
        b"\x00", b"\x1f", b"\x7f", b"\xe2\x80\xa8", b"\xe1\x9a\x80", b"\xe2\x81\x9f", b"\xe2\x80\x8b", b"\xef\xbb\xbf", b"\xe2\x80\xaf", b"\x85", b"\xa0",
        b"\xe2\x80", b"\x80", b"Z", b"0", b"\x0c"]


def rule_line(rng, ob, fields, comment=True):
    """one rule line for the given fields (bytes; an empty field is written as white space) with odd white space"""
    fw = lambda: rng.choice(FW)
    parts = []
    for f in fields:
        a, b = fw(), fw()
        if not f and not a and not b:
            a = b" "
        parts.append(a + f + b)
    line = rng.choice(FW) + ob + rng.choice(WS1) + b"(" + b",".join(parts) + b")" + rng.choice(FW)
    if comment and rng.random() < 0.4:
        line += rng.choice([b"#", b" # c", b"# a(b,c)", b"\t## x", b" # \xe4\xbe\x8b)"])
    if rng.random() < 0.15:
        line += b"\r"
    return line


def gen_file(rng):
    mode = rng.random()
    lines = []
    n = rng.choice([0, 1, 2, 3, 4, 5, 6, 7, 8, 9, 10, 3, 5, 8])
    for _ in range(n):
        r = rng.random()
        if mode < 0.8 or r < 0.75:
            if r < 0.2:
                lines.append(rng.choice(BLANKS))
            elif r < 0.35:
                lines.append(rng.choice(COMMENTS))
            else:
                k = rng.choice([1, 1, 2, 2, 3, 3])
                fs = [rng.choice(F_ADDR), rng.choice(F_PP + [b""]), rng.choice(F_HJ)][:k]
                if rng.random() < 0.08:
                    fs[rng.randrange(k)] = b""     # written as white space: a field that trims to nothing
                lines.append(rule_line(rng, rng.choice(F_OB), fs))
        else:
            lines.append(b"".join(rng.choice(FUZZ) for _ in range(rng.randint(0, 12))))
    if 0.55 <= mode < 0.8 and lines:
        lines[rng.randrange(len(lines))] = rng.choice(FW) + rng.choice(BAD) + rng.choice([b"", b"", b" # why", b"\r"])
    text = b"\n".join(lines)
    if rng.random() < 0.5:
        text += b"\n"
    return file_case(text)


def file_case(text):
    rules, err = ref_parse(text)
    c = {"k": "file", "text": text.hex()}
    if err is None:
        c["want"] = [[r[0]] + [x.hex() for x in r[1:]] for r in rules]
    else:
        c["wanterr"] = [err[0]]
    return c


def fixed_file_cases():
    """every line of the BAD pool between two rule lines (a file stops at its first bad line), and every way to leave
    one to three fields empty / blank / filled (plus four fields): the places where a change of one quantifier of the
    pattern shows"""
    out = []
    for bad in BAD:
        out.append(file_case(b"a(x)\n\n" + bad + b"\nb(y, tcp)\n"))
    import itertools
    for k in (1, 2, 3):
        for fs in itertools.product([b"x", b"", b" "], repeat=k):
            out.append(file_case(b"# c\nob (" + b",".join(fs) + b")"))
    for fs in ([b"x"] * 4, [b"x", b"", b"y", b"z"], [b" "] * 4):
        out.append(file_case(b"ob(" + b",".join(fs) + b")\n"))
    # comments, blank lines and line ends
    out.append(file_case(b"\n".join(COMMENTS + BLANKS) + b"\na(x)#\r\n#\n"))
    out.append(file_case(b"a(x) # one # two\nb(y)## c(z)\n\t#\nc(#)\n"))
    out.append(file_case(b"a(x)\r\nb(y)\r\n\r\n# c\r\nc(z , tcp , 1.1.1.1 )\r\n"))
    out.append(file_case(b""))
    out.append(file_case(b"\n\n\n"))
    return out


def eng_text(rng, rules):
    """the rule file of an engine case: the rules (ASCII fields) in order, between blank and comment lines, with odd
    white space; returns (text, line number of every rule)"""
    lines, nums = [], []
    for r in rules:
        for _ in range(rng.choice([0, 0, 0, 1, 1, 2])):
            lines.append(rng.choice(BLANKS + COMMENTS))
        fs = [r["addr"].encode()]
        if r["pp"] or r["hj"]:
            fs.append(r["pp"].encode())
        if r["hj"]:
            fs.append(r["hj"].encode())
        lines.append(rule_line(rng, r["ob"].encode(), fs))
        nums.append(len(lines))
    for _ in range(rng.choice([0, 0, 1])):
        lines.append(rng.choice(BLANKS + COMMENTS))
    text = b"\n".join(lines) + (b"\n" if rng.random() < 0.6 else b"")
    return text, nums


# ---------------------------------------------------------------- net.IP.String

GVALS = [1, 0x10, 0x100, 0x1000, 0xffff, 0xa0b, 0xf, 0xabcd, 0x8000, 0x00ff, 0x0100, 0xfffe]


def groups_bytes(g):
    return b"".join(bytes([x >> 8, x & 255]) for x in g)


def gen_ipstr(rng, which):
    addrs = []
    if which == 0:
        # every placement of zero groups: all 256 zero/non-zero patterns of the eight groups
        for mask in range(256):
            addrs.append(groups_bytes([0 if mask >> i & 1 else rng.choice(GVALS + [rng.randrange(1, 65536)]) for i in range(8)]))
    elif which == 1:
        # dotted decimal: digit-count boundaries in every octet; 4-byte and v4-mapped forms; near misses of the mapping
        octs = [0, 1, 9, 10, 11, 99, 100, 101, 199, 200, 249, 250, 255]
        for _ in range(60):
            b = bytes(rng.choice(octs + [rng.randrange(256)]) for _ in range(4))
            addrs += [b, MAPPED + b]
            if rng.random() < 0.5:
                addrs.append(rng.choice([MAPPED[:11] + b"\xfe", MAPPED[:10] + b"\x00\xff", MAPPED[:10] + b"\xff\x00", b"\x00" * 12,
                                         b"\x00" * 9 + b"\x01\xff\xff", b"\x00" * 11 + b"\x01"]) + b)
        addrs += [bytes(16), bytes(15) + b"\x01", b"\x01" + bytes(15), b"\xff" * 16, bytes(4), b"\xff" * 4, MAPPED + bytes(4), MAPPED + b"\xff" * 4,
                  bytes(10) + b"\xff\xff" + bytes(4), bytes(8) + b"\x00\x01" + bytes(6)]
    elif which == 2:
        # lengths that are neither 0, 4 nor 16, and nil
        addrs.append(b"")
        for n in [1, 2, 3, 5, 6, 8, 12, 15, 17, 20, 32]:
            for _ in range(3):
                addrs.append(bytes(rng.choice([0, 0x0f, 0xf0, 0xff, 0x7c, rng.randrange(256)]) for _ in range(n)))
    else:
        for _ in range(150):
            g = [rng.choice([0, 0, 0, rng.choice(GVALS), rng.randrange(65536)]) for _ in range(8)]
            addrs.append(groups_bytes(g))
    names = ["", "example.com", "a|b", "|", "EXAMPLE.com.", "x", "1.2.3.4", "\u4f8b\u3048.jp"]
    hosts = []
    for _ in range(12):
        a4 = rng.choice(addrs + [b""])
        a6 = rng.choice(addrs + [b""])
        hosts.append({"n": rng.choice(names), "v4": a4.hex(), "v6": a6.hex()})
    return {"k": "ipstr", "addrs": [a.hex() for a in addrs], "hosts": hosts}


def check_name_assumption(c):
    """(d) the grammar clause of the property: ASCII rule fields and host names, no xn-- label in a queried name; the Go
    harness asserts the same (and that idna.ToUnicode is the identity on the names) on every case"""
    for r in c.get("rules", []):
        for k in ("ob", "addr", "pp", "hj"):
            assert r[k].isascii(), ("generator left the ASCII grammar", r)
    for h in c.get("hosts", []):
        assert h["n"].isascii(), ("generator left the ASCII grammar", h)
        assert not any(l.startswith("xn--") for l in h["n"].lower().rstrip(".").split(".")), ("punycode label generated", h)


def gen(rng, tier):
    scale = 1 if tier == "quick" else 12
    cases = fixed_cases()
    for _ in range(200 * scale):
        cases.append(gen_one(rng, "acl", tier))
    for _ in range(50 * scale):
        cases.append(gen_one(rng, "eng", tier))
    cases += fixed_engx_cases()
    for _ in range(60 * scale):
        cases.append(gen_engx(rng, tier))
    for c in cases:
        check_name_assumption(c)
        if c["k"] in ("eng", "engx"):
            text, nums = eng_text(rng, c["rules"])
            c["text"], c["lines"] = text.hex(), nums
    cases += fixed_file_cases()
    for _ in range(70 * scale):
        cases.append(gen_file(rng))
    for which in range(4):
        for _ in range(1 if which < 3 or tier == "quick" else 6):
            cases.append(gen_ipstr(rng, which))
    return cases


def cb(s):
    return common.coq_bytes(s if isinstance(s, (bytes, bytearray)) else s.encode("latin-1"))


def tr(fields):
    return "mkTRule %s %s %s %s" % tuple(cb(bytes.fromhex(x)) for x in fields)


def to_coq(c, o):
    if o.get("panic"):
        return None
    if c["k"] == "file":
        text = cb(bytes.fromhex(c["text"]))
        if "rules" in o:
            return "CFile %s (Some [%s]) 0%%nat []" % (text, ";".join("(%d%%nat, %s)" % (r[0], tr(r[1:])) for r in o["rules"]))
        if "perr" in o:
            return "CFile %s None %d%%nat %s" % (text, o["perr"][0], cb(bytes.fromhex(o["perr"][1])))
        return None
    if c["k"] == "ipstr":
        if "strs" not in o or "hstrs" not in o:
            return None
        hosts = "[" + ";".join("mkHost %s %s %s" % (cb(h["n"].encode("utf-8")), cb(bytes.fromhex(h["v4"])), cb(bytes.fromhex(h["v6"]))) for h in c["hosts"]) + "]"
        return "CIpStr [%s] [%s] %s [%s]" % (";".join(cb(bytes.fromhex(a)) for a in c["addrs"]), ";".join(cb(bytes.fromhex(x)) for x in o["strs"]),
                                             hosts, ";".join(cb(bytes.fromhex(x)) for x in o["hstrs"]))
    if "cerr" not in o:
        return None
    if c["k"] == "engx":
        hosts = "[" + ";".join("(mkHost %s %s %s,%d)" % (cb(h["n"]), cb(bytes.fromhex(h["v4"])), cb(bytes.fromhex(h["v6"])), h["e"])
                               for h in c["hosts"]) + "]"
        qs = "[" + ";".join("(%d%%nat,%d,%d)" % (q[0], q[1], q[2]) for q in c["qs"]) + "]"
        obs = "[" + ";".join("(%s,%d)" % (cb(n), i + 1) for i, n in enumerate(c["obs"])) + "]"
        pool, idx, seen = [], [], {}
        if not o["cerr"]:
            if len(o.get("ans", [])) != len(c["qs"]):
                return None  # a call was inconsistent / panicked: reported by the harness verdict
            for a in o["ans"]:
                t = "(%d,%d,%d,%s,%s,%d,%s)" % (a[0], a[1], a[2], cb(bytes.fromhex(a[3])), cb(bytes.fromhex(a[4])), a[5], cb(bytes.fromhex(a[6])))
                if t not in seen:
                    seen[t] = len(pool)
                    pool.append(t)
                idx.append(seen[t])
        exp = "None" if o["cerr"] else "(Some [" + ";".join(str(i) for i in idx) + "]%nat)"
        return "CEngX %s %s %s %s [%s] %s" % (obs, cb(bytes.fromhex(c["text"])), hosts, qs, ";".join(pool), exp)
    rules = "[" + ";".join("mkTRule %s %s %s %s" % (cb(r["ob"]), cb(r["addr"]), cb(r["pp"]), cb(r["hj"])) for r in c["rules"]) + "]"
    hosts = "[" + ";".join("mkHost %s %s %s" % (cb(h["n"]), cb(bytes.fromhex(h["v4"])), cb(bytes.fromhex(h["v6"]))) for h in c["hosts"]) + "]"
    qs = "[" + ";".join("(%d%%nat,%d,%d)" % (q[0], q[1], q[2]) for q in c["qs"]) + "]"
    obs = "[" + ";".join("(%s,%d)" % (cb(n), i + 1) for i, n in enumerate(c["obs"])) + "]"
    pool, idx = [], []
    if not o["cerr"]:
        seen = {}
        for a in o["ans"]:
            if c["k"] == "acl":
                t = "(%d,%s)" % (a[0], cb(bytes.fromhex(a[1])))
            else:
                if a[2] != 1:
                    return None  # inconsistent rewrite: reported by the harness verdict, nothing to compare
                t = "(%d,%d,%s,%s)" % (a[0], a[1], cb(bytes.fromhex(a[3])), cb(bytes.fromhex(a[4])))
            if t not in seen:
                seen[t] = len(pool)
                pool.append(t)
            idx.append(seen[t])
    exp = "None" if o["cerr"] else "(Some [" + ";".join(str(i) for i in idx) + "]%nat)"
    pl = "[" + ";".join(pool) + "]"
    if c["k"] == "acl":
        return "CAcl %s %s (%d)%%Z %s %s %s %s" % (obs, rules, c["cache"], hosts, qs, pl, exp)
    if o.get("text"):
        # the engine was built from this TEXT: the model parses it too (ParseTextRules ; Compile)
        return "CEngT %s %s %s %s %s %s" % (obs, cb(bytes.fromhex(o["text"])), hosts, qs, pl, exp)
    return "CEng %s %s %s %s %s %s" % (obs, rules, hosts, qs, pl, exp)


def klass(c, o):
    if o.get("panic"):
        return c["k"] + ":panic"
    if c["k"] == "file":
        return "file:" + ("syntax-error" if "perr" in o else "rules=%d" % min(len(o.get("rules", [])), 4))
    if c["k"] == "ipstr":
        return "ipstr"
    if o.get("cerr"):
        return c["k"] + ":compile-error"
    if "ans" not in o:
        return c["k"] + ":not-run"
    if c["k"] == "engx":
        obs = set(a[0] for a in o["ans"])
        part = any(c["hosts"][q[0]]["e"] == 2 and (c["hosts"][q[0]]["v4"] or c["hosts"][q[0]]["v6"]) for q in c["qs"])
        return "engx:outcomes=%d%s%s%s%s" % (min(len(obs), 3), ":reject" if 1001 in obs else "", ":hijack" if any(a[2] == 1 for a in o["ans"]) else "",
                                             ":error-with-addresses" if part else "", "" if o.get("ref") else ":noref")
    obs = set(a[0] for a in o["ans"])
    hij = any((a[1] if c["k"] == "acl" else a[1] == 1) for a in o["ans"])
    return "%s:cache=%s:outcomes=%d%s%s%s" % (c["k"], c["cache"], min(len(obs), 3), ":default" if (0 in obs) else "",
                                              ":hijack" if hij else "", "" if o.get("ref") else ":noref")


def nontrivial(c, o):
    if c["k"] == "file":
        return len(o.get("rules", [])) >= 2 or ("perr" in o and o["perr"][0] > 1)
    if c["k"] == "ipstr":
        return len(o.get("strs", [])) > 10
    if o.get("cerr") or "ans" not in o:
        return False
    distinct = len(set(tuple(q) for q in c["qs"]))
    if c["k"] == "engx":
        return len(set((a[0], a[2]) for a in o["ans"])) >= 2
    outcomes = len(set((a[0], a[1]) for a in o["ans"]))
    return (distinct > c["cache"] and distinct < len(c["qs"])) or outcomes >= 2


def fingerprint(c, o):
    """stable failure classes (one VIOLATION line per class); the repaired start-port-0 defect keeps its old name"""
    import re
    why = o.get("why") or ""
    if "panic" in why:
        return "acl-panic"
    if c.get("k") in ("gate", "stress"):
        return "acl-answer-depends-on-overlapping-lookup"
    if "caching is visible" in why or "earlier in the history" in why:
        return "acl-cache-visible"
    if "rejected" in why:
        return "acl-documented-rule-rejected"
    if "assumption: generated" in why or "idna.ToUnicode" in why:
        return "acl-name-grammar-assumption"
    if "assumption" in why:
        return "acl-ip-string-assumption"
    if "ParseTextRules" in why or c.get("k") == "file":
        return "acl-line-parser"
    if "depends on ResolveInfo.Err" in why:
        return "acl-engine-decision-depends-on-resolve-error"
    if "rewritten inconsistently" in why:
        return "acl-engine-rewrite"
    m = re.search(r"port (\d+)\)", why)
    if m and "documentation gives" in why:
        port = int(m.group(1))
        for r in c["rules"]:
            mm = re.search(r"/\s*0+(?:-(\d+))?\s*$", r["pp"])
            if mm and port > int(mm.group(1) or 0):
                return "acl-port-start-0-matches-any"
        return "acl-engine-not-first-match" if c["k"] in ("eng", "engx") else "acl-not-first-match"
    return None


def search(ctx, disagreeing):
    """Property-directed search on the implementation alone (no model): more seeds."""
    import random
    found = []
    for s in range(3):
        rng = random.Random(ctx.seed * 1000 + s + 17)
        cases = gen(rng, "quick")
        ok, outs, _, log = common.run_go_cases(ctx, GO, cases, tag="search%d" % s)
        for c, o in zip(cases, outs):
            if o.get("ok") is False:
                found.append({"what": "%s: %s" % (c["k"], o.get("why")), "replay": {"case": c, "impl": o},
                              "fingerprint": fingerprint(c, o), "found_input": True})
        if found:
            break
    return found


# ---------------------------------------------------------------- concurrency class (overlapping lookups)

def gen_gate(rng):
    """deterministic interleavings: lookups suspended inside their rule scan (a gate around a rule's matcher) while
    other lookups of the same / other keys start, run to completion or are suspended too, resumed in any order"""
    c = gen_one(rng, "acl", "quick", force_valid=True)
    if c["cache"] < 1:
        c["cache"] = 2
    nr = len(c["rules"])
    dq = []
    for q in c["qs"]:
        if q not in dq:
            dq.append(q)
    cold = list(dq)
    rng.shuffle(cold)
    hot = []
    steps = []

    def pick():
        # mostly a key nobody has asked yet (its entry does not exist when the suspended lookup starts)
        if cold and (not hot or rng.random() < 0.7):
            hot.append(cold.pop())
            return hot[-1]
        return rng.choice(hot)
    n = [0]

    def gate():
        r = rng.random()
        return -2 if r < 0.45 else (rng.randrange(nr) if r < 0.9 else -1)

    def start(q, g):
        steps.append([0, q[0], q[1], q[2], g])
        n[0] += 1
        return n[0] - 1

    want = rng.randint(6, 16)
    while n[0] < want:
        pat = rng.randrange(6)
        h = pick()
        if pat == 0:      # B entirely inside A's scan, then A, then a later lookup
            a = start(h, gate())
            start(h, -1)
            steps.append([1, a, -1])
            start(h, -1)
        elif pat == 1:    # two suspended lookups of one key, resumed in the other order
            a = start(h, gate())
            b = start(h, gate())
            x, y = (b, a) if rng.random() < 0.6 else (a, b)
            steps.append([1, x, -1])
            start(h, -1)
            steps.append([1, y, -1])
            start(h, -1)
        elif pat == 2:    # the entry of the suspended lookup's key is created and evicted meanwhile
            a = start(h, gate())
            start(h, -1)
            for _ in range(rng.randint(1, 4)):
                start(rng.choice(dq), -1)
            start(h, -1)
            steps.append([1, a, -1])
            start(h, -1)
        elif pat == 3:    # suspended twice, at two rules, with a lookup in each window
            a = start(h, gate())
            start(h, -1)
            steps.append([1, a, rng.randrange(nr)])
            start(rng.choice(hot), -1)
            steps.append([1, a, -1])
        elif pat == 4:    # several keys suspended at once
            ss = [start(pick(), gate()) for _ in range(rng.randint(2, 4))]
            for q in rng.sample(hot, len(hot)):
                start(q, -1)
            rng.shuffle(ss)
            for x in ss:
                steps.append([1, x, rng.choice([-1, -1, rng.randrange(nr)])])
        else:             # anything
            for _ in range(rng.randint(2, 6)):
                if n[0] and rng.random() < 0.4:
                    steps.append([1, rng.randrange(n[0]), rng.choice([-1, -2, rng.randrange(nr)])])
                else:
                    start(pick(), gate())
    return {"k": "gate", "obs": c["obs"], "rules": c["rules"], "cache": c["cache"], "hosts": c["hosts"], "steps": steps}


def gen_stress(rng, tier):
    """a few hundred rules none of which matches before the last ones, keys that are decided by those last rules,
    asked by g goroutines at once on a cold rule set, reps times"""
    obs = ["ob1", "ob2", "ob3"]
    rules = []
    nfill = rng.choice([150, 200, 300])
    for i in range(nfill):
        r = rng.random()
        ob = rng.choice(obs)
        if r < 0.45:
            addr = rng.choice(["*.f%d.example.*", "*f%d*.tgt.*.org", "w*.f%d.tgt.example.com", "*.tgt.example.com.f%d"]) % i
        elif r < 0.65:
            addr = "suffix:f%d.tgt.example.net" % i
        elif r < 0.85:
            addr = "10.%d.%d.0/24" % (1 + i % 100, i // 100)
        else:
            addr = "f%d.tgt.example.com" % i
        rules.append({"ob": ob, "addr": addr, "pp": rng.choice(["", "tcp", "udp", "*/1-65535", "tcp/443"]), "hj": ""})
    tail = [{"ob": "ob2", "addr": "suffix:tgt.example.com", "pp": "tcp/443", "hj": "127.0.0.1"},
            {"ob": "ob3", "addr": "*.tgt.example.com", "pp": "udp", "hj": ""},
            {"ob": "ob1", "addr": "10.200.0.0/16", "pp": "", "hj": "2001:db8::53"},
            {"ob": "ob3", "addr": "h*.tgt.example.com", "pp": "tcp/80-90", "hj": "9.9.9.9"}]
    rng.shuffle(tail)
    rules += tail
    if rng.random() < 0.5:
        rules.append({"ob": rng.choice(obs), "addr": "all", "pp": rng.choice(["", "tcp"]), "hj": rng.choice(["", "1.1.1.1"])})
    hosts = []
    for i in range(rng.randint(6, 10)):
        n = rng.choice(["h%d.tgt.example.com", "H%d.TGT.example.com.", "h%d.x.tgt.example.com"]) % i
        v4 = bytes([10, 200, rng.randrange(256), i]) if rng.random() < 0.4 else b""
        hosts.append({"n": n, "v4": v4.hex(), "v6": ""})
    hosts.append({"n": "nomatch.example.org", "v4": bytes([10, 200, 1, 1]).hex(), "v6": ""})
    hosts.append({"n": "nomatch.example.org", "v4": bytes([192, 168, 1, 1]).hex(), "v6": ""})
    keys = []
    for _ in range(rng.randint(10, 20)):
        k = [rng.randrange(len(hosts)), rng.choice([1, 2]), rng.choice([443, 443, 80, 90, 91, 53])]
        if k not in keys:
            keys.append(k)
    return {"k": "stress", "obs": obs, "rules": rules, "cache": rng.choice([2, 16, 1024]), "hosts": hosts, "keys": keys,
            "g": rng.choice([4, 8, 12]), "reps": 12 if tier == "quick" else 60, "seed": rng.randrange(1 << 30)}


def gen_conc(rng, tier):
    scale = 1 if tier == "quick" else 12
    cases = []
    # the shape of the classic mistake, spelled out once: B entirely inside A's scan of a key a rule decides
    H = lambda n: {"n": n, "v4": "", "v6": ""}
    cases.append({"k": "gate", "obs": ["ob1", "ob2"],
                  "rules": [{"ob": "ob1", "addr": "suffix:ads.example.com", "pp": "tcp/443", "hj": "127.0.0.1"},
                            {"ob": "ob2", "addr": "suffix:example.com", "pp": "", "hj": ""}],
                  "cache": 16, "hosts": [H("t.ads.example.com"), H("www.example.com"), H("example.org")],
                  "steps": [[0, 0, 1, 443, 0], [0, 0, 1, 443, -1], [1, 0, -1], [0, 0, 1, 443, -1],
                            [0, 1, 2, 53, -2], [0, 1, 2, 53, -2], [1, 3, -1], [1, 2, -1],
                            [0, 2, 1, 80, 1], [0, 2, 1, 80, -1], [1, 6, -1]]})
    for _ in range(70 * scale):
        cases.append(gen_gate(rng))
    for _ in range(3 * (1 if tier == "quick" else 8)):
        cases.append(gen_stress(rng, tier))
    return cases


def conc_to_coq(c, o):
    if o.get("panic") or o.get("cerr") is not False or o.get("stuck"):
        return None
    rules = "[" + ";".join("mkTRule %s %s %s %s" % (cb(r["ob"]), cb(r["addr"]), cb(r["pp"]), cb(r["hj"])) for r in c["rules"]) + "]"
    hosts = "[" + ";".join("mkHost %s %s %s" % (cb(h["n"]), cb(bytes.fromhex(h["v4"])), cb(bytes.fromhex(h["v6"]))) for h in c["hosts"]) + "]"
    obs = "[" + ";".join("(%s,%d)" % (cb(n), i + 1) for i, n in enumerate(c["obs"])) + "]"
    pool, idx, seen = [], [], {}

    def intern(ob, hj):
        t = "(%d,%s)" % (ob, cb(bytes.fromhex(hj)))
        if t not in seen:
            seen[t] = len(pool)
            pool.append(t)
        return seen[t]
    if c["k"] == "gate":
        if any(a[0] < 0 for a in o["ans"]):
            return None
        evs = "[" + ";".join(("HStart (%d%%nat,%d,%d)" % (e[1], e[2], e[3])) if e[0] == 0 else ("HDone %d%%nat" % e[1])
                             for e in o["ev"]) + "]"
        idx = [intern(a[0], a[1]) for a in o["ans"]]
        return "CConc %s %s (%d)%%Z %s %s [%s] [%s]%%nat" % (obs, rules, c["cache"], hosts, evs, ";".join(pool), ";".join(map(str, idx)))
    prs = [p for p in o["pairs"] if p[1] >= 0]
    qs = "[" + ";".join("(%d%%nat,%d,%d)" % tuple(c["keys"][p[0]]) for p in prs) + "]"
    idx = [intern(p[1], p[2]) for p in prs]
    return "CConcAny %s %s (%d)%%Z %s %s [%s] [%s]%%nat" % (obs, rules, c["cache"], hosts, qs, ";".join(pool), ";".join(map(str, idx)))


def run_conc_stream(ctx):
    """Go side of the concurrency class; the Coq side runs in finish (after the proof stage built corr/C09_Corr.vo)"""
    import random
    cases = gen_conc(random.Random(ctx.seed * 7919 + 9), ctx.tier)
    ok, outs, _, log = common.run_go_cases(ctx, GO_CONC, cases, tag="conc")
    viol = []
    if not ok:
        ctx.say("Go harness (concurrent lookups) failed:\n" + log[-2000:])
        viol.append({"what": "tie broken: concurrent-lookup harness for C09 did not build/run against the current tree (%s)" % log.strip()[-300:],
                     "replay": {"broken": "go harness (concurrent lookups)", "log": log[-3000:]}, "found_input": False, "fingerprint": None})
        outs = outs if len(outs) == len(cases) else []
    seen = set()
    susp = overl = 0
    for c, o in zip(cases, outs):
        if c["k"] == "gate" and "parks" in o:
            susp += sum(1 for x in o["parks"] if x)
            # lookups that returned while another one was suspended
            open_, st = set(), 0
            for e in o["ev"]:
                if e[0] == 0:
                    open_.add(st)
                    st += 1
                else:
                    open_.discard(e[1])
                    if open_:
                        overl += 1
        if o.get("ok") is False:
            fp = fingerprint(c, o)
            if fp in seen:
                continue
            seen.add(fp)
            viol.append({"what": "%s: %s" % (c["k"], o.get("why")), "replay": {"conc_case": c, "impl": o}, "fingerprint": fp,
                         "found_input": True})
    cov = {"evaluations": len(cases), "gate_schedules": sum(1 for c in cases if c["k"] == "gate"),
           "stress_cases": sum(1 for c in cases if c["k"] == "stress"), "lookups_suspended_inside_scan": susp,
           "lookups_returned_while_another_was_suspended": overl,
           "simultaneous_lookups": sum(p[3] for o in outs for p in o.get("pairs", []))}
    if ctx.tier == "thorough" and ok:
        # the same class under the race detector (a subset: the detector slows the run ~10x)
        sub = cases[:120] + [c for c in cases if c["k"] == "stress"][:6]
        rok, routs, _, rlog = common.run_go_cases(ctx, GO_CONC, sub, tag="concrace", timeout=1500, race=True)
        cov["race_detector_cases"] = len(sub)
        cov["race_detector_clean"] = bool(rok)
        if not rok:
            racy = "DATA RACE" in rlog
            i0 = rlog.find("WARNING: DATA RACE")
            viol.append({"what": ("concurrent lookups: the race detector reports a data race between overlapping Match calls"
                                  if racy else "tie broken: concurrent-lookup harness failed under -race") + " (%s)" % rlog[max(i0, 0):][:600].strip(),
                         "replay": {"broken": "go test -race on the concurrent-lookup class", "log": rlog[max(i0, 0):][:6000],
                                    "conc_case": sub[len(routs)] if len(routs) < len(sub) else sub[0]},
                         "found_input": racy, "fingerprint": "acl-data-race" if racy else None})
    ctx.say("concurrent lookups: %d gate schedules (%d lookups suspended inside their scan, %d lookups returned meanwhile), "
            "%d stress cases (%d simultaneous lookups)" % (cov["gate_schedules"], susp, overl, cov["stress_cases"], cov["simultaneous_lookups"]))
    return viol, cov, {"cases": cases, "outs": outs}


def eval_conc(ctx, st, impl_bad):
    import time
    terms, tidx = [], []
    for i, (c, o) in enumerate(zip(st["cases"], st["outs"])):
        t = conc_to_coq(c, o)
        if t is not None:
            terms.append(t)
            tidx.append(i)
    t1 = time.time()
    eok, mm, err = common.eval_cases(ctx, "conc", HEADER, terms, 16)
    ctx.say("coq evaluation of %d concurrent schedules (LTS of model/C09_Conc.v): %.1fs, disagreements=%d" % (len(terms), time.time() - t1, len(mm)))
    viol = []
    if not eok:
        viol.append({"what": "no longer shown to hold: concurrent correspondence evaluation (%s)" % err[:300],
                     "replay": {"broken": "corr.C09_Corr (CConc) evaluation", "err": err[-2000:]}, "fingerprint": None, "found_input": False})
    elif mm and not impl_bad:
        dis = [{"conc_case": st["cases"][tidx[j]], "impl": st["outs"][tidx[j]]} for j in mm[:5]]
        viol.append({"what": "no longer shown to hold: correspondence C09_Corr (concurrent LTS) on %d schedule(s)" % len(mm),
                     "replay": {"broken": "corr.C09_Corr CConc", "disagreeing_cases": dis}, "fingerprint": None, "found_input": False})
    return viol, {"schedules_validated_against_model": len(terms), "model_impl_disagreements": len(mm)}


def run(ctx):
    import sys
    conc_viol, conc_cov, conc_state = run_conc_stream(ctx)
    orig = common.finish

    def fin(ctx_, pinfo, cov, violations, assumptions, **kw):
        cov = dict(cov)
        pv, pcov = eval_conc(ctx_, conc_state, any(v.get("found_input") for v in list(violations) + conc_viol))
        conc_cov.update(pcov)
        cov["concurrent_lookup_stream"] = conc_cov
        return orig(ctx_, pinfo, cov, list(violations) + conc_viol + pv, assumptions, **kw)
    common.finish = fin
    try:
        return common.run_case_check(ctx, sys.modules[__name__])
    finally:
        common.finish = orig


def replay(ctx, path):
    import json
    r = json.load(open(path))
    if r["replay"].get("conc_case"):
        ok, outs, _, log = common.run_go_cases(ctx, GO_CONC, [r["replay"]["conc_case"]], tag="replay")
        print(json.dumps(outs, indent=1)[:6000])
        return 0 if outs and outs[0].get("ok") else 1
    c = r["replay"].get("case")
    if not c:
        print("replay file names a broken obligation/correspondence, no concrete input:", r["what"])
        return 1
    ok, outs, _, log = common.run_go_cases(ctx, GO, [c], tag="replay")
    print(json.dumps(outs, indent=1))
    return 0 if outs and outs[0].get("ok") else 1


LEVEL_TEXT = ("Machine-checked Coq theorems over a statement-by-statement Gallina model of acl.Compile (text front end incl. the "
              "net/netip address parsers), compiledRule.Match, the matchers, compiledRuleSetImpl.Match with its decision cache and "
              "aclEngine.handle and the entry points TCP / UDP / CheckUDP on requests whose ResolveInfo carries an error next to its addresses "
              "(the lookup is made on exactly Host, ResolveInfo.IPv4, ResolveInfo.IPv6; the error is never read): for every rule list, every query and every history of queries, under every eviction behaviour of the "
              "cache, each answer is the outbound and hijack address of the first rule in file order whose pattern, protocol and port "
              "range match (default when none), invariant under case and trailing dots of the name - also stated on the TEXT of a rule file "
              "(line parser = the language of the regular expression, comments, blank lines, file order = line order, round trip with a "
              "canonical printer), with the decision cache keyed by the modelled net.IP.String rendering (proved '|'-free and injective "
              "modulo To4) and CIDR rules read as bit-prefix equality; the same for overlapping callers "
              "(LTS of the atomic cache sections Get / Add-of-the-final-result of any number of Match calls under every schedule). "
              "The model is tied to /repo on "
              "every run by regenerated constants and a differential run of the Go code against the model (vm_compute in the kernel) "
              "and against an independent reference evaluator and a never-queried rule set inside the harness.")
LEVEL_NOTE = ("Trusted: Coq kernel + vm_compute; hand-written model (tie is sampled differential testing + regenerated Params); python/Go glue. "
              "No axioms. net.IP.String and the rule-file parser are modelled and their properties proved (cache theorems are hypothesis-free "
              "for the modelled rendering; first-match is stated on the text of rule files; CIDR rules have a declarative bit-prefix reading). "
              "Not modelled: geoip/geosite, idna on xn-- labels (generator and harness enforce their absence), Go's regexp engine itself "
              "(its language for the one pattern is transcribed), concurrency inside golang-lru.")
TECHNIQUE = "Coq proof (invariant over lookup histories for every eviction oracle) on a hand-written model + differential correspondence check in vm_compute"
DESIGN_REF = "DESIGN.md section 4 C09"
