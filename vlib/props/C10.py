"""C10 - Negotiated send rate never exceeds either side's declared limit (DESIGN.md section 4, C10)."""
import json
import math

from vlib import common

GO = dict(module="core", pkg="server", pkgname="server",
          files={"zz_verif_c10_test.go": "c10/c10_test.go"}, run="TestVerifC10")
PARAMS_NAME = "ParamsC10"
HEADER = ("From Hy Require Import lib.Harness model.C10_Negotiate corr.C10_Corr.\n"
          "From Coq Require Import ZArith.\nLocal Open Scope N_scope.\n")
RULE = ("grid {0, 65536, 65537, 10^6, 2^62, 2^63-1, 2^63, 2^64-1} for client rx x server tx and client tx x server rx "
        "(all 64 pairs of each direction; thorough: the full 8^4) x ignore-client-bandwidth on/off x {bbr, reno} as complete loopback "
        "QUIC handshakes (real client.NewClient against NewServer/handleClient/ServeHTTP) observing Authenticator tx, "
        "EventLogger.Connect tx, HandshakeInfo.Tx and the congestion controller installed on each quic.Conn (type and rate, by reflection); "
        "raw Hysteria-CC-RX request headers {missing, '', abc, -1, +5, 1e3, 20/21-digit, overflow, ...} sent by a bare HTTP/3 client "
        "to the real server; histories of 2-5 POST /auth requests on ONE connection (first accepted rate A in {numeral, 0, missing, "
        "overflow, junk}, later B in {0, missing, smaller, larger, overflow, auto, junk, same}, requests refused by the Authenticator "
        "before/between) with the controller on the connection read after every response and all Authenticate/Connect calls; and raw response headers (incl. auto) served by a bare HTTP/3 server to the real client; "
        "SEQUENCES of 2-5 real client.NewClient calls on ONE *client.Config object (as a reconnecting client makes them), answered by a bare "
        "HTTP/3 server with auto / numerals / 0 / missing / overflow / junk in different orders (auto first then each numeric kind, number-auto-number, "
        "random), earlier clients closed or kept open, the caller sometimes writing new limits into the object between two handshakes; per "
        "handshake HandshakeInfo.Tx, the installed controller, the declared receive rate and the object's bandwidth fields after NewClient "
        "returned are observed (each handshake must be the one a fresh Config with the caller's limits would make; the object is not modified); "
        "WIRE (C10 o C11): complete handshakes over rates 65536 B/s .. 5e9 B/s with each limit binding in turn and loss compensation on/off; "
        "the installed sender's rate and disableLossCompensation flag are read by reflection, a sender constructed by NewBrutalSender with "
        "exactly those values is driven by a simulated QUIC send loop on a virtual clock (C11's loop: pacing waits, ack/loss batches around the "
        "0.8 clamp, idle gaps, timer slack, initial-burst drain) and every query result is compared, through C11's digest, with C11's model of "
        "the sender that C10's model installs; verdict = over every window of sends, bytes <= burst + reported rate/0.8 x interval, and a sleep "
        "until the announced time yields pacing budget; "
        "in-package header codec on arbitrary byte strings and multiple values; Config.fill() around the 65536 floor; "
        "brutal.NewBrutalSender around 2^63. Non-trivial = a handshake-level case (real network handshake) or a codec case whose "
        "header is not a plain in-range numeral. Distinct = distinct JSON case.")
ASSUMPTIONS = [
    "enforced rate = the rate the installed controller was constructed with (BrutalSender.bps); that this sender then releases at most a burst plus reported rate/0.8 x interval on the wire and is never stalled is proved by composing with C11 (C10_wire_*), under C11's remaining hypotheses: rate < 2^50 B/s and 4 ms x rate/0.8 < 2^63, datagram sizes <= 2^32, monotime send times that do not go backwards, rate/0.8 x gap < 2^63, a paced packet is sent only when the pacer's budget covers it, fewer than 2^64 packets reported",
    "wire cases drive a sender constructed by NewBrutalSender with the rate and flag read from the installed object (the installed object itself is in use by quic-go)",
    "HTTP/3 transports the Hysteria-CC-RX value unchanged (quic-go http3/qpack; raw-header handshakes only use visible ASCII without spaces)",
    "server-side connections are accepted by a 3-line copy of serverImpl.Serve (to keep the *quic.Conn); handleClient/ServeHTTP are the real code",
]
TRUSTED = ["modelled rather than verified: ServeHTTP auth branch incl. the already-authenticated early return (core/server/server.go), clientImpl.connect (core/client/client.go), "
           "header codec (core/internal/protocol/http.go) with strconv.ParseUint/FormatUint base 10, UseBrutal/UseConfigured, "
           "NewBrutalSender's uint64->ByteCount conversion, Config.fill() bandwidth floor (hand transcription in coq/model/C10_Negotiate.v)",
           "reflection on apernet/quic-go internals (Conn.sentPacketHandler.congestion -> ccAdapter.CC) to read the installed controller"]
PER_SHARD = 120
EXTRA_TARGETS = ["corr/C10_Corr.vo"]
FP_F7 = "negotiated-rate>=2^63"

M = 2 ** 64 - 1
GRID = [0, 65536, 65537, 10 ** 6, 2 ** 62, 2 ** 63 - 1, 2 ** 63, M]
TYPES = ["", "bbr", "reno", "BBR", "Reno"]

# header strings for the in-package codec (bytes) ...
CODEC_STRS = [b"", b"abc", b"-1", b"+5", b"1e3", b"0", b"00", b"007", b"1", b"65536", b"9223372036854775807",
              b"9223372036854775808", b"18446744073709551615", b"18446744073709551616", b"18446744073709551620",
              b"018446744073709551615", b"0018446744073709551616", b"99999999999999999999", b"100000000000000000000",
              b"99999999999999999999abc", b"18446744073709551615x", b"1844674407370955161x", b"1844674407370955162x",
              b"184467440737095516150", b"auto", b"Auto", b"AUTO", b"auto ", b" auto", b"aut", b"autos", b" 5", b"5 ", b"5\n",
              b"0x10", b"1_000", b"1,000", b"1.0", b"\x00", b"5\x00", b"\xff", b"\xd9\xa1", b"12a", b"a12", b"/", b":", b"0/", b"9:",
              b"true", b"1" * 25, b"0" * 30 + b"7"]
# ... and the subset that is sent through real HTTP/3 (visible ASCII, no spaces)
RAW_STRS = [None, "", "abc", "-1", "+5", "1e3", "0", "007", "1", "65535", "65536", "65537", "1000000", "9223372036854775807",
            "9223372036854775808", "18446744073709551615", "18446744073709551616", "99999999999999999999",
            "100000000000000000000", "99999999999999999999abc", "18446744073709551615x", "0x10", "1_000", "auto", "Auto", "autos"]


def rand_header(rng):
    r = rng.random()
    if r < 0.35:
        n = rng.choice([rng.randrange(0, 10), rng.randrange(0, 2 ** 20), rng.randrange(0, M + 1), rng.randrange(M - 50, M + 60),
                        rng.randrange(2 ** 63 - 5, 2 ** 63 + 5), rng.randrange(0, 10 ** 22)])
        s = str(n).encode()
        if rng.random() < 0.2:
            s = b"0" * rng.randint(1, 4) + s
        return s
    if r < 0.7:
        s = bytearray(str(rng.choice([rng.randrange(0, 10 ** 6), rng.randrange(0, 10 ** 21)])).encode())
        for _ in range(rng.randint(1, 2)):
            s.insert(rng.randrange(len(s) + 1), rng.choice(b"aAzZ_-+ .xe/:\x00\x80\xff"))
        return bytes(s)
    return bytes(rng.randrange(256) for _ in range(rng.randint(0, 6)))


def hs_case(crx, ctx, stx, srx, ignore, stype, ctype):
    return {"k": "hs", "crx": crx, "ctx": ctx, "stx": stx, "srx": srx, "ignore": ignore, "stype": stype, "ctype": ctype}


def gen(rng, tier):
    thorough = tier != "quick"
    scale = 1 if not thorough else 15
    cases = []
    hx = lambda b: b.hex()
    # --- header decoding
    for s in CODEC_STRS:
        cases.append({"k": "preq", "vals": [hx(s)]})
        cases.append({"k": "presp", "vals": [hx(s)]})
    for k in ("preq", "presp"):
        cases.append({"k": k, "vals": []})
        cases.append({"k": k, "vals": [hx(b"7"), hx(b"9")]})
        cases.append({"k": k, "vals": [hx(b""), hx(b"9")]})
        cases.append({"k": k, "vals": [hx(b"auto"), hx(b"5")]})
        cases.append({"k": k, "vals": [hx(b"5"), hx(b"auto")]})
    for _ in range(120 * scale):
        cases.append({"k": rng.choice(["preq", "presp"]), "vals": [hx(rand_header(rng))]})
    # --- header encoding + round trip
    vals = set(GRID) | {1, 9, 10, 99, 100, 10 ** 19, 10 ** 19 - 1, M - 1, 2 ** 32, 2 ** 53 + 1}
    for _ in range(25 * scale):
        vals.add(rng.randrange(0, M + 1))
        vals.add(rng.randrange(0, 10 ** rng.randint(1, 19)))
    for n in sorted(vals):
        cases.append({"k": "freq", "n": n})
        cases.append({"k": "fresp", "n": n, "auto": False})
    for n in (0, 5, M):
        cases.append({"k": "fresp", "n": n, "auto": True})
    # --- config floor
    cv = [0, 1, 65535, 65536, 65537, 10 ** 6, M]
    for a in cv:
        for b in cv:
            cases.append({"k": "cfg", "stx": a, "srx": b})
    for _ in range(10 * scale):
        cases.append({"k": "cfg", "stx": rng.randrange(0, 140000), "srx": rng.randrange(0, 140000)})
    # --- uint64 -> ByteCount
    for n in sorted(set(GRID) | {1, 2 ** 63 + 1, M - 1} | {rng.randrange(0, M + 1) for _ in range(12 * scale)}):
        cases.append({"k": "brutal", "n": n})
    # --- complete handshakes
    if not thorough:
        t = 0
        for i, crx in enumerate(GRID):
            for j, stx in enumerate(GRID):
                # (i, j) -> (j, i+j mod 8) is a bijection: all 64 (ctx, srx) pairs are covered as well
                ctx, srx = GRID[j], GRID[(i + j) % 8]
                for ignore in (False, True):
                    if ignore and (i + j) % 4 != 0:
                        continue  # ignore=true is one branch on each side: a quarter of the grid is plenty in the quick tier
                    cases.append(hs_case(crx, ctx, stx, srx, ignore, TYPES[t % 5], TYPES[(t // 5 + t) % 5]))
                    t += 1
    else:
        t = 0
        for crx in GRID:
            for stx in GRID:
                for ctx in GRID:
                    for srx in GRID:
                        ignore = (t % 5 == 0)
                        cases.append(hs_case(crx, ctx, stx, srx, ignore, TYPES[t % 5], TYPES[(t // 5 + t) % 5]))
                        t += 1
    for _ in range(24 * scale):
        pick_c = lambda: rng.choice([0, 1, 1000, 65535, rng.randrange(1, 10 ** 7), rng.randrange(0, M + 1), rng.choice(GRID)])
        pick_s = lambda: rng.choice([0, 65536, rng.randrange(65536, 10 ** 7), rng.randrange(65536, M + 1), rng.choice(GRID)])
        cases.append(hs_case(pick_c(), pick_c(), pick_s(), pick_s(), rng.random() < 0.2, rng.choice(TYPES), rng.choice(TYPES)))
    # --- raw request header -> real server
    for h in RAW_STRS:
        for stx in ((0, 65536) if not thorough else (0, 65536, 10 ** 6, 2 ** 63, M)):
            cases.append({"k": "rawreq", "hdr": h, "stx": stx, "srx": rng.choice([0, 70000, M]), "ignore": False,
                          "stype": rng.choice(TYPES)})
    for h in (None, "abc", "5", "18446744073709551616"):
        cases.append({"k": "rawreq", "hdr": h, "stx": 65536, "srx": 70000, "ignore": True, "stype": rng.choice(TYPES)})
    # --- raw response header -> real client
    for h in RAW_STRS:
        for ctx in ((0, 1000) if not thorough else (0, 1, 1000, 65536, 2 ** 63, M)):
            cases.append({"k": "rawresp", "hdr": h, "ctx": ctx, "crx": rng.choice([0, 77, M]), "ctype": rng.choice(TYPES)})
    # --- several auth requests on ONE connection (raw HTTP/3 client -> real server): A, then B != A, sometimes C;
    #     B over {0, missing, smaller, larger, overflow, 'auto', junk, same}; sometimes requests the Authenticator
    #     refuses before / between
    A = ["1000000", "65536", "70000", "0", None, "18446744073709551616", "abc", "9223372036854775807", "123456789"]
    B = ["0", None, "", "50000000", "65536", "1", "18446744073709551615", "18446744073709551616", "99999999999999999999",
         "auto", "Auto", "abc", "-1", "1e9", "007"]
    pairs = [(a, b_) for a in A for b_ in B]
    rng.shuffle(pairs)
    fixed = [("1000000", "50000000"), ("1000000", "0"), ("0", "1000000"), (None, "70000"), ("1000000", "auto"),
             ("70000", "18446744073709551616"), ("1000000", "1000000")]
    for i, (a, b_) in enumerate(fixed + pairs[:(40 if not thorough else len(pairs))]):
        reqs = [{"hdr": a, "acc": True}, {"hdr": b_, "acc": rng.random() < 0.85}]
        r = rng.random()
        if r < 0.3:
            reqs.append({"hdr": rng.choice(B + A), "acc": True})
        if rng.random() < 0.2:
            reqs.insert(0, {"hdr": rng.choice(B + A), "acc": False})
        if rng.random() < 0.1:
            reqs.append({"hdr": rng.choice(B), "acc": rng.random() < 0.5})
        cases.append({"k": "reauth", "reqs": reqs, "stx": rng.choice([0, 0, 65536, 10 ** 6, 2 ** 62]), "srx": rng.choice([0, 70000, M]),
                      "ignore": i % 9 == 8, "stype": rng.choice(TYPES)})
    cases.append({"k": "reauth", "reqs": [{"hdr": "5", "acc": False}, {"hdr": "6", "acc": False}], "stx": 0, "srx": 0,
                  "ignore": False, "stype": ""})
    cases.append({"k": "rawresp", "hdr": "5", "ctx": M, "crx": 0, "ctype": ""})
    cases.append({"k": "rawresp", "hdr": "0", "ctx": 2 ** 63 - 1, "crx": 0, "ctype": ""})
    # --- SEQUENCES of handshakes made from ONE client Config object (NewClient keeps the pointer; a reconnecting client
    #     may get the same object from its configFunc every time), answered auto / numbers / 0 / missing / junk in
    #     different orders; the caller sometimes writes new limits into the object between two handshakes.
    #     (appended last, from a generator of its own: the cases above are the same as before for a given seed)
    import random
    rng2 = random.Random(rng.getrandbits(64))
    cases += gen_seq(rng2, thorough)
    # --- C10 o C11: handshakes whose installed sender is then driven on the wire (appended last, own generator)
    rng3 = random.Random(rng.getrandbits(64))
    cases += gen_wire(rng3, thorough)
    return cases


WIRE_RATES = [65536, 65537, 100000, 10 ** 6, 3200000, 12500000, 125 * 10 ** 6, 1250 * 10 ** 6, 5 * 10 ** 9]
WIRE_MDS = [1200, 1252, 1280, 1452, 1500]


def wire_loop(rng, high):
    return {"seed": rng.randrange(2 ** 31), "n": rng.choice([40, 60, 90]), "mds": rng.choice(WIRE_MDS),
            "rtt": rng.choice([0, 10 ** 6, 20 * 10 ** 6, 300 * 10 ** 6]),
            "t0": rng.choice([1, 5 * 10 ** 8, 3600 * 10 ** 9, rng.randrange(1, 10 ** 13)]),
            "lossp": rng.choice([0, 0.01, 0.1, 0.19, 0.2, 0.21, 0.3, 0.5, 0.9]), "evp": rng.choice([0.1, 0.2, 0.3]),
            "idlep": rng.choice([0, 0.03, 0.08]), "maxgap": rng.choice([5 * 10 ** 6, 10 ** 9, 7 * 10 ** 9]),
            "slack": rng.choice([0, 0, 10 ** 5, 5 * 10 ** 6]), "small": rng.random() < 0.3, "drain": high and rng.random() < 0.7}


def wire_case(rng, crx, ctx, stx, srx, ignore=False):
    rates = [x for x in (crx, ctx, stx, srx) if x]
    return {"k": "wire", "crx": crx, "ctx": ctx, "stx": stx, "srx": srx, "ignore": ignore, "stype": rng.choice(TYPES),
            "ctype": rng.choice(TYPES), "sdis": rng.random() < 0.3, "cdis": rng.random() < 0.3,
            "loop": wire_loop(rng, bool(rates) and min(rates) > 3200000)}


def gen_wire(rng, thorough):
    """each side's fixed rate = min(own limit, peer's declared limit) over the range of rates C11 is stated for; the limit that
    binds is the own one / the peer's / the only one; one side without a fixed rate; loss compensation on and off"""
    out = []
    pick = lambda: rng.choice(WIRE_RATES) if rng.random() < 0.6 else int(math.exp(rng.uniform(math.log(65536), math.log(5e9))))
    # server limited by the client's declaration (server unlimited), client by its own limit (server declares 0 = unlimited)
    out.append(wire_case(rng, pick(), pick(), 0, 0))
    # both limits on both sides: min binds
    for _ in range(3 if not thorough else 30):
        out.append(wire_case(rng, pick(), pick(), pick(), pick()))
    # lowest and highest rates
    out.append(wire_case(rng, 65536, 65536, 65536, 65536))
    out.append(wire_case(rng, 5 * 10 ** 9, 5 * 10 ** 9, 0, 5 * 10 ** 9))
    # one side falls back to the configured controller: client declares 0 / has no own limit / server ignores
    out.append(wire_case(rng, 0, pick(), pick(), pick()))
    out.append(wire_case(rng, pick(), 0, pick(), pick()))
    out.append(wire_case(rng, pick(), pick(), pick(), pick(), ignore=True))
    for _ in range(3 if not thorough else 40):
        out.append(wire_case(rng, rng.choice([0, pick(), pick()]), rng.choice([0, pick(), pick()]), rng.choice([0, pick()]),
                             rng.choice([0, pick()]), ignore=rng.random() < 0.1))
    return out


SEQ_ANS = ["auto", "0", None, "", "100000", "65536", "1", "999999999", "18446744073709551615", "9223372036854775807",
           "18446744073709551616", "abc", "Auto", "autos", "123456", "007"]
SEQ_NUM = ["100000", "0", None, "1", "18446744073709551615", "65536"]
SEQ_CTX = [123456, 1000, 65536, 10 ** 6, 2 ** 62, 1, 0]


def seq_case(rng, ctx, answers, ctype=None, writes=None, close=None):
    steps = []
    for i, a in enumerate(answers):
        st = {"hdr": a, "ctx": None, "crx": None, "close": (rng.random() < 0.5) if close is None else close}
        if writes and i in writes:
            st["ctx"], st["crx"] = writes[i]
        steps.append(st)
    return {"k": "seq", "ctx": ctx, "crx": rng.choice([0, 77, 10 ** 6, M]), "ctype": rng.choice(TYPES) if ctype is None else ctype,
            "steps": steps}


def gen_seq(rng, thorough):
    out = []
    # auto first, then every kind of numeric answer (and the other orders), on the same object
    for k, n in enumerate(SEQ_NUM):
        ctx = SEQ_CTX[k % 4]
        out.append(seq_case(rng, ctx, ["auto", n], close=(k % 2 == 0)))
        out.append(seq_case(rng, ctx, [n, "auto", n]))
    out.append(seq_case(rng, 123456, ["auto", "auto", "100000", "0"]))
    out.append(seq_case(rng, 123456, ["0", "100000", "auto", None, "200000"]))
    out.append(seq_case(rng, 1000, ["abc", "auto", "500", "auto", "5000"], close=False))
    out.append(seq_case(rng, 0, ["auto", "100000", "0"]))
    # the caller changes its own limits between two handshakes (after an auto answer / after a number)
    out.append(seq_case(rng, 123456, ["auto", "100000", "100000"], writes={2: (50000, None)}))
    out.append(seq_case(rng, 0, ["100000", "100000", "auto", "100000"], writes={1: (70000, 5)}))
    out.append(seq_case(rng, 10 ** 6, ["auto", "auto", "0"], writes={1: (0, None), 2: (2 ** 62, 0)}))
    for _ in range(14 if not thorough else 300):
        n = rng.randint(2, 4)
        answers = [rng.choice(SEQ_ANS) if rng.random() < 0.65 else "auto" for _ in range(n)]
        writes = None
        if rng.random() < 0.25:
            writes = {rng.randrange(1, n): (rng.choice(SEQ_CTX), rng.choice([None, 0, 99]))}
        out.append(seq_case(rng, rng.choice(SEQ_CTX), answers, writes=writes))
    return out


# ---------------------------------------------------------------- Coq terms

def b(x):
    return "true" if x else "false"


def num(n):
    """N term; large numbers as decimal digit bytes (20-digit numerals cost ~10 ms each to parse)."""
    return str(n) if n < 65536 else "(nd %s)" % common.coq_bytes(str(n).encode())


def znum(z):
    return "(zd %s %s)" % (b(z < 0), common.coq_bytes(str(abs(z)).encode()))


def cct(t):
    return "TReno" if (t or "").lower() == "reno" else "TBbr"


def vals_term(hexes):
    return "[" + ";".join(common.coq_bytes(bytes.fromhex(h)) for h in hexes) + "]"


def hdr_vals(h):
    return "[]" if h is None else "[" + common.coq_bytes(h.encode()) + "]"


def inst(kind, bps):
    if kind == "brutal":
        return "(IBrutal %s)" % znum(bps)
    if kind == "bbr":
        return "IBbr"
    if kind == "default":
        return "IDefault"
    return None


def srv(c):
    return "(mkSrv %s %s %s %s)" % (b(c.get("ignore")), num(c.get("stx", 0)), num(c.get("srx", 0)), cct(c.get("stype")))


def cli(c):
    return "(mkCli %s %s %s)" % (num(c.get("ctx", 0)), num(c.get("crx", 0)), cct(c.get("ctype")))


def to_coq(c, o):
    k = c["k"]
    if o.get("panic"):
        return None
    if k == "preq":
        return "CPReq %s %s" % (vals_term(c["vals"]), num(o["rx"]))
    if k == "presp":
        return "CPResp %s %s %s" % (vals_term(c["vals"]), num(o["rx"]), b(o["auto"]))
    if k == "freq":
        return "CFReq %s %s %d%%nat" % (num(c["n"]), common.coq_bytes(bytes.fromhex(o["hdr"])), o["nvals"])
    if k == "fresp":
        return "CFResp %s %s %s %d%%nat" % (b(c["auto"]), num(c["n"]), common.coq_bytes(bytes.fromhex(o["hdr"])), o["nvals"])
    if k == "cfg":
        return "CCfg %s %s %s" % (num(c["stx"]), num(c["srx"]), b(o["accepted"]))
    if k == "brutal":
        return "CBrutal %s %s" % (num(c["n"]), znum(o["bps"]))
    if "err" in o:
        return None
    if k == "hs":
        si, ci = inst(o["s_kind"], o["s_bps"]), inst(o["c_kind"], o["c_bps"])
        if si is None or ci is None:
            return None
        return "CHs %s %s %s %s %s %s %s" % (srv(c), cli(c), num(o["auth_tx"]), num(o["connect_tx"]), si, num(o["info_tx"]), ci)
    if k == "wire":
        si, ci = inst(o["s_kind"], o["s_bps"]), inst(o["c_kind"], o["c_bps"])
        if si is None or ci is None:
            return None
        return "CWire %s %s %s %s %s %s %s %s %s %s %s %s %s" % (
            srv(c), cli(c), b(c["sdis"]), b(c["cdis"]), num(o["auth_tx"]), num(o["connect_tx"]), si, num(o["info_tx"]), ci,
            b(o.get("s_dis")), b(o.get("c_dis")), wire_runs(o, "s"), wire_runs(o, "c"))
    if k == "rawreq":
        si = inst(o.get("s_kind"), o.get("s_bps"))
        if si is None:
            return None
        return "CRawReq %s %s %s %s %s %s" % (srv(c), hdr_vals(c["hdr"]), num(o["auth_tx"]), num(o["connect_tx"]), si,
                                              common.coq_bytes(bytes.fromhex(o["resp_hdr"])))
    if k == "reauth":
        if "steps" not in o or len(o["steps"]) != len(c["reqs"]):
            return None
        obs = []
        for st in o["steps"]:
            si = inst(st["s_kind"], st["s_bps"])
            if si is None:
                return None
            obs.append("(%s,%s,%s)" % (b(st["status"] == 233), common.coq_bytes(bytes.fromhex(st["resp_hdr"])), si))
        rqs = "[" + ";".join("(%s,%s)" % (hdr_vals(r["hdr"]), b(r["acc"])) for r in c["reqs"]) + "]"
        return "CReauth %s %s [%s] [%s] [%s]" % (srv(c), rqs, ";".join(obs), ";".join(num(x) for x in (o.get("auth_txs") or [])),
                                                 ";".join(num(x) for x in (o.get("connect_txs") or [])))
    if k == "seq":
        if len(o.get("steps") or []) != len(c["steps"]):
            return None
        steps, obs = [], []
        cur_tx, cur_rx = c["ctx"], c["crx"]
        for st, so in zip(c["steps"], o["steps"]):
            ci = inst(so.get("c_kind"), so.get("c_bps"))
            if ci is None or "req_hdr" not in so:
                return None
            upd = "None"
            if st["ctx"] is not None or st["crx"] is not None:
                # the caller writes MaxTx and / or MaxRx: the model's write carries both fields
                cur_tx = cur_tx if st["ctx"] is None else st["ctx"]
                cur_rx = cur_rx if st["crx"] is None else st["crx"]
                upd = "(Some (%s,%s))" % (num(cur_tx), num(cur_rx))
            steps.append("(%s,%s)" % (upd, hdr_vals(st["hdr"])))
            obs.append("(%s,%s,%s,(%s,%s))" % (num(so["info_tx"]), ci, common.coq_bytes(bytes.fromhex(so["req_hdr"])),
                                              num(so["tx_after"]), num(so["rx_after"])))
        return "CSeq %s [%s] [%s]" % (cli(c), ";".join(steps), ";".join(obs))
    if k == "rawresp":
        ci = inst(o.get("c_kind"), o.get("c_bps"))
        if ci is None or "req_hdr" not in o:
            return None
        return "CRawResp %s %s %s %s %s" % (cli(c), hdr_vals(c["hdr"]), num(o["info_tx"]), ci,
                                            common.coq_bytes(bytes.fromhex(o["req_hdr"])))
    return None


def wz(v):
    return str(v) if v >= 0 else "(%d)" % v


def wire_step(st):
    op = st["op"]
    if op == "sent":
        return "wSn %s %s" % (wz(st["t"]), wz(st["size"]))
    if op == "ev":
        return "wEv %s %d %d" % (wz(st["t"]), st["a"], st["l"])
    if op == "mds":
        return "wMd %s" % wz(st["s"])
    if op == "rtt":
        return "wRt %s" % wz(st["rtt"])
    return "wWt %s" % wz(st["now"])


def wire_runs(o, who):
    if who + "_steps" not in o:
        return "[]"
    return "[([%s], %d%%Z, %d%%Z)]" % (";".join(wire_step(st) for st in o[who + "_steps"]), o[who + "_nobs"], o[who + "_dig"])


def hclass(raw):
    if raw is None:
        return "missing"
    if raw == b"":
        return "empty"
    if raw == b"auto":
        return "auto"
    if raw.isdigit() and all(48 <= x <= 57 for x in raw):
        return "numeral" if int(raw) <= M else "overflow"
    return "nondigit"


def side(kind, bps):
    if kind == "brutal":
        return "brutal<0" if bps < 0 else "brutal"
    return "cc" if kind in ("bbr", "default") else str(kind)


def klass(c, o):
    k = c["k"]
    if k in ("preq", "presp"):
        raw = bytes.fromhex(c["vals"][0]) if c["vals"] else None
        return "%s:%s%s" % (k, hclass(raw), ":multi" if len(c["vals"]) > 1 else "")
    if k in ("freq", "fresp"):
        return k + (":auto" if c.get("auto") else "")
    if k == "cfg":
        return "cfg:" + ("accepted" if o.get("accepted") else "rejected")
    if k == "brutal":
        return "brutal:" + ("negative" if o.get("bps", 0) < 0 else "same")
    if "err" in o or o.get("panic"):
        return k + ":error"
    if k == "hs":
        return "hs:%ss=%s,c=%s" % ("ignore," if c["ignore"] else "", side(o["s_kind"], o["s_bps"]), side(o["c_kind"], o["c_bps"]))
    if k == "wire":
        return "wire:s=%s%s,c=%s%s" % (side(o["s_kind"], o["s_bps"]), "(no-comp)" if o.get("s_dis") else "",
                                       side(o["c_kind"], o["c_bps"]), "(no-comp)" if o.get("c_dis") else "")
    if k == "rawreq":
        return "rawreq:%s:%s" % (hclass(None if c["hdr"] is None else c["hdr"].encode()), side(o["s_kind"], o["s_bps"]))
    if k == "reauth":
        acc = [i for i, r in enumerate(c["reqs"]) if r["acc"]]
        if not acc:
            return "reauth:never-accepted"
        f = acc[0]
        later = c["reqs"][f + 1:]
        return "reauth:%s:first=%s:then=%s" % ("refused-first" if f > 0 else "accepted-first",
                                             hclass(None if c["reqs"][f]["hdr"] is None else c["reqs"][f]["hdr"].encode()),
                                             "+".join(hclass(None if r["hdr"] is None else r["hdr"].encode()) for r in later[:2]) or "none")
    if k == "seq":
        hs = [hclass(None if st["hdr"] is None else st["hdr"].encode()) for st in c["steps"]]
        first_auto = hs.index("auto") if "auto" in hs else None
        after = "none" if first_auto is None else ("+".join(sorted(set(hs[first_auto + 1:]))) or "nothing")
        return "seq(one Config, %d handshakes):after-auto=%s%s" % (len(hs), after,
                                                                    ":caller-writes" if any(st["ctx"] is not None or st["crx"] is not None for st in c["steps"]) else "")
    return "rawresp:%s:%s" % (hclass(None if c["hdr"] is None else c["hdr"].encode()), side(o["c_kind"], o["c_bps"]))


def nontrivial(c, o):
    k = c["k"]
    if k == "wire":
        return "err" not in o and o.get("windows", 0) > 0
    if k in ("hs", "rawreq", "rawresp", "reauth", "seq"):
        return "err" not in o
    if k in ("preq", "presp"):
        raw = bytes.fromhex(c["vals"][0]) if c["vals"] else None
        return hclass(raw) != "numeral" or len(c["vals"]) > 1
    if k == "cfg":
        return not o.get("accepted")
    if k == "brutal":
        return o.get("bps", 0) < 0
    return False


def fingerprint(c, o):
    codes = o.get("codes") or []
    if codes and all(x == "rate>=2^63" for x in codes):
        return FP_F7
    return None


def search(ctx, disagreeing):
    """Property-directed search on the implementation alone (no model): more seeds."""
    import random
    found = []
    for s in range(2):
        rng = random.Random(ctx.seed * 1000 + s + 23)
        cases = [c for c in gen(rng, "quick")]
        ok, outs, _, log = common.run_go_cases(ctx, GO, cases, tag="search%d" % s)
        for c, o in zip(cases, outs):
            if o.get("ok") is False and fingerprint(c, o) != FP_F7:
                found.append({"what": "%s: %s" % (c["k"], o.get("why")), "replay": {"case": c, "impl": o},
                              "fingerprint": fingerprint(c, o), "found_input": True})
        if found:
            break
    return found


def run(ctx):
    import sys
    # The known finding is hit by every grid point whose negotiated rate is >= 2^63; report it once.
    orig = common.finish

    def finish_once(ctx_, pinfo, cov, violations, *a, **kw):
        # one line per class of failure: the known finding once, other messages once per wording
        # with the numbers blanked (common.finish keys on the full text, which contains the rates)
        import re
        seen, out, counts = set(), [], {}
        for v in violations:
            what = v.get("what") or ""
            if what.startswith("reauth:") or what.startswith("seq:"):
                # one line per clause that failed first; headers, controller kinds and rates blanked
                what = re.sub(r"\b(brutal|bbr|default)@", "K@", re.sub(r'"[^"]*"|<missing>', "Q", what.split(";")[0]))
            key = v.get("fingerprint") or re.sub(r"-?\d+", "N", what)
            counts[key] = counts.get(key, 0) + 1
            if key in seen:
                continue
            seen.add(key)
            out.append(v)
        cov = dict(cov)
        cov["violation_classes"] = counts
        # common.run_case_check does not report a model/implementation disagreement when some case violates the property
        # directly - and in this property the open known finding always does.  A disagreement on cases that are not
        # themselves failing inputs must still be reported: the correspondence is broken, no failing input is known.
        nd = cov.get("model_impl_disagreements", 0)
        if nd and not any(not v.get("found_input") for v in out) and all(v.get("fingerprint") == FP_F7 for v in out):
            mm = captured.get("mm") or []
            terms = captured.get("terms") or []
            out.append({"what": "no longer shown to hold: correspondence C10_Corr on %d case(s)" % nd,
                        "replay": {"broken": ["correspondence C10_Corr on %d case(s)" % nd],
                                   "disagreeing_coq_cases": [terms[j][:1500] for j in mm[:5] if j < len(terms)]},
                        "fingerprint": None, "found_input": False})
        return orig(ctx_, pinfo, cov, out, *a, **kw)

    if ctx.tier != "quick":
        # same harness under the race detector on a slice of the handshake cases (log only: the
        # property is about values, a race report would concern C01/C02)
        import random
        sub = [c for c in gen(random.Random(ctx.seed), "quick") if c["k"] in ("hs", "rawreq", "rawresp")][::3]
        ok, outs, _, log = common.run_go_cases(ctx, GO, sub, tag="race", race=True)
        ctx.say("race-detector run on %d handshake cases: %s" % (len(sub), "clean" if ok else "FAILED\n" + log[-2000:]))
    # the composed theorems (C10_wire_*) mention float64 values: Print Assumptions lists Coq's primitive float/int
    # operations under a header line "Axioms:" (see C11.py)
    common.ALLOWED_AXIOMS.add("Axioms")
    captured = {}
    orig_eval = common.eval_cases

    def eval_capture(ctx_, name, header, terms, *a, **kw):
        r = orig_eval(ctx_, name, header, terms, *a, **kw)
        captured["mm"], captured["terms"] = list(r[1]), terms
        return r

    common.finish = finish_once
    common.eval_cases = eval_capture
    try:
        return common.run_case_check(ctx, sys.modules[__name__])
    finally:
        common.finish = orig
        common.eval_cases = orig_eval


def replay(ctx, path):
    r = json.load(open(path))
    c = r["replay"].get("case")
    if not c:
        print("replay file names a broken obligation/correspondence, no concrete input:", r["what"])
        return 1
    ok, outs, _, log = common.run_go_cases(ctx, GO, [c], tag="replay")
    print(json.dumps(outs, indent=1))
    return 0 if outs and outs[0].get("ok") else 1


LEVEL_TEXT = ("Machine-checked Coq theorems over a branch-by-branch Gallina model of the handshake's bandwidth negotiation "
              "(ServeHTTP auth branch, clientImpl.connect, Hysteria-CC-RX codec with strconv.ParseUint's discarded error, UseBrutal/"
              "UseConfigured, NewBrutalSender's uint64->int64 conversion): for every configuration and every header byte string both "
              "decision functions equal the min-lattice specification of PROTOCOL.md, a fixed rate never exceeds either limit, the "
              "configured controller runs exactly in the fall-back cases, reported = decided = installed below 2^63, header round trip for "
              "every uint64 and 'auto', saturating/zero decoding of malformed headers. Proved refutation above 2^63 (known finding). "
              "The model is tied to /repo on every run by ~200 real loopback QUIC handshakes and ~600 codec/config/sender cases "
              "evaluated against the model in the kernel (vm_compute).")
LEVEL_NOTE = ("Trusted: Coq kernel + vm_compute; hand-written model (tie = sampled differential run + regenerated Params); python/Go glue; "
              "reflection into quic-go to read the installed controller. Axioms: none for the negotiation theorems; the composed wire-level theorems "
              "(C10_wire_rate_bound_*, C10_wire_never_stalled, C10_installed_sender_*, C10_handshake_wire, C10_wire_example) list Coq's primitive float/int "
              "operations and, through C11_sender_bandwidth_bound, Coq.Floats.FloatAxioms and the real-number axioms pulled in by Flocq. "
              "Composed with C11 (coq/proof/C10_Wire.v): the sender a decision Brutal r installs releases at most burst + reported/0.8 x interval "
              "and is never stalled, under C11's remaining hypotheses (see assumptions). Not proved: HTTP/3 header transport; wall-clock behaviour of quic-go's send loop.")
TECHNIQUE = "Coq proof (case analysis, induction on header strings) on a hand-written model + differential correspondence check in vm_compute"
DESIGN_REF = "DESIGN.md section 4 C10"
