"""C11 - Brutal sends at the configured rate: bounded above, never stalled (DESIGN.md section 4, C11)."""
from vlib import common

GO = dict(module="core", pkg="internal/congestion/brutal", pkgname="brutal",
          files={"zz_verif_c11_test.go": "c11/c11_test.go"}, run="TestVerifC11")
PARAMS_NAME = "ParamsC11"
HEADER = ("From Hy Require Import lib.Harness model.C11_Pacer model.C11_Brutal corr.C11_Corr.\n"
          "From Coq Require Import ZArith.\nLocal Open Scope Z_scope.\n")
RULE = ("seeded generator: (loop) simulated QUIC send loops on a virtual clock against the real BrutalSender+Pacer - rates 65536 B/s .. 5e9 B/s "
        "(boundary and log-uniform), datagram sizes {1200,1252,1280,1452,1500}, smoothed RTT {0, 1 ms .. 2 s}, loss probabilities around the "
        "0.8 clamp, idle gaps up to 30 s, timer slack, initial-burst drain, aggregated sends, and released packets that are not ack-eliciting "
        "(OnPacketSent's isRetransmittable=false) in shares 0 % .. 100 % with sizes like the others / uniform up to the datagram size / ACK-sized, "
        "which pass the same pacing gate, are not bytes in flight, and whose bytes the rate verdict counts like all others; (script) directed ack/loss batch sequences around "
        "the 50-sample threshold, the 0.8 clamp and slot overwriting, and random call sequences with out-of-range values (rate 0 and >= 2^63, "
        "negative/backward/huge times, sizes above the budget, odd datagram sizes). Every call is followed by Budget/TimeUntilSend/"
        "Budget(at the announced time)/HasPacingBudget/GetCongestionWindow/CanSend/Float64bits(ackRate), all compared with the model. "
        "Non-trivial = the history contains a pacing wait that was checked, or a compensated/clamped ack rate, or a panic. Distinct = distinct JSON case.")
ASSUMPTIONS = [
    "monotime values handed to the sender are positive and non-decreasing (quic-go's monotime.Now, documented non-zero)",
    "rate x gap < 2^63 (the property's range clause); fewer than 2^64 packets are ever reported in ack/loss batches",
    "a paced packet is sent only when the pacer's budget covers it (quic-go asks HasPacingBudget before every paced packet)",
    "float64 -> int64 conversion out of range behaves as on amd64 (only reachable outside the property's range of rates)",
]
TRUSTED = ["modelled rather than verified: core/internal/congestion/common/pacer.go and core/internal/congestion/brutal/brutal.go "
           "(hand transcription in coq/model/C11_Pacer.v, C11_Brutal.v; binary64 arithmetic = Coq primitive floats, lib/F64.v)",
           "Coq primitive floats (kernel implementation of binary64 + the FloatAxioms specification used by the float bridge lemmas)"]
PER_SHARD = 40
EXTRA_TARGETS = ["corr/C11_Corr.vo"]

MDS = [1200, 1252, 1280, 1452, 1500]
RTTS = [0, 10**6, 5 * 10**6, 20 * 10**6, 80 * 10**6, 300 * 10**6, 2 * 10**9]
RATES = [65536, 65537, 100000, 10**6, 3200000, 3200001, 12500000, 125 * 10**6, 1250 * 10**6, 5 * 10**9]
NRPS = [0.02, 0.1, 0.25, 0.5, 0.75, 0.9, 1.0]   # shares of released packets with isRetransmittable=false


def loop_case(rng, bps=None, **kw):
    import math
    if bps is None:
        bps = rng.choice(RATES) if rng.random() < 0.5 else int(math.exp(rng.uniform(math.log(65536), math.log(5e9))))
    high = bps > 3200000
    lp = {"seed": rng.randrange(2**31), "n": rng.choice([50, 50, 90]), "mds": rng.choice(MDS), "rtt": rng.choice(RTTS),
          "t0": rng.choice([1, 5 * 10**8, 10**9 - 1, 3600 * 10**9, rng.randrange(1, 10**13)]),
          "lossp": rng.choice([0, 0.01, 0.1, 0.19, 0.2, 0.21, 0.3, 0.5, 0.9]),
          "evp": rng.choice([0.1, 0.2, 0.3]), "idlep": rng.choice([0, 0.03, 0.08]), "mdsp": rng.choice([0, 0.03]),
          "slack": rng.choice([0, 0, 10**5, 5 * 10**6]), "small": rng.random() < 0.3,
          "maxgap": rng.choice([5 * 10**6, 10**9, 7 * 10**9, 30 * 10**9]),
          "drain": high and rng.random() < 0.8,
          "batch": rng.choice([0, 16, 64, 1024]) if high else rng.choice([0, 0, 3]),
          # released packets that are not ack-eliciting: share (0 = the all-data history) and size class
          "nrp": rng.choice(NRPS) if rng.random() < 0.5 else 0, "nrsz": rng.choice([0, 0, 1, 2])}
    lp.update(kw)
    return {"k": "loop", "bps": bps, "dis": rng.random() < 0.15, "loop": lp}


def ack_script(rng, pattern):
    """directed ack/loss batches at chosen seconds (monotone), in-range rate: the harness's own value check is active"""
    bps = rng.choice([65536, 10**6, 125 * 10**6])
    t0 = rng.randrange(0, 5) * 10**9 + rng.randrange(1, 10**9)
    steps = []
    for sec, a, l in pattern:
        t = t0 + sec * 10**9 + rng.randrange(0, 10**6)
        if rng.random() < 0.3:
            steps.append({"op": "rtt", "rtt": rng.choice(RTTS)})
        steps.append({"op": "ev", "t": t, "a": a, "l": l})
    return {"k": "script", "bps": bps, "dis": False, "steps": steps}


def rand_script(rng):
    bps = rng.choice([0, 1, 65535, 65536, 2**31, 2**53 + 1, 10**12, 2**62, 2**63 - 1, 2**63, 2**64 - 1, 10**6, 10**6, 125 * 10**6,
                      rng.randrange(1, 2**40)])
    clock = rng.choice([1, 10**9, 3600 * 10**9, -5 * 10**9, 0])
    mds = 1280
    steps = []
    for _ in range(rng.randint(8, 40)):
        clock += rng.choice([0, 1, 999, 10**6, 10**6, 3 * 10**6, 10**9, 6 * 10**9, 2**40, 2**62 if rng.random() < 0.1 else 10**5,
                             -10**6 if rng.random() < 0.2 else 10**4])
        clock = max(-2**62, min(clock, 2**62))
        x = rng.random()
        if x < 0.4:
            size = rng.choice([0, 1, mds - 1, mds, mds, mds + 1, 12800, 20000, 2**40, -5, rng.randrange(1, 3000)])
            steps.append({"op": "sent", "t": clock, "size": size, "nr": rng.random() < 0.4})
        elif x < 0.65:
            a = rng.choice([0, 1, 10, 39, 40, 41, 49, 50, 51, 100, 1000])
            l = rng.choice([0, 0, 1, 9, 10, 11, 12, 13, 50, 300])
            steps.append({"op": "ev", "t": clock, "a": a, "l": l})
        elif x < 0.73:
            mds = rng.choice([0, 1, 1200, 1500, 10240, 10241, 12801, 65535, -1, 2**40, 1280])
            steps.append({"op": "mds", "s": mds})
        elif x < 0.83:
            steps.append({"op": "rtt", "rtt": rng.choice([-1, 0, 1, 10**6, 999999999, 10**9, 2 * 10**9, 2**62, rng.randrange(1, 3 * 10**9)])})
        else:
            now = clock + rng.choice([0, 1, 10**6, 10**9, 2**61 if rng.random() < 0.2 else 5])
            steps.append({"op": "nop", "now": max(-2**62, min(now, 2**63 - 1))})
    return {"k": "script", "bps": bps, "dis": rng.random() < 0.2, "steps": steps}


def gen(rng, tier):
    scale = 1 if tier == "quick" else 20
    cases = []
    # --- directed ack-rate scripts
    pats = [
        [(0, 49, 0)], [(0, 50, 0)], [(0, 40, 10)], [(0, 39, 11)], [(0, 41, 9)], [(0, 4000, 1000)], [(0, 4000, 1001)], [(0, 3999, 1000)],
        [(0, 0, 50)], [(0, 0, 49)], [(0, 25, 0), (0, 24, 0), (0, 1, 0)],
        [(0, 30, 5), (1, 30, 5), (2, 30, 5), (3, 30, 5), (4, 30, 5), (5, 1, 0), (6, 1, 0), (9, 1, 0), (10, 0, 1)],
        [(0, 100, 30), (4, 10, 0), (5, 10, 0), (8, 10, 0), (9, 10, 0), (10, 10, 0)],
        [(0, 60, 0), (5, 0, 0)], [(0, 60, 20), (4, 0, 0), (5, 0, 0)], [(3, 100, 30), (7, 1, 1), (8, 60, 1), (13, 1, 0), (100, 1, 0)],
        [(0, 45, 5), (1, 0, 0), (2, 45, 30), (6, 1, 1), (7, 100, 0)],
    ]
    for p in pats:
        cases.append(ack_script(rng, p))
    for _ in range(20 * scale):
        sec = 0
        p = []
        for _ in range(rng.randint(3, 25)):
            sec += rng.choice([0, 0, 0, 1, 1, 2, 4, 5, 6, 11])
            a = rng.choice([0, 1, 10, 39, 40, 41, 49, 50, 80, 400])
            p.append((sec, a, rng.choice([0, 0, 1, a // 4, a // 4 + 1, a // 3, a, 3])))
        cases.append(ack_script(rng, p))
    # --- send loops: every boundary rate with every datagram size at least once
    for bps in RATES:
        for mds in MDS:
            cases.append(loop_case(rng, bps=bps, mds=mds))
    for _ in range(70 * scale):
        cases.append(loop_case(rng))
    # --- mixtures of ack-eliciting and not ack-eliciting packets: every share with every size class, in the regime where
    #     the bound is tight (the packet-count burst dominates at low rates; the 0.8 clamp makes rate/0.8 exact at any rate)
    for nrp in NRPS:
        for nrsz in (0, 1, 2):
            tight = rng.random() < 0.5
            cases.append(loop_case(rng, bps=rng.choice([65536, 100000, 10**6, 3200000]) if tight else None,
                                   nrp=nrp, nrsz=nrsz, n=90, idlep=rng.choice([0, 0.03]),
                                   **({} if tight else {"lossp": rng.choice([0.21, 0.3, 0.5])})))
    # --- random scripts with out-of-range values (model agreement only)
    for _ in range(40 * scale):
        cases.append(rand_script(rng))
    return cases


def z(v):
    return str(v) if v >= 0 else "(%d)" % v


def b(v):
    return "true" if v else "false"


def step_term(s):
    op = s["op"]
    if op == "sent":
        return "%s %s %s" % ("Sx" if s.get("nr") else "Sn", z(s["t"]), z(s["size"]))
    if op == "ev":
        return "Ev %s %d %d" % (z(s["t"]), s["a"], s["l"])
    if op == "mds":
        return "Md %s" % z(s["s"])
    if op == "rtt":
        return "Rt %s" % z(s["rtt"])
    return "Wt %s" % z(s["now"])


def obs_term(s):
    return "[%s]" % ";".join(z(int(v)) for v in (s["pan"], s["bud"], s["tusp"], s["tus"], s["wake"], s["hpb"], s["cwnd"],
                                                  s["can1"], s["can2"], s["can3"], s["bits"]))


DETAIL = False  # diagnosis: compare value by value instead of through the digest


def to_coq(c, o):
    if "steps" not in o or o.get("panic"):
        return None  # the sender panicked: a violation by the harness verdict, nothing to replay in the model
    steps = ";".join(step_term(s) for s in o["steps"])
    if DETAIL:
        return "CDet %d %s [%s] [%s]" % (c["bps"], b(c["dis"]), steps, ";".join(obs_term(s) for s in o["steps"] if s["op"] != "rtt"))
    return "CDig %d %s [%s] %d %d" % (c["bps"], b(c["dis"]), steps, o["nobs"], o["dig"])


def klass(c, o):
    s = o.get("stats") or {}
    tags = [c["k"]]
    if s.get("out-of-range-rate"):
        tags.append("oor-rate")
    if s.get("wakeups-checked"):
        tags.append("paced")
    if s.get("rate-clamped"):
        tags.append("clamped")
    elif s.get("rate-compensated"):
        tags.append("compensated")
    if s.get("event-panic") or any(x.get("tusp") for x in o.get("steps") or []):
        tags.append("panic")
    if s.get("undisciplined-send"):
        tags.append("undisciplined")
    if s.get("nr-sends"):
        tags.append("nr-all" if s["nr-sends"] == s.get("sends") else "nr-mix")
    return ":".join(tags)


def nontrivial(c, o):
    s = o.get("stats") or {}
    return bool(s.get("wakeups-checked") or s.get("rate-clamped") or s.get("rate-compensated") or s.get("event-panic"))


FP = [("at the announced wake-up time", "C11:wakeup-insufficient"), ("HasPacingBudget is still false", "C11:wakeup-insufficient"),
      ("announced wake-up", "C11:wakeup-time-wrong"), ("release", "C11:rate-bound-exceeded"), ("outside [0.8, 1]", "C11:ackrate-out-of-range"),
      ("compensation disabled", "C11:ackrate-not-1-when-disabled"), ("over the last five seconds", "C11:ackrate-value-wrong"),
      ("congestion window", "C11:window-below-one-datagram"), ("CanSend", "C11:cansend-wrong"), ("panicked", "C11:panic")]


def fingerprint(c, o):
    """stable class of a violation (so one VIOLATION line per kind of failure, not per case)"""
    why = (o.get("why") or "").split(" | earlier: ")[0]   # the leading clause names the class
    for pat, fp in FP:
        if pat in why:
            return fp
    return None


def search(ctx, disagreeing):
    """Property-directed search on the implementation alone (no model): more seeds."""
    import random
    found = []
    for s in range(3):
        rng = random.Random(ctx.seed * 1000 + s + 17)
        cases = gen(rng, "quick")
        ok, outs, _, log = common.run_go_cases(ctx, GO, cases, tag="search%d" % s)
        for c, o in zip(cases, outs):
            if o.get("ok") is False:
                found.append({"what": "%s: %s" % (c["k"], o.get("why")), "replay": {"case": c, "impl": slim(o)},
                              "fingerprint": fingerprint(c, o), "found_input": True})
        if found:
            break
    return found[:3]


def slim(o):
    d = {k: v for k, v in o.items() if k != "steps"}
    d["nsteps"] = len(o.get("steps") or [])
    return d


def run(ctx):
    import os
    import sys
    global DETAIL, PER_SHARD
    DETAIL = bool(os.environ.get("VERIF_C11_DETAIL"))
    PER_SHARD = 40 if ctx.tier == "quick" else 100   # fewer, larger shards when there are many cases (coqc start-up dominates)
    # Print Assumptions lists Coq's primitive float/int operations under a header line "Axioms:";
    # the shared parser reads that header as a name.  Accept it here (the names themselves are
    # still checked against the allow-list: PrimFloat. / PrimInt63. / FloatAxioms. prefixes).
    common.ALLOWED_AXIOMS.add("Axioms")
    return common.run_case_check(ctx, sys.modules[__name__])


def replay(ctx, path):
    import json
    r = json.load(open(path))
    c = r["replay"].get("case")
    if not c:
        print("replay file names a broken obligation/correspondence, no concrete input:", r["what"])
        return 1
    ok, outs, _, log = common.run_go_cases(ctx, GO, [c], tag="replay")
    for o in outs:
        print(json.dumps(slim(o), indent=1))
    return 0 if outs and outs[0].get("ok") else 1


LEVEL_TEXT = ("Machine-checked Coq theorems over a statement-by-statement Gallina model of the token-bucket pacer and of BrutalSender "
              "(integer arithmetic with explicit int64/uint64 wrap; the ack rate both as the code's binary64 value and as an exact fraction). "
              "The model is tied to /repo on every run by constants read from the built code and a differential run of the real "
              "BrutalSender+Pacer against the model on simulated send loops and directed call sequences (every returned value and the "
              "ackRate bit pattern identical, evaluated by vm_compute).")
LEVEL_NOTE = ("Trusted: Coq kernel + vm_compute incl. primitive floats; hand-written model (tie is sampled differential testing + regenerated Params); "
              "python/Go glue. Axioms: the pacer theorems are closed under the global context; the theorems that mention float64 values list Coq's "
              "primitive float/int operations, and the two float-bridge theorems (C11_bandwidth_bound, C11_sender_bandwidth_bound) additionally use "
              "Coq.Floats.FloatAxioms (primitive operations = SpecFloat operations) and the standard real-number axioms pulled in by Flocq "
              "(ClassicalDedekindReals.sig_forall_dec, sig_not_dec, functional_extensionality_dep, Classical_Prop.classic). "
              "Not proved: wall-clock behaviour of the real send loop (timer slack, GSO batching); rates >= 2^50 B/s; rate x gap >= 2^63.")
TECHNIQUE = "Coq proof (token-bucket telescoping invariant, slot-table invariant over event histories) on a hand-written model + differential correspondence check in vm_compute"
DESIGN_REF = "DESIGN.md section 4 C11"
