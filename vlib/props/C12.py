"""C12 - BBR survives any QUIC-consistent event sequence with sane outputs (DESIGN.md section 4, C12)."""
import json
import sys
import time

from vlib import common

GO = dict(module="core", pkg="internal/congestion/bbr", pkgname="bbr",
          files={"zz_verif_c12_test.go": "c12/c12_test.go",
                 "zz_verif_c12_struct_test.go": "c12/c12_struct_test.go",
                 "zz_verif_c12_sim_test.go": "c12/c12_sim_test.go",
                 "zz_verif_c12_replay_test.go": "c12/c12_replay_test.go"},
          run="TestVerifC12")
GO_SEED = dict(module="core", pkg="internal/congestion", pkgname="congestion",
               files={"zz_verif_c12_seed_test.go": "c12/c12_seed_test.go"}, run="TestVerifC12Seed")
PARAMS_NAME = "ParamsC12"
HEADER = ("From Hy Require Import lib.Harness model.C12_Queue model.C12_Sender corr.C12_Corr.\n"
          "From Coq Require Import ZArith List.\nImport ListNotations.\nLocal Open Scope Z_scope.\n")
EXTRA_TARGETS = ["corr/C12_Corr.vo"]
PER_SHARD = 12
DESIGN_REF = "DESIGN.md section 4 C12"
TECHNIQUE = ("Coq proof (refinement of ring buffer / indexed queue to list and finite-map specs, inductive invariants over operation and "
             "event sequences, window invariant for all float oracle values, and an inductive invariant of the COMPLETE sender - state "
             "machine, sampler, tracker, pacer, binary64 arithmetic on primitive floats - over all well-formed call sequences) on a "
             "hand-written model + differential correspondence in vm_compute: the real structures step by step, sampled events of the real "
             "bbrSender under a bottleneck simulator recomputed, and whole call histories replayed by the full model from the initial state "
             "with the full state compared after every call")


# ---------------------------------------------------------------- generators: layer 1

def gen_ring(rng, n):
    init = rng.choice([0, 0, 1, 2, 3, 4, 8])
    ops = []
    size = 0
    val = 1
    phase = rng.choice(["grow", "wrap", "mixed", "panic"])
    for _ in range(n):
        r = rng.random()
        if phase == "grow":
            code = 0 if r < 0.7 else rng.choice([1, 2, 3, 4])
        elif phase == "wrap":
            code = 0 if (size < 3 or r < 0.45) else 1 if r < 0.9 else rng.choice([2, 3, 4])
        elif phase == "panic":
            code = rng.choice([0, 1, 1, 2, 3, 4, 5])
        else:
            code = rng.choice([0, 0, 0, 1, 1, 2, 3, 4]) if r > 0.02 else 5
        arg = 0
        if code == 0:
            arg = val
            val += rng.choice([1, 1, 7])
            size += 1
        elif code == 1:
            size = max(0, size - 1)
        elif code == 2:
            arg = rng.choice([0, max(0, size - 1), size, size + 1, -1, rng.randrange(0, size + 1)])
        elif code == 5:
            size = 0
        ops.append([code, arg])
        if rng.random() < 0.03:
            phase = rng.choice(["grow", "wrap", "mixed", "panic"])
    return {"k": "ring", "init": init, "ops": ops}


def gen_pq(rng, n, size=None, style=None):
    size = size if size is not None else rng.choice([0, 1, 2, 4, 8])
    style = style or rng.choice(["sender", "random", "random", "abuse"])
    ops = []
    last = rng.choice([-1, 0, 5, 1000])   # last emplaced
    live = []
    val = 1
    for _ in range(n):
        r = rng.random()
        if style == "sender":
            # OnPacketSent / RemoveObsoletePackets pattern with a sliding window
            if r < 0.6 or not live:
                last += 1 if rng.random() < 0.85 else rng.choice([2, 3, 9])
                ops.append([0, last, val]); live.append(last); val += 1
            elif r < 0.8:
                ops.append([1, rng.choice(live + [last + 1, live[0] - 1]), 0])
            else:
                k = rng.choice([last - 2, last + 1, live[len(live) // 2], live[0] - 1])
                ops.append([3, k, 0]); live = [x for x in live if x >= k]
        else:
            c = rng.random()
            if c < 0.45:
                step = rng.choice([1, 1, 1, 2, 3, 6, 40 if style == "abuse" else 2])
                pn = last + step
                v = val
                if style == "abuse" and rng.random() < 0.25:
                    pn = rng.choice([last, last - 1, -1, (live[0] if live else 0)])
                if style == "abuse" and rng.random() < 0.05:
                    v = -1
                ops.append([0, pn, v]); val += 1
                if v >= 0 and pn != -1 and (not live or pn > last):
                    live.append(pn); last = pn
            elif c < 0.6:
                ops.append([1, rng.choice(live + [last + 1, last + 2, -1, 0, (live[0] - 1 if live else 3)]), 0])
            elif c < 0.85:
                pn = rng.choice(live + [last + 1, -1]) if live and rng.random() < 0.8 else rng.randrange(0, last + 3)
                if live and rng.random() < 0.4:
                    pn = live[0]
                ops.append([2, pn, 0])
                if pn in live:
                    live.remove(pn)
            else:
                k = rng.choice([(live[0] if live else 0) + rng.randrange(-1, 4), last, last + 1, last + 5, -1, 0])
                ops.append([3, k, 0]); live = [x for x in live if x >= k]
    return {"k": "pq", "size": size, "ops": ops}


def gen_wf(rng, n):
    inst = rng.choice(["max", "max", "min", "xev"])
    win = rng.choice([0, 1, 4, 10, 10, 10, 100])
    ops = []
    t = rng.choice([0, 1, 50])
    span = rng.choice([3, 10, 1000])
    for _ in range(n):
        r = rng.random()
        t += rng.choice([0, 0, 1, 1, 1, 2, 3, 6, 12]) if rng.random() < 0.95 else -rng.randrange(1, 5)
        t = max(t, 0) if rng.random() < 0.98 else t
        if t < 0:
            t = 0
        s = rng.randrange(0, span)
        if r < 0.9:
            ops.append([0, s, t, rng.randrange(0, 50), rng.randrange(0, 9)])
        elif r < 0.94:
            ops.append([1, s, t, rng.randrange(0, 50), rng.randrange(0, 9)])
        elif r < 0.97:
            ops.append([2, 0, 0, 0, 0])
        else:
            ops.append([3, 0, rng.choice([0, 1, 4, 10, 40]), 0, 0])
    return {"k": "wf", "inst": inst, "win": win, "ops": ops}


PROFILES = ["standard", "conservative", "aggressive"]


def sim_case(rng, profile, kind, tier):
    big = tier != "quick"
    c = {"seed": rng.randrange(1, 2**31), "profile": profile, "mds": rng.choice([1200, 1252, 1280]),
         "cap": rng.choice([625000, 1250000, 2500000]), "rtt": rng.choice([20, 40, 80, 150]),
         "loss": 0, "burstEv": 0, "burstLen": 0, "agg": 0, "idle": [], "gap": 5, "nonrtx": 10, "mtu": [],
         "dur": 12000, "dumpMax": 150 if not big else 250, "traceMax": 120 if not big else 200, "clean": False, "kind": kind}
    # layer 3: the first replayMax calls are recorded and replayed by the full Coq model from the initial state
    c["replayMax"] = 150 if not big else 1200
    bdp = c["cap"] * c["rtt"] // 1000
    c["queue"] = max(20000, bdp * rng.choice([1, 2]))
    if kind in ("rp-slow", "rp-slow-far", "rp-mid"):
        # short histories replayed WHOLE by the model.  rp-slow: 20..40 KB/s for 13 s (~600-1000 calls): STARTUP, DRAIN,
        # PROBE_BW gain cycling, recovery (conservation, growth), min_rtt expiry after 10 s -> PROBE_RTT and its exit;
        # rp-mid: 150..600 KB/s for 3 s (STARTUP -> DRAIN -> PROBE_BW, recovery, losses / aggregation / idle phases / MTU raise)
        c["dumpMax"], c["traceMax"] = 40, 40
        if kind in ("rp-slow", "rp-slow-far"):
            c["cap"] = rng.choice([20000, 25000, 30000, 40000])
            c["rtt"] = rng.choice([10, 20, 40])
            c["dur"] = 13000
            if kind == "rp-slow-far":
                # a round trip longer than probeRttTime (200 ms): PROBE_RTT's exit time passes before a round has
                # passed, so the exit waits for probeRttRoundPassed
                c["rtt"] = rng.choice([260, 300, 350])
                c["cap"] = rng.choice([30000, 40000])
                c["dur"] = 14500
            c["loss"] = rng.choice([0, 0, 5, 10])
            c["agg"] = rng.choice([0, 0, 10])
            c["gap"] = rng.choice([0, 5, 20])
            c["nonrtx"] = rng.choice([0, 10, 30])
            c["queue"] = max(8 * c["mds"], 2 * c["cap"] * c["rtt"] // 1000)
            c["idle"] = [[6000, 6300]] if rng.random() < 0.3 else []
            c["replayMax"] = 1100 if not big else 2500
        else:
            c["cap"] = rng.choice([150000, 300000, 600000])
            c["rtt"] = rng.choice([10, 20])
            c["dur"] = 3000
            c["loss"] = rng.choice([0, 5, 20])
            c["agg"] = rng.choice([0, 5])
            c["gap"] = rng.choice([0, 20])
            c["nonrtx"] = rng.choice([0, 30])
            c["idle"] = [[1500, 1700]] if rng.random() < 0.4 else []
            c["mtu"] = [[rng.randrange(300, 2500), 1452]] if rng.random() < 0.5 else []
            c["queue"] = max(15000, c["cap"] * c["rtt"] // 1000 * rng.choice([1, 2]))
            c["replayMax"] = 700 if not big else 2500
    elif kind == "clean":
        # loss-free path of fixed capacity, never app-limited: 32 s simulated, i.e. through the first min_rtt expiry (10 s without
        # a new minimum), the PROBE_RTT episode it causes and 20 s beyond; every 5 s window from 12 s on must deliver >= 50% of capacity
        c["clean"] = True
        c["dur"] = 32000
        c["thrFrom"], c["thrWin"], c["thrMinPm"] = 12000, 5000, 500
        c["mtu"] = [[rng.randrange(500, 6000), 1452]] if rng.random() < 0.5 else []
        c["queue"] = max(40000, 2 * bdp)
    elif kind in ("clean-fast", "clean-fast-lo", "clean-fast-mid", "clean-fast-hi"):
        # the high-capacity part of the capacity dimension: loss-free path of 200 Mbit/s .. 2 Gbit/s, short round trip, never
        # app-limited.  The pacer wakes at most once per MinPacingDelay (1 ms), so the rate is sustained only if every wake-up may
        # release a burst proportional to the bandwidth (maxBurstSize's first term; 10 datagrams per ms are ~100-116 Mbit/s), the
        # window holds 10^3..10^4 datagrams and the sampler's queue / the filters see 10^5 packets per second.  Acks on a
        # 0.3-2 ms grid (one event per ack would be 10^5 events per second; a receiver at these rates coalesces anyway).
        # Same verdict as `clean`: every 5 s window from 12 s on delivers >= 50% of capacity; 22.5 s simulated = two windows (17.5 s = one above 1 Gbit/s)
        if kind == "clean-fast":
            kind = rng.choice(["clean-fast-lo", "clean-fast-mid", "clean-fast-hi"])
        lo, hi, grid = {"clean-fast-lo": (25, 50, [1000, 2000]), "clean-fast-mid": (62, 125, [750, 1000, 2000]),
                        "clean-fast-hi": (125, 250, [300, 500, 1000])}[kind]
        c["clean"] = True
        c["cap"] = rng.choice([lo, hi, (lo + hi) // 2, rng.randrange(lo, hi + 1)]) * 1000000
        c["rtt"] = rng.choice([2, 5, 10, 20])
        # the ack grid: an arriving ack wakes the send loop as the pacer's timer does (quic-go sends after handling received
        # packets when the pacer has budget), so a burst limit of k datagrams shows as a rate ceiling of k datagrams per
        # min(grid, MinPacingDelay); grids are chosen per band so that 10 datagrams per wake-up are below 50% of capacity
        # (except below ~30 MB/s)
        c["aggUs"] = rng.choice(grid)
        c["gap"], c["nonrtx"] = rng.choice([0, 2]), rng.choice([0, 2])
        c["dur"] = 22500 if c["cap"] <= 125000000 else 17500     # (above 1 Gbit/s one window: 3 x 10^6 packets)
        c["thrFrom"], c["thrWin"], c["thrMinPm"] = 12000, 5000, 500
        c["mtu"] = [[rng.randrange(500, 6000), 1452]] if rng.random() < 0.5 else []
        bdp = c["cap"] * c["rtt"] // 1000
        c["queue"] = max(40000, 2 * bdp)
        c["dumpMax"], c["traceMax"], c["replayMax"] = 24, 30, 80
    elif kind == "clean-agg":
        # ack aggregation on a loss-free path of fixed capacity: acks released every 2..10 ms (Wi-Fi / GRO / a busy receiver) at
        # 50..200 Mbit/s, so every ack event newly acknowledges 10..170 packets - the bandwidth sampler must produce a sample for
        # EVERY packet of the event (entries are dropped only after they were sampled), the ack-height tracker absorbs the bursts.
        # Same verdict as `clean`; 27.5 s simulated = three windows, through the first min_rtt expiry
        c["clean"] = True
        c["cap"] = rng.choice([6250000, 8000000, 12500000, 18750000, 25000000, rng.randrange(6250000, 25000001)])
        c["rtt"] = rng.choice([10, 20, 40])
        c["agg"] = rng.choice([2, 3, 4, 5, 8, 10])
        c["gap"], c["nonrtx"] = rng.choice([0, 5]), rng.choice([0, 10])
        c["dur"] = 27500
        c["thrFrom"], c["thrWin"], c["thrMinPm"] = 12000, 5000, 500
        c["mtu"] = [[rng.randrange(500, 6000), 1452]] if rng.random() < 0.5 else []
        bdp = c["cap"] * (c["rtt"] + c["agg"]) // 1000
        c["queue"] = max(40000, 2 * bdp)
        c["dumpMax"], c["traceMax"], c["replayMax"] = 40, 40, 100
    elif kind == "clean-lan":
        # the short end of the RTT dimension: a loss-free LAN / same-metro path, 0.1..0.9 ms round trip at 3..40 Gbit/s with a
        # bandwidth-delay product of 300..1000 datagrams (well above the 32-datagram initial window), never app-limited.  A round
        # trip is less than one unit of any millisecond (and, at the fast end, 100 units of microsecond) arithmetic on durations;
        # min_rtt x bandwidth is 10^13..10^15 in the code's ns x bits/s units.  Acks on a 10..50 us grid (at most a fifth of a
        # round trip).  Everything scales with the round trip, so the run lasts 120..480 ms (~350k datagrams; 500..1200 round
        # trips) and is judged in three windows of a sixth of it (>= 22 round trips = 2+ PROBE_BW gain cycles), from half-time on:
        # each must deliver >= 50% of capacity, as in `clean`
        c["clean"] = True
        c["rttUs"] = rng.choice([100, 150, 200, 300, 400, 500, 600, 750, 900, rng.randrange(100, 901)])
        c["rtt"] = 0
        bdp_pk = rng.choice([300, 400, 600, 800, 1000])
        c["cap"] = max(400000000, min(5000000000, bdp_pk * 1250 * 1000000 // c["rttUs"]))
        c["aggUs"] = rng.choice([g for g in [10, 20, 25, 50] if 5 * g <= c["rttUs"]])
        c["gap"], c["nonrtx"] = rng.choice([0, 2]), rng.choice([0, 2])
        c["dur"] = max(120, min(480, 350000 * 1250 * 1000 // c["cap"])) // 6 * 6
        c["thrWin"] = c["dur"] // 6
        c["thrFrom"], c["thrMinPm"] = 3 * c["thrWin"], 500
        c["warmMs"] = c["thrFrom"]
        c["mtu"] = [[rng.randrange(1, c["dur"] // 3), 1452]] if rng.random() < 0.5 else []
        bdp = c["cap"] * c["rttUs"] // 1000000
        c["queue"] = max(40000, 2 * bdp)
        c["dumpMax"], c["traceMax"], c["replayMax"] = 24, 30, 80
    elif kind == "clean-far":
        # the long end of the RTT dimension: a loss-free path with a 0.5..2 s round trip (geostationary hops, badly bloated
        # links) at moderate capacity (0.25..10 MB/s; bandwidth-delay product 400..4000 datagrams, below the maximum window),
        # acks released every 5..20 ms, never app-limited.  A round trip is longer than probeRttTime (200 ms) and a sizeable
        # part of minRttExpiry (10 s): STARTUP takes 10+ round trips and can be cut by the first min_rtt expiry, every
        # PROBE_RTT episode (one per minRttExpiry + ~2 round trips) costs 2+ round trips without data, i.e. up to ~30% of the
        # time at 2 s.  Judged in two windows of 15 round trips (>= 2 PROBE_RTT periods at 2 s) from 25 round trips on: each
        # must deliver >= 50% of capacity, as in `clean`
        c["clean"] = True
        c["rtt"] = rng.choice([500, 750, 1000, 1500, 2000])
        bdp_pk = rng.choice([400, 1000, 2000, 4000])
        c["cap"] = bdp_pk * 1250 * 1000 // c["rtt"]
        c["agg"] = rng.choice([5, 10, 20])
        c["gap"], c["nonrtx"] = rng.choice([0, 5]), rng.choice([0, 10])
        c["thrWin"] = 15 * c["rtt"]
        c["thrFrom"], c["thrMinPm"] = 25 * c["rtt"], 500
        c["warmMs"] = c["thrFrom"]
        c["dur"] = c["thrFrom"] + 2 * c["thrWin"]
        c["mtu"] = [[rng.randrange(500, 6000), 1452]] if rng.random() < 0.5 else []
        bdp = c["cap"] * c["rtt"] // 1000
        c["queue"] = max(40000, 2 * bdp)
        c["dumpMax"], c["traceMax"], c["replayMax"] = 40, 40, 100
    elif kind == "fast-idle":
        # very fast path (1..10 GB/s, 1-2 ms), a short ramp to full rate, then application idle gaps of 5..30 s with short sending
        # phases in between: pacer rate x time since the last packet is between 0.5 and 32 times 2^63 at the resumes (the int64 product
        # in Pacer.Budget wraps, to either sign); verdict at every resume: the pacer's announced send time has budget for a datagram
        c["cap"] = rng.choice([1000, 1250, 2000, 2500, 4000, 5000, 8000, 10000]) * 1000000
        c["rtt"] = 1 if c["cap"] > 4000000000 else rng.choice([1, 2])
        c["aggUs"] = rng.choice([100, 200, 250])
        c["gap"], c["nonrtx"] = rng.choice([0, 2]), rng.choice([0, 2])
        bdp = c["cap"] * c["rtt"] // 1000
        c["queue"] = max(40000, bdp * 2)
        ramp = max(15, min(300, 60000 * 1200 * 1000 // c["cap"]))      # ms; 60k..125k packets (>= 12 round trips)
        burst = max(3, ramp // 8)
        t, idle = ramp, []
        for _ in range(rng.choice([3, 4, 5])):
            g = rng.choice([5000, 7500, 9000, 11000, 13000, 17000, 23000, 30000, rng.randrange(5000, 30001)])
            idle.append([t, t + g])
            t += g + burst
        c["idle"] = idle
        c["dur"] = t
        c["dumpMax"], c["traceMax"], c["replayMax"] = 24, 30, 80
    elif kind == "lossy":
        c["loss"] = rng.choice([5, 20, 50])
        c["burstEv"], c["burstLen"] = rng.choice([(0, 0), (2500, 80), (4000, 250)])
        c["agg"] = rng.choice([0, 5, 25])
        c["idle"] = [[rng.randrange(3000, 5000), rng.randrange(5200, 7000)]] if rng.random() < 0.6 else []
        c["gap"] = rng.choice([0, 20, 80])
        c["nonrtx"] = rng.choice([0, 30])
        c["mtu"] = sorted([[rng.randrange(300, 9000), s] for s in rng.sample([1300, 1350, 1400, 1452], rng.randrange(0, 3))])
        c["mtu"] = [m for i, m in enumerate(c["mtu"]) if all(m[1] > x[1] for x in c["mtu"][:i])]
        c["queue"] = max(15000, bdp // rng.choice([1, 2, 4]))
    elif kind == "probertt":
        # min_rtt expires after 10 s without a new minimum: a standing queue keeps samples above it
        c["dur"] = 26000
        c["agg"] = rng.choice([0, 10])
        c["queue"] = max(60000, 3 * bdp)
        c["loss"] = rng.choice([0, 2])
        c["idle"] = [[14000, 14500]] if rng.random() < 0.5 else []
    elif kind == "applimited":
        c["idle"] = [[t, t + rng.randrange(50, 400)] for t in range(1000, 11000, 900)]
        c["agg"] = rng.choice([0, 15])
        c["loss"] = rng.choice([0, 10])
    elif kind.startswith("slow"):
        # very slow bottleneck (20..200 KB/s): once STARTUP is left the pacing rate gain*bandwidth is below / around the
        # 64 KB/s floor of bandwidthForPacer (DRAIN: capacity < ~190 KB/s, PROBE_BW 0.75 phase: < ~85 KB/s, always: < 64 KB/s);
        # long enough for DRAIN, several PROBE_BW cycles and PROBE_RTT (min_rtt expires after 10 s)
        lo, hi = {"slow-lo": (20000, 60000), "slow-mid": (60000, 120000), "slow-hi": (120000, 200000)}[kind]
        c["cap"] = rng.randrange(lo, hi)
        c["rtt"] = rng.choice([10, 20, 40, 80, 150])
        c["dur"] = rng.choice([16000, 26000])
        c["loss"] = rng.choice([0, 0, 0, 10])
        c["agg"] = rng.choice([0, 0, 10])
        c["gap"] = rng.choice([0, 5])
        c["nonrtx"] = rng.choice([0, 10])
        c["queue"] = max(8 * c["mds"], (c["cap"] * c["rtt"] // 1000) * rng.choice([1, 2, 4]))
        c["idle"] = [[12000, 12400]] if rng.random() < 0.3 else []
    elif kind in ("fat", "smallmax", "smallmax-bdp"):
        # gain x BDP above the maximum window, and long enough to leave STARTUP: the final min(cwnd, max) of
        # calculateCongestionWindow is the binding clamp in DRAIN / PROBE_BW.  fat: NewBbrSender's real maximum (20000
        # datagrams) on a 100..400 MB/s x 60..150 ms path, acks on a grid (one event per ack would be ~10^5 events per RTT);
        # smallmax: a sender built by newBbrSender with a small configured maximum (and sometimes a small initial window);
        # -bdp: maximum between 1.0 and 1.3 BDP (in flight reaches the BDP, so samples are not app-limited and STARTUP ends,
        # while every profile's window gain >= 1.5 puts the target above the maximum); otherwise 0.3..2 BDP (below 1 BDP the
        # sender usually stays in STARTUP with the window at the maximum: the cap of that branch)
        if kind == "fat":
            c["cap"] = rng.choice([150, 200, 300, 400]) * 1000000
            c["rtt"] = rng.choice([80, 100, 150])
            c["agg"] = rng.choice([4, 5, 10])
            c["dur"] = 1500 + 22 * c["rtt"]
            c["gap"], c["nonrtx"] = rng.choice([0, 2]), rng.choice([0, 2])
        else:
            c["cap"] = rng.choice([625000, 1250000, 2500000, 5000000, 10000000])
            c["rtt"] = rng.choice([20, 40, 80])
            bdp_pk = max(8, c["cap"] * c["rtt"] // 1000 // c["mds"])
            f = rng.choice([100, 110, 130]) if kind == "smallmax-bdp" else rng.choice([30, 50, 80, 100, 140, 200])
            c["maxPkts"] = max(8, bdp_pk * f // 100)
            c["icwPkts"] = min(c["maxPkts"], rng.choice([4, 10, 32, 32, c["maxPkts"]]))
            c["agg"] = rng.choice([0, 0, 5])
            c["loss"] = rng.choice([0, 0, 5])
            c["dur"] = rng.choice([12500, 24000]) if c["cap"] <= 1250000 else 4000 if c["cap"] <= 2500000 else 2500
        bdp = c["cap"] * c["rtt"] // 1000
        c["queue"] = max(40000, bdp * rng.choice([2, 3]))
    return {"k": "sim", "sim": c}


def api_case(rng, profile, tier):
    """calls limited only by the precondition of the layer 3 theorems (fevs_ok), see c12Api in c12_replay_test.go"""
    c = {"seed": rng.randrange(1, 2**31), "profile": profile, "mds": rng.choice([1200, 1252, 1280]),
         "n": 350 if tier == "quick" else 900}
    if rng.random() < 0.3:
        c["maxPkts"] = rng.choice([8, 40, 200])
        c["icwPkts"] = min(c["maxPkts"], rng.choice([4, 10, 32]))
    return {"k": "api", "api": c}


def gen_seed_cases(rng, n):
    out = []
    for _ in range(n):
        out.append({"q": rng.choice([0, -1, 1200, 1252, 1280, 1350, 1452, rng.randrange(1, 2000)]),
                    "a": rng.choice([1200, 1252, 1280, rng.randrange(1, 2000)])})
    return out


def gen(rng, tier):
    scale = 1 if tier == "quick" else 15
    cases = []
    for prof in PROFILES:
        cases.append(sim_case(rng, prof, "clean", tier))
        cases.append(sim_case(rng, prof, "lossy", tier))
    # the throughput clause over the capacity dimension and under ack aggregation, every profile: one high-capacity run per
    # profile (one per capacity band, bands permuted over the profiles) and one run with acks released in batches
    for prof, kind in zip(rng.sample(PROFILES, 3), ["clean-fast-lo", "clean-fast-mid", "clean-fast-hi"]):
        cases.append(sim_case(rng, prof, kind, tier))
    for prof in PROFILES:
        cases.append(sim_case(rng, prof, "clean-agg", tier))
    cases.append(sim_case(rng, rng.choice(PROFILES), "probertt", tier))
    cases.append(sim_case(rng, rng.choice(PROFILES), "applimited", tier))
    # the two clamps of the property where they bind: one slow path per capacity band (profiles permuted), small
    # configured maxima, one fat path with the real maximum
    for prof, kind in zip(rng.sample(PROFILES, 3), ["slow-lo", "slow-mid", "slow-hi"]):
        cases.append(sim_case(rng, prof, kind, tier))
    for prof, kind in zip(rng.sample(PROFILES, 2), ["smallmax-bdp", "smallmax"]):
        cases.append(sim_case(rng, prof, kind, tier))
    cases.append(sim_case(rng, rng.choice(PROFILES), "fat", tier))
    # "does not deadlock" at the pacer: very fast paths with long application idle gaps, every profile
    for prof in PROFILES:
        cases.append(sim_case(rng, prof, "fast-idle", tier))
    # layer 3: short histories replayed whole by the full model, every profile
    far = rng.choice(PROFILES)
    for prof in PROFILES:
        cases.append(sim_case(rng, prof, "rp-slow-far" if prof == far else "rp-slow", tier))
        cases.append(sim_case(rng, prof, "rp-mid", tier))
    # calls limited only by the theorems' precondition; the conservative profile (overestimate avoidance: A0 candidates) twice as often
    for prof in (PROFILES + ["conservative"]) * (2 if tier == "quick" else 10):
        cases.append(api_case(rng, prof, tier))
    if tier != "quick":
        for _ in range(12):
            cases.append(sim_case(rng, rng.choice(PROFILES), rng.choice(["rp-slow", "rp-slow-far", "rp-mid"]), tier))
        for _ in range(40):
            cases.append(sim_case(rng, rng.choice(PROFILES), rng.choice(["clean", "lossy", "lossy", "probertt", "applimited"]), tier))
        for _ in range(24):
            cases.append(sim_case(rng, rng.choice(PROFILES), rng.choice(["slow-lo", "slow-lo", "slow-mid", "slow-hi", "smallmax", "smallmax-bdp"]), tier))
        for _ in range(3):
            cases.append(sim_case(rng, rng.choice(PROFILES), "fat", tier))
        for _ in range(9):
            cases.append(sim_case(rng, rng.choice(PROFILES), "clean-fast", tier))
        for _ in range(18):
            cases.append(sim_case(rng, rng.choice(PROFILES), "clean-agg", tier))
        for _ in range(12):
            cases.append(sim_case(rng, rng.choice(PROFILES), "fast-idle", tier))
    for _ in range(24 * scale):
        cases.append(gen_ring(rng, rng.choice([40, 120, 200])))
    for _ in range(36 * scale):
        cases.append(gen_pq(rng, rng.choice([40, 120, 200])))
    # the real initial capacity (256): wrap-around and growth of the sampler's queue
    for _ in range(2 * scale):
        cases.append(gen_pq(rng, 700, size=256, style="sender"))
    for _ in range(24 * scale):
        cases.append(gen_wf(rng, rng.choice([30, 80])))
    # the throughput clause over the RTT dimension, every profile at both extremes: sub-millisecond round trips at multi-Gbit/s
    # (BDP 300..1000 datagrams) and 0.5..2 s round trips at moderate capacity.  (Generated last: the cases above are the same
    # as before for a given seed.)
    for prof in PROFILES:
        cases.append(sim_case(rng, prof, "clean-lan", tier))
    for prof in PROFILES:
        cases.append(sim_case(rng, prof, "clean-far", tier))
    if tier != "quick":
        for _ in range(12):
            cases.append(sim_case(rng, rng.choice(PROFILES), "clean-lan", tier))
        for _ in range(12):
            cases.append(sim_case(rng, rng.choice(PROFILES), "clean-far", tier))
    return cases


# ---------------------------------------------------------------- Coq terms

def z(v):
    return str(v) if v >= 0 else "(%d)" % v


def zl(xs):
    return "[" + ";".join(z(x) for x in xs) + "]"


PROF_INDEX = {"standard": 0, "conservative": 1, "aggressive": 2}


def replay_to_coq(c, o):
    """whole-trace replay term of a sim case (layer 3), None when the case recorded none"""
    if c["k"] not in ("sim", "api") or not o.get("replay") or o.get("replayOver"):
        return None
    sim = c[c["k"]]
    m = sim["mds"]
    if sim.get("maxPkts", 0) > 0:
        icw = (sim.get("icwPkts") or 32) * m
        mcw = sim["maxPkts"] * m
    else:
        icw, mcw = 32 * m, 20000 * m
    return "CReplay %d %d %d %d [%s]" % (PROF_INDEX[sim["profile"]], m, icw, mcw, ";".join(str(x) for x in o["replay"]))


def to_coq(c, o):
    k = c["k"]
    if k == "sim":
        # (sim outputs carry dumps + trace, not steps)
        if "dumps" not in o or "trace" not in o:
            return None
        return "CSim %s %s [%s] [%s]" % ("true" if o.get("agg") else "false", z(c["sim"]["mds"]),
                                         ";".join(zl(t) for t in o["trace"]), ";".join(zl(d) for d in o["dumps"]))
    steps = o.get("steps")
    if steps is None:
        return None
    if k == "ring":
        if len(steps) != len(c["ops"]):
            return None
        body = ";".join("(%s,%s,%s)" % (z(op[0]), z(op[1]), zl(st)) for op, st in zip(c["ops"], steps))
        return "CRing %d%%nat [%s]" % (c["init"], body)
    if k == "pq":
        if len(steps) != len(c["ops"]):
            return None
        body = ";".join("(%s,%s,%s,%s)" % (z(op[0]), z(op[1]), z(op[2]), zl(st)) for op, st in zip(c["ops"], steps))
        return "CPQ %d%%nat [%s]" % (c["size"], body)
    if k == "wf":
        if len(steps) != len(c["ops"]) or o.get("panic"):
            return None
        inst = {"max": 0, "min": 1, "xev": 2}[c["inst"]]
        body = ";".join("(%s,%s)" % (zl(op), zl(st)) for op, st in zip(c["ops"], steps))
        return "CWF %d%%nat %s [%s]" % (inst, z(c["win"]), body)
    return None


def klass(c, o):
    k = c["k"]
    steps = o.get("steps") or []
    if k == "ring":
        caps = {s[3] for s in steps}
        wrapped = any(s[4] > s[5] or s[6] == 1 for s in steps)   # head > tail or full
        pan = any(s[0] == 1 for s in steps)
        return "ring:" + ("grew" if len(caps) > 2 else "fixed") + ("+wrap" if wrapped else "") + ("+panic" if pan else "")
    if k == "pq":
        caps = {s[7] for s in steps}
        gaps = any(s[6] > s[3] for s in steps)   # slots > present entries
        wrapped = any(s[8] > s[9] or s[10] == 1 for s in steps)
        return "pq:" + ("grew" if len(caps) > 1 else "fixed") + ("+gaps" if gaps else "") + ("+wrap" if wrapped else "")
    if k == "wf":
        return "wf:" + c["inst"]
    if k == "api":
        st = o.get("stats") or {}
        return "api:%s:modes=%s" % (c["api"]["profile"], "".join(map(str, st.get("modes", []))))
    if k == "sim":
        st = o.get("stats") or {}
        return "sim:%s:%s:modes=%s:rec=%s%s%s" % (c["sim"]["kind"], c["sim"]["profile"], "".join(map(str, st.get("modes", []))),
                                                "".join(map(str, st.get("recovery", []))),
                                                ":floor-binding" if st.get("floorEvents") else "",
                                                ":cap-binding" if st.get("capEvents") else "") + (
            (":resumes=%d:wrapped-negative=%d:wrapped-positive=%d" % (
                len(st.get("idleResumes") or []), sum(1 for r in st.get("idleResumes") or [] if r[2] % 2 == 1),
                sum(1 for r in st.get("idleResumes") or [] if r[2] >= 2 and r[2] % 2 == 0))) if c["sim"]["kind"] == "fast-idle" else "") + (
            (":windows>=%d%%" % int(100 * min(st["windowRatios"])) if st.get("windowRatios") else ""))
    return k


def nontrivial(c, o):
    if c["k"] in ("sim", "api"):
        return (o.get("stats") or {}).get("cong", 0) >= 100
    return len(o.get("steps") or []) >= 10


def fingerprint(c, o):
    """stable class of a failure: the verdict text with all numbers blanked (one VIOLATION line per class)"""
    import re
    why = o.get("why") or ""
    if not why:
        return None
    return "C12:%s:%s" % (c.get("k"), re.sub(r"[-+]?[0-9][0-9.]*", "#", why)[:90])


def search(ctx, disagreeing):
    """Property-directed search on the implementation alone (no model): more seeds."""
    import random
    found = []
    for s in range(2):
        rng = random.Random(ctx.seed * 1000 + s + 17)
        cases = gen(rng, "quick")
        ok, outs, _, log = common.run_go_cases(ctx, GO, cases, tag="search%d" % s)
        for c, o in zip(cases, outs):
            if o.get("ok") is False:
                found.append({"what": "%s: %s" % (c["k"], o.get("why")), "replay": {"case": c, "impl": trim(o)},
                              "fingerprint": fingerprint(c, o), "found_input": True})
        if found:
            break
    return found


def trim(o):
    """implementation output without the bulky per-step dumps (replays re-run the case anyway)"""
    return {k: v for k, v in o.items() if k not in ("steps", "dumps", "trace", "replay", "replayObs")}


RULE = ("seeded generator. Layers 2-3: a discrete-event bottleneck simulator inside the Go harness (capacity, RTT, queue, random and burst "
        "loss, ack aggregation, app-limited phases, packet-number gaps, non-ack-eliciting packets, MTU raises; three profiles; clean / "
        "lossy / probe-rtt / app-limited scenarios, plus the paths on which the property's two clamps bind: very slow bottlenecks "
        "(20..200 KB/s, one per capacity band, run through DRAIN, PROBE_BW cycles and PROBE_RTT: pacing rate below the 64 KB/s floor), "
        "senders built by newBbrSender with a small configured maximum / initial window (0.3..2 BDP) and one fat path (150..400 MB/s "
        "x 80..150 ms) with NewBbrSender's real maximum: gain x BDP above the maximum window after STARTUP) "
        "drives the real bbrSender following quic-go's call discipline; after EVERY event the "
        "harness checks on the implementation: no panic, 4*mds <= GetCongestionWindow <= max, bandwidthForPacer >= 65536, EntrySlotsUsed "
        "<= lastSent-leastUnacked+1, CanSend below 4*mds, the pacer has budget for a datagram at the time TimeUntilSend announces (at once when that time is zero or past), "
        "PROBE_RTT is not re-entered within minRttExpiry (10 s) of leaving it and at most twice in any 10 s (theorem C12_probe_rtt_spacing), generated trace is quic_consistent; "
        "the loss-free fixed-capacity runs (one per profile, 0.6..2.5 MB/s x 20..150 ms, 32 s simulated: through the first min_rtt expiry after 10 s, its PROBE_RTT episode and 20 s beyond) "
        "must deliver >= 50% of capacity in EVERY 5 s window from 12 s on; the same verdict over the capacity dimension (kind clean-fast-lo/-mid/-hi, one per profile, bands permuted over the profiles: "
        "200 Mbit/s .. 2 Gbit/s x 2..20 ms, acks on a 0.3..2 ms grid chosen per band so that a wake-up - pacer timer or arriving ack - limited to 10 datagrams stays below half of capacity; 17.5..22.5 s simulated) "
        "and under ack aggregation (kind clean-agg, every profile: 50..200 Mbit/s x 10..40 ms, acks released every 2..10 ms, i.e. 10..170 packets newly acknowledged per ack event; 27.5 s simulated) and over the RTT dimension at both extremes, every profile each: kind clean-lan = 0.1..0.9 ms round trip at 3..40 Gbit/s with a bandwidth-delay product of 300..1000 datagrams "
        "(a round trip below one unit of millisecond arithmetic; acks on a 10..50 us grid; 120..480 ms simulated = 500..1200 round trips, three windows of a sixth of the run from half-time on), kind clean-far = "
        "0.5..2 s round trip at 0.25..10 MB/s (BDP 400..4000 datagrams; a round trip above probeRttTime and a sizeable part of minRttExpiry; 55 round trips simulated, two windows of 15 round trips from 25 round trips on); "
        "very fast paths with application idle gaps (kind fast-idle, one per profile: 1..10 GB/s x 1-2 ms, a 15..72 ms ramp, "
        "then 3-5 idle gaps of 5..30 s with millisecond sending phases between them, so that pacer rate x time since the last packet is 0.5..100 x 2^63 at the resumes - the int64 product of "
        "Pacer.Budget not wrapped, wrapped negative, wrapped back to non-negative; acks on a 100-250 us grid); the long-run clauses (PROBE_RTT spacing, throughput windows) do not end the run, "
        "the replay lists the first violation of each; a sample of events "
        "(mode/recovery/full-bandwidth changes, losses, MTU raises, events at which a clamp is binding - pacing rate below twice the "
        "floor, window at the maximum or full-bandwidth target above it -, the event failing the verdict, + random; each class with its "
        "own share of the budget) is dumped (fields before/after + oracle values + pacingRate field in bits/s) and recomputed by the "
        "Coq model: the whole OnCongestionEventEx window update, calculateCongestionWindow on its own, GetCongestionWindow, and "
        "bandwidthForPacer from the pacing rate (division by BytesPerSecond and floor done by the model); the trace prefix is checked with the model's quic_consistent and replayed on the model queue. Layer 1: operation sequences on the real RingBuffer (push/pop/offset/front/back/clear; growth past capacity, "
        "wrap-around, calls on empty), packetNumberIndexedQueue (emplace with gaps, out-of-order and nil emplace, get, remove out of order, "
        "RemoveUpTo; initial sizes 0..8 and the real 256) and WindowedFilter (max/min/extraAckedEvent instances; ties, expiry, wrap of "
        "the uint64 time difference), every return value and the raw state compared with the model after every step. "
        "Layer 3 (whole-trace replay): every sim records its first calls (quick 150, thorough 1200; all of them for the short "
        "rp-slow / rp-slow-far / rp-mid histories, one per profile: 20..40 KB/s for 13 s through STARTUP, DRAIN, PROBE_BW gain cycling, "
        "recovery, min_rtt expiry, PROBE_RTT and its exit - one of them with a round trip above probeRttTime -, 150..600 KB/s for 3 s "
        "with losses / aggregation / idle phases / an MTU raise) and the kind `api` drives the real sender with random call sequences "
        "limited only by the precondition of the layer 3 theorems (packet numbers repeating or going back, acks of packets never sent, "
        "time standing still or going back, zero bytes in flight reported for a retransmittable packet, drain phases that leave several "
        "A0 candidates behind; verdict: no panic, window range, pacing floor, CanSend below 4 datagrams).  Each call is packed into "
        "one number with a digest of the FULL state after it (all bbrSender / bandwidthSampler / maxAckHeightTracker / pacer fields, ring "
        "layouts, the entry of the last packet, GetCongestionWindow, PacingRate, bandwidthForPacer, pacer budget, TimeUntilSend, CanSend; "
        "raw ring contents every 50th call); the Coq model replays the calls from newBbrSender's state and must reproduce every digest. "
        "Inputs read back: rttStats.MinRTT() at the call and the random gain-cycle offset. "
        "Non-trivial = at least 10 steps. Distinct = distinct JSON case.")
ASSUMPTIONS = [
    "'does not deadlock' at the pacer is delimited as follows: theorems for every call time with bandwidth x elapsed < 2^63 and for products wrapped to <= -(budgetAtLastSent+1)*10^9 "
    "(C12_pacer_late_calls); the harness verdict ('at the time TimeUntilSend announces, or at once if it is past, the budget covers a datagram') is evaluated at EVERY resume the generator "
    "produces, including rate x gap >= 2^63 (the range C11's quantifier excludes; C12's text does not) up to ~100 x 2^63; in the sub-ranges where the code's budget is whatever a wrapped "
    "product leaves (non-negative wrap, or negative but above -(budgetAtLastSent+1)*10^9) the current code has a budget below one datagram for about 10^12 of every 2^64 product values "
    "(probability ~1e-7 per resume, self-healing within one datagram time): such a resume would be reported as a violation and is a genuine instant of the defect class",
    "throughput clause: simulator verdict, not a theorem; 'loss-free' = no random or burst loss (the bottleneck queue of 2 BDP can still tail-drop during STARTUP)",
    "quic-go call discipline (read from sent_packet_handler.go, not modelled): OnPacketSent for every packet with strictly increasing "
    "packet numbers (skips allowed), OnCongestionEventEx only with acked+lost non-empty, acked ascending, numbers previously sent",
    "QUIC packet numbers are < 2^62 and ring lengths < 2^31, so the int64 index arithmetic of the queue cannot wrap (model uses Z there)",
]
TRUSTED = ["modelled rather than verified: bbr/ringbuffer.go, packet_number_indexed_queue.go, windowed_filter.go, bbr_sender.go, "
           "bandwidth_sampler.go, bandwidth.go and common/pacer.go (hand transcription in coq/model/C12_Queue.v, C12_Sender.v, C12_Full.v)",
           "Coq primitive floats / 63-bit integers (PrimFloat.*, PrimInt63.* listed by Print Assumptions for the layer 3 theorems; no "
           "FloatAxioms property is used) as the rendering of Go's float64 on amd64, incl. float64 -> int64 / uint64 out-of-range results"]
LEVEL_TEXT = ("Machine-checked Coq theorems over a hand-written Gallina model of the BBR sender's containers and integer window skeleton. "
              "Layer 1 (exact transcriptions of RingBuffer, packetNumberIndexedQueue, WindowedFilter): the ring refines a list queue, the "
              "indexed queue refines a finite map for EVERY operation sequence and never panics, its slots are exactly the live packet-number "
              "span (RemoveUpTo n leaves nothing below n), the max filter keeps its estimates ordered. Layer 2 (window clamps, recovery "
              "window, round/recovery state, SetMaxDatagramSize rescaling with explicit int64/uint64 wraps, bandwidthForPacer with explicit units "
              "(bits/s -> bytes/s through the float64 round trip, then the floor), calculateCongestionWindow's branch structure with each clamp "
              "where the code has it, any newBbrSender initial/maximum window, seed rule, pacer "
              "wake-up arithmetic, the sampler's queue usage): for every event sequence and ALL values of the float-derived quantities "
              "(oracles) 4*mds <= GetCongestionWindow <= maxCongestionWindow, bandwidthForPacer >= 65536, no panic for non-decreasing "
              "datagram sizes, EntrySlotsUsed <= lastSent-leastUnacked+1 on every trace with increasing packet numbers, CanSend below 4*mds "
              "and pacer wake-up has budget (deadlock half, partial). Tied to /repo on every run by regenerated constants and a per-step "
              "differential run: structures step by step, and the real bbrSender under a bottleneck simulator with ~150 dumped events per "
              "trace recomputed by the model. Layer 3 (the complete bbrSender + bandwidthSampler + maxAckHeightTracker + pacer as a "
              "deterministic LTS, floats bit-exact on primitive floats, no oracle): for every profile configuration and every call sequence "
              "that is well-formed (monotime values, int64 MinRTT non-zero at congestion events, non-negative numbers, non-empty events, "
              "non-decreasing datagram sizes - packet numbers need not even increase) no call panics (ring pops of chooseA0Point, "
              "lostPackets[len-1], gain table index, divisions), modes / gains / cycle index are table values, DRAIN and PROBE_BW only at "
              "full bandwidth, mode transitions obey the stated entry / exit conditions, every step refines a step of the layer 2 skeleton "
              "(so the window and pacing-floor theorems hold with no oracle), CanSend below 4 datagrams and the pacer's wake-up time has "
              "budget for the sender's datagram size. Tied by whole-history replay with the full state compared after every call. "
              "Long-run clauses: at the level of whole OnCongestionEventEx calls the min-RTT stamp only moves to the time of the event, PROBE_RTT is entered only with a stamp older than "
              "minRttExpiry and entering / leaving refresh it (C12_probe_rtt_spacing: PROBE_RTT cannot be re-entered within 10 s of leaving it); the pacer called late (C12_pacer_late_calls): "
              "no shrinking budget while bandwidth x elapsed < 2^63, a full burst when the product wrapped negative; clamping a negative budget to zero is refuted "
              "(C12_pacer_negative_budget_must_not_clamp_to_zero); the pacer does not cap the rate below the bandwidth it is given (C12_pacer_burst_sustains_rate: the burst cap is at least 4 x "
              "what the bandwidth delivers per MinPacingDelay, and a wake-up one MinPacingDelay after the last packet has at least that much budget). "
              "Throughput on a loss-free path: no theorem; harness verdict on the simulator (every 5 s window >= 50% of capacity; 0.6 MB/s .. 250 MB/s, with and without ack aggregation; round trips of 0.1..0.9 ms at up to 5 GB/s and of 0.5..2 s, windows scaled with the round trip), "
              "supported by C12_bdp_exact: bdpFromRttAndBandwidth is the exact floor of min_rtt x bandwidth in bytes whenever the ns x bits/s product fits int64 - it holds n bytes as soon as the "
              "path does, for ANY min_rtt, and is zero (getTargetCongestionWindow's initial-window fallback) only when the path holds less than one byte; a version on whole milliseconds is zero for every "
              "sub-millisecond min_rtt whatever the bandwidth.")
LEVEL_NOTE = ("Trusted: Coq kernel + vm_compute; hand-written model (tie = sampled differential testing + regenerated ParamsC12); python/Go glue; the "
              "simulator's rendering of quic-go's call discipline. No axioms beyond Coq's float / int63 primitives in the layer 3 theorems. "
              "Not proved: numeric properties of the float results (bandwidth estimate accuracy, gain x BDP bounds), recovery-state range, "
              "mode transitions lifted to whole events beyond the per-function statements, budget monotonicity after the wake-up time, "
              "convergence/throughput, quic-go's send loop. Observations (no property clause violated): chooseA0Point's trailing loop "
              "re-reads Len() while popping and keeps about half of the candidates; quic-go reports bytesInFlight after adding the packet, so "
              "the sampler's `bytesInFlight == 0` quiescence branch only runs for non-ack-eliciting packets.")


def run(ctx):
    import random
    spec = sys.modules[__name__]
    rng = random.Random(ctx.seed)
    cases = gen(rng, ctx.tier)
    violations = []
    ok, outs, params, golog = common.run_go_cases(ctx, GO, cases)
    if not ok:
        ctx.say("Go harness failed:\n" + golog[-3000:])
        violations.append({"what": "tie broken: Go harness for C12 did not build/run against the current tree (%s)" % golog.strip()[-400:],
                           "replay": {"broken": "go harness", "log": golog[-4000:]}, "found_input": False, "fingerprint": None})
        outs = outs if len(outs) == len(cases) else []
    # seedPacketSize lives in another package: second harness run
    seed_cases = gen_seed_cases(rng, 60)
    sok, souts, _, slog = common.run_go_cases(ctx, GO_SEED, seed_cases, tag="seed")
    if not sok:
        ctx.say("Go seed harness failed:\n" + slog[-2000:])
        violations.append({"what": "tie broken: Go harness for seedPacketSize did not build/run (%s)" % slog.strip()[-300:],
                           "replay": {"broken": "go harness (seed)", "log": slog[-3000:]}, "found_input": False, "fingerprint": None})
        souts = []
    for c, o in zip(seed_cases, souts):
        if o.get("ok") is False:
            violations.append({"what": "seedPacketSize(%d,%d): %s" % (c["q"], c["a"], o.get("why")),
                               "replay": {"case": {"k": "seed", **c}, "impl": o}, "fingerprint": None, "found_input": True})
    seed_term = None
    if souts:
        seed_term = "CSeed [%s]" % ";".join("(%s,%s,%s)" % (z(c["q"]), z(c["a"]), z(o["seed"])) for c, o in zip(seed_cases, souts))
    if params is not None:
        if common.write_params(PARAMS_NAME, [tuple(p) for p in params]):
            ctx.say("Params changed -> rebuilding dependants")
    proof_ok, pinfo = common.proof_stage(ctx, ctx.pid, extra_targets=EXTRA_TARGETS)
    if not proof_ok:
        ctx.say("PROOF STAGE BROKEN: " + json.dumps({k: pinfo[k] for k in pinfo if k != "theorems"})[:3000])
    mism, corr_ok, corr_err, compared = [], True, "", 0
    n_replays, n_replay_events, replay_missing = 0, 0, []
    if outs:
        terms, idxmap = [], []
        for i, (c, o) in enumerate(zip(cases, outs)):
            t = to_coq(c, o)
            if t is not None:
                terms.append(t)
                idxmap.append(i)
            t = replay_to_coq(c, o)
            if t is not None:
                terms.append(t)
                idxmap.append(i)
                n_replays += 1
                n_replay_events += o.get("replayEvents", 0)
            elif ((c["k"] == "sim" and c["sim"].get("replayMax", 0) > 0) or c["k"] == "api") and o.get("ok") is not False:
                # a sim that was asked for a replay and delivered none (field overflow in the packed format, missing output)
                replay_missing.append(i)
        if seed_term:
            terms.append(seed_term)
            idxmap.append(-1)
        compared = len(terms)
        t1 = time.time()
        eok, mm, err = common.eval_cases(ctx, "cases", HEADER, terms, PER_SHARD)
        ctx.say("coq evaluation of %d cases: %.1fs" % (len(terms), time.time() - t1))
        if not eok:
            corr_ok, corr_err = False, err
            ctx.say("CORRESPONDENCE EVALUATION FAILED: " + err)
        seed_mism = any(idxmap[j] == -1 for j in mm)
        mism = sorted({idxmap[j] for j in mm if idxmap[j] >= 0})
        if seed_mism:
            corr_ok, corr_err = False, "seedPacketSize model disagrees with the implementation"
        if replay_missing:
            corr_ok, corr_err = False, "sim case %d recorded no replayable history (%s)" % (
                replay_missing[0], outs[replay_missing[0]].get("replayOver", "no replay output"))
        ctx.say("whole-trace replays: %d histories, %d calls replayed by the full model" % (n_replays, n_replay_events))
    hist, nontriv = {}, set()
    supporting = {"label": "no theorem covers throughput/convergence; loss-free, never app-limited simulated bottleneck of fixed capacity, 17.5..32 s "
                           "per profile and class (clean: 0.6..2.5 MB/s; clean-fast-*: 25..250 MB/s; clean-agg: 6..25 MB/s with acks released every 2..10 ms); ratio = bytes delivered after the first 2 s / (capacity * time); window_ratios = the same per 5 s "
                           "window from 12 s on (after the first min_rtt expiry and its PROBE_RTT episode): each must be >= 0.5 (harness verdict). RTT extremes: clean-lan = 0.1..0.9 ms x 0.4..5 GB/s "
                           "(BDP 300..1000 datagrams; 120..480 ms simulated, three windows of a sixth of the run from half-time on, ratio counted from half-time), clean-far = 0.5..2 s x 0.25..10 MB/s "
                           "(55 round trips simulated, two windows of 15 round trips from 25 round trips on, ratio counted from there)",
                  "threshold": 0.5, "runs": []}
    for c, o in zip(cases, outs):
        k = klass(c, o)
        hist[k] = hist.get(k, 0) + 1
        if nontrivial(c, o):
            nontriv.add(json.dumps(c, sort_keys=True))
        if o.get("ok") is False:
            violations.append({"what": "%s: %s" % (c.get("k"), o.get("why")), "replay": {"case": c, "impl": trim(o)},
                               "fingerprint": fingerprint(c, o), "found_input": True})
        if c["k"] == "sim" and c["sim"].get("clean") and o.get("stats"):
            r = o["stats"]["throughputRatio"]
            supporting["runs"].append({"profile": c["sim"]["profile"], "capacity_Bps": c["sim"]["cap"],
                                       "rtt_ms": c["sim"]["rttUs"] / 1000.0 if c["sim"].get("rttUs") else c["sim"]["rtt"],
                                       "kind": c["sim"]["kind"], "ack_grid_us": c["sim"].get("aggUs") or 1000 * c["sim"].get("agg", 0),
                                       "duration_ms": c["sim"]["dur"], "throughput_ratio": round(r, 4),
                                       "window_ratios": o["stats"].get("windowRatios"), "probe_rtt_entries_ms": o["stats"].get("probeRttEntriesMs")})
            if r < 0.5 and o.get("ok") is not False:
                violations.append({"what": "sim: regression threshold (supporting evidence, no theorem): profile %s delivers %.1f%% of the "
                                           "bottleneck capacity on a loss-free path after %d ms" % (c["sim"]["profile"], 100 * r, c["sim"]["dur"]),
                                   "replay": {"case": c, "impl": trim(o)}, "fingerprint": None, "found_input": True})
    impl_bad = any(v.get("found_input") for v in violations)
    broken = []
    if not proof_ok:
        broken.append("proof obligation (%s)" % pinfo.get("broken_at", pinfo.get("forbidden", "assumptions")))
    if mism:
        broken.append("correspondence C12_Corr on %d case(s) (first: case %d kind %s)" % (len(mism), mism[0], cases[mism[0]]["k"]))
    if not corr_ok:
        broken.append("correspondence evaluation (%s)" % corr_err[:200])
    if broken and not impl_bad:
        found = search(ctx, [cases[i] for i in mism[:20]]) or []
        if found:
            violations += found
        else:
            violations.append({
                "what": "no longer shown to hold: " + "; ".join(broken),
                "replay": {"broken": broken, "proof": {k: pinfo.get(k) for k in ("broken_at", "build_log_tail", "forbidden", "theorems")},
                           "disagreeing_cases": [{"case": cases[i], "impl": trim(outs[i])} for i in mism[:5]]},
                "fingerprint": None, "found_input": False})
    elif mism and impl_bad:
        ctx.say("model/implementation disagree on %d case(s) (implementation also violates the property directly)" % len(mism))
    samples = [{"case": small(c), "impl": trim(o)} for c, o in list(zip(cases, outs))[:2]]
    cov = {"evaluations": len(cases), "distinct_nontrivial": len(nontriv), "rule": RULE, "samples": samples,
           "traces_validated_against_impl": compared, "model_impl_disagreements": len(mism), "input_classes": hist,
           "supporting_only": supporting,
           "sim_events_checked_on_impl": sum((o.get("stats") or {}).get("events", 0) for o in outs),
           "sim_histories_replayed_whole_in_coq": n_replays, "sim_calls_replayed_in_coq": n_replay_events,
           "sim_events_recomputed_in_coq": sum(len(o.get("dumps") or []) for c, o in zip(cases, outs) if to_coq(c, o) is not None),
           "sim_events_pacing_floor_binding": sum((o.get("stats") or {}).get("floorEvents", 0) for o in outs),
           "sim_events_window_cap_binding": sum((o.get("stats") or {}).get("capEvents", 0) for o in outs),
           "sim_binding_events_recomputed_in_coq": sum((o.get("stats") or {}).get("bindDumps", 0) for o in outs),
           "sims_leaving_startup_with_floor_binding": sum(1 for o in outs if (o.get("stats") or {}).get("floorEvents", 0) and
                                                          len((o.get("stats") or {}).get("modes", [])) > 1),
           "sims_leaving_startup_with_cap_binding": sum(1 for o in outs if (o.get("stats") or {}).get("capEvents", 0) and
                                                        len((o.get("stats") or {}).get("modes", [])) > 1)}
    if outs and not impl_bad and not (cov["sims_leaving_startup_with_floor_binding"] and cov["sims_leaving_startup_with_cap_binding"]):
        ctx.say("WARNING: generator did not reach a post-STARTUP state with the pacing floor / the window cap binding")
    fi = [r for c, o in zip(cases, outs) if c["k"] == "sim" and c["sim"]["kind"] == "fast-idle"
          for r in ((o.get("stats") or {}).get("idleResumes") or [])]
    cov["pacer_resumes_after_idle"] = len(fi)
    cov["pacer_resumes_product_wrapped_negative"] = sum(1 for r in fi if r[2] % 2 == 1)
    cov["pacer_resumes_product_wrapped_nonnegative"] = sum(1 for r in fi if r[2] >= 2 and r[2] % 2 == 0)
    cov["pacer_resumes_fastest_rate_Bps"] = max([r[1] for r in fi] or [0])
    cov["clean_runs_with_probe_rtt_before_last_window"] = sum(
        1 for c, o in zip(cases, outs) if c["k"] == "sim" and c["sim"].get("clean") and
        any(t < c["sim"]["dur"] - 5000 for t in ((o.get("stats") or {}).get("probeRttEntriesMs") or [])))
    if outs and not impl_bad and not cov["pacer_resumes_product_wrapped_negative"]:
        ctx.say("WARNING: no resume after an idle gap had pacer rate x elapsed in the negative half of the int64 wrap")
    if outs and not impl_bad and not cov["clean_runs_with_probe_rtt_before_last_window"]:
        ctx.say("WARNING: no loss-free fixed-capacity run went through a PROBE_RTT episode before its last throughput window")
    ctx.say("input classes: " + json.dumps(hist, sort_keys=True))
    return common.finish(ctx, pinfo, cov, violations, ASSUMPTIONS, trusted_extra=TRUSTED)


def small(c):
    d = dict(c)
    if "ops" in d and len(d["ops"]) > 12:
        d["ops"] = d["ops"][:12] + ["... %d more" % (len(c["ops"]) - 12)]
    return d


def replay(ctx, path):
    r = json.load(open(path))
    c = r["replay"].get("case")
    if not c:
        print("replay file names a broken obligation/correspondence, no concrete input:", r["what"])
        return 1
    if c.get("k") == "seed":
        ok, outs, _, log = common.run_go_cases(ctx, GO_SEED, [{"q": c["q"], "a": c["a"]}], tag="replay")
    else:
        ok, outs, _, log = common.run_go_cases(ctx, GO, [c], tag="replay")
    print(json.dumps([trim(o) for o in outs], indent=1))
    return 0 if outs and outs[0].get("ok") else 1
