"""C12 - BBR survives any QUIC-consistent event sequence with sane outputs (DESIGN.md section 4, C12)."""
import json
import sys
import time

from vlib import common

GO = dict(module="core", pkg="internal/congestion/bbr", pkgname="bbr",
          files={"zz_verif_c12_test.go": "c12/c12_test.go",
                 "zz_verif_c12_struct_test.go": "c12/c12_struct_test.go",
                 "zz_verif_c12_sim_test.go": "c12/c12_sim_test.go"},
          run="TestVerifC12")
GO_SEED = dict(module="core", pkg="internal/congestion", pkgname="congestion",
               files={"zz_verif_c12_seed_test.go": "c12/c12_seed_test.go"}, run="TestVerifC12Seed")
PARAMS_NAME = "ParamsC12"
HEADER = ("From Hy Require Import lib.Harness model.C12_Queue corr.C12_Corr.\n"
          "From Coq Require Import ZArith List.\nImport ListNotations.\nLocal Open Scope Z_scope.\n")
EXTRA_TARGETS = ["corr/C12_Corr.vo"]
PER_SHARD = 12
DESIGN_REF = "DESIGN.md section 4 C12"
TECHNIQUE = ("Coq proof (refinement of ring buffer / indexed queue to list and finite-map specs, inductive invariants over operation and "
             "event sequences, window invariant for all float oracle values) on a hand-written model + per-step differential "
             "correspondence in vm_compute against the real structures and the real bbrSender driven by a bottleneck simulator")


# ---------------------------------------------------------------- generators: layer 1

def gen_ring(rng, n):
    init = rng.choice([0, 0, 1, 2, 3, 4, 8])
    ops = []
    size = 0
    val = 1
    phase = rng.choice(["grow", "wrap", "mixed", "panic"])
    for _ in range(n):
        r = rng.random()
        if phase == "grow":
            code = 0 if r < 0.7 else rng.choice([1, 2, 3, 4])
        elif phase == "wrap":
            code = 0 if (size < 3 or r < 0.45) else 1 if r < 0.9 else rng.choice([2, 3, 4])
        elif phase == "panic":
            code = rng.choice([0, 1, 1, 2, 3, 4, 5])
        else:
            code = rng.choice([0, 0, 0, 1, 1, 2, 3, 4]) if r > 0.02 else 5
        arg = 0
        if code == 0:
            arg = val
            val += rng.choice([1, 1, 7])
            size += 1
        elif code == 1:
            size = max(0, size - 1)
        elif code == 2:
            arg = rng.choice([0, max(0, size - 1), size, size + 1, -1, rng.randrange(0, size + 1)])
        elif code == 5:
            size = 0
        ops.append([code, arg])
        if rng.random() < 0.03:
            phase = rng.choice(["grow", "wrap", "mixed", "panic"])
    return {"k": "ring", "init": init, "ops": ops}


def gen_pq(rng, n, size=None, style=None):
    size = size if size is not None else rng.choice([0, 1, 2, 4, 8])
    style = style or rng.choice(["sender", "random", "random", "abuse"])
    ops = []
    last = rng.choice([-1, 0, 5, 1000])   # last emplaced
    live = []
    val = 1
    for _ in range(n):
        r = rng.random()
        if style == "sender":
            # OnPacketSent / RemoveObsoletePackets pattern with a sliding window
            if r < 0.6 or not live:
                last += 1 if rng.random() < 0.85 else rng.choice([2, 3, 9])
                ops.append([0, last, val]); live.append(last); val += 1
            elif r < 0.8:
                ops.append([1, rng.choice(live + [last + 1, live[0] - 1]), 0])
            else:
                k = rng.choice([last - 2, last + 1, live[len(live) // 2], live[0] - 1])
                ops.append([3, k, 0]); live = [x for x in live if x >= k]
        else:
            c = rng.random()
            if c < 0.45:
                step = rng.choice([1, 1, 1, 2, 3, 6, 40 if style == "abuse" else 2])
                pn = last + step
                v = val
                if style == "abuse" and rng.random() < 0.25:
                    pn = rng.choice([last, last - 1, -1, (live[0] if live else 0)])
                if style == "abuse" and rng.random() < 0.05:
                    v = -1
                ops.append([0, pn, v]); val += 1
                if v >= 0 and pn != -1 and (not live or pn > last):
                    live.append(pn); last = pn
            elif c < 0.6:
                ops.append([1, rng.choice(live + [last + 1, last + 2, -1, 0, (live[0] - 1 if live else 3)]), 0])
            elif c < 0.85:
                pn = rng.choice(live + [last + 1, -1]) if live and rng.random() < 0.8 else rng.randrange(0, last + 3)
                if live and rng.random() < 0.4:
                    pn = live[0]
                ops.append([2, pn, 0])
                if pn in live:
                    live.remove(pn)
            else:
                k = rng.choice([(live[0] if live else 0) + rng.randrange(-1, 4), last, last + 1, last + 5, -1, 0])
                ops.append([3, k, 0]); live = [x for x in live if x >= k]
    return {"k": "pq", "size": size, "ops": ops}


def gen_wf(rng, n):
    inst = rng.choice(["max", "max", "min", "xev"])
    win = rng.choice([0, 1, 4, 10, 10, 10, 100])
    ops = []
    t = rng.choice([0, 1, 50])
    span = rng.choice([3, 10, 1000])
    for _ in range(n):
        r = rng.random()
        t += rng.choice([0, 0, 1, 1, 1, 2, 3, 6, 12]) if rng.random() < 0.95 else -rng.randrange(1, 5)
        t = max(t, 0) if rng.random() < 0.98 else t
        if t < 0:
            t = 0
        s = rng.randrange(0, span)
        if r < 0.9:
            ops.append([0, s, t, rng.randrange(0, 50), rng.randrange(0, 9)])
        elif r < 0.94:
            ops.append([1, s, t, rng.randrange(0, 50), rng.randrange(0, 9)])
        elif r < 0.97:
            ops.append([2, 0, 0, 0, 0])
        else:
            ops.append([3, 0, rng.choice([0, 1, 4, 10, 40]), 0, 0])
    return {"k": "wf", "inst": inst, "win": win, "ops": ops}


def gen(rng, tier):
    scale = 1 if tier == "quick" else 15
    cases = []
    for _ in range(40 * scale):
        cases.append(gen_ring(rng, rng.choice([40, 120, 250])))
    for _ in range(60 * scale):
        cases.append(gen_pq(rng, rng.choice([40, 120, 250])))
    # the real initial capacity (256): wrap-around and growth of the sampler's queue
    for _ in range(2 * scale):
        cases.append(gen_pq(rng, 900, size=256, style="sender"))
    for _ in range(40 * scale):
        cases.append(gen_wf(rng, rng.choice([30, 80])))
    return cases


# ---------------------------------------------------------------- Coq terms

def z(v):
    return str(v) if v >= 0 else "(%d)" % v


def zl(xs):
    return "[" + ";".join(z(x) for x in xs) + "]"


def to_coq(c, o):
    k = c["k"]
    steps = o.get("steps")
    if steps is None:
        return None
    if k == "ring":
        if len(steps) != len(c["ops"]):
            return None
        body = ";".join("(%s,%s,%s)" % (z(op[0]), z(op[1]), zl(st)) for op, st in zip(c["ops"], steps))
        return "CRing %d%%nat [%s]" % (c["init"], body)
    if k == "pq":
        if len(steps) != len(c["ops"]):
            return None
        body = ";".join("(%s,%s,%s,%s)" % (z(op[0]), z(op[1]), z(op[2]), zl(st)) for op, st in zip(c["ops"], steps))
        return "CPQ %d%%nat [%s]" % (c["size"], body)
    if k == "wf":
        if len(steps) != len(c["ops"]) or o.get("panic"):
            return None
        inst = {"max": 0, "min": 1, "xev": 2}[c["inst"]]
        body = ";".join("(%s,%s)" % (zl(op), zl(st)) for op, st in zip(c["ops"], steps))
        return "CWF %d%%nat %s [%s]" % (inst, z(c["win"]), body)
    return None


def klass(c, o):
    k = c["k"]
    steps = o.get("steps") or []
    if k == "ring":
        caps = {s[3] for s in steps}
        wrapped = any(s[4] > s[5] or s[6] == 1 for s in steps)   # head > tail or full
        pan = any(s[0] == 1 for s in steps)
        return "ring:" + ("grew" if len(caps) > 2 else "fixed") + ("+wrap" if wrapped else "") + ("+panic" if pan else "")
    if k == "pq":
        caps = {s[7] for s in steps}
        gaps = any(s[6] > s[3] for s in steps)   # slots > present entries
        wrapped = any(s[8] > s[9] or s[10] == 1 for s in steps)
        return "pq:" + ("grew" if len(caps) > 1 else "fixed") + ("+gaps" if gaps else "") + ("+wrap" if wrapped else "")
    if k == "wf":
        return "wf:" + c["inst"]
    return k


def nontrivial(c, o):
    return len(o.get("steps") or []) >= 10


def fingerprint(c, o):
    return None


def search(ctx, disagreeing):
    """Property-directed search on the implementation alone (no model): more seeds."""
    import random
    found = []
    for s in range(2):
        rng = random.Random(ctx.seed * 1000 + s + 17)
        cases = gen(rng, "quick")
        ok, outs, _, log = common.run_go_cases(ctx, GO, cases, tag="search%d" % s)
        for c, o in zip(cases, outs):
            if o.get("ok") is False:
                found.append({"what": "%s: %s" % (c["k"], o.get("why")), "replay": {"case": c, "impl": trim(o)},
                              "fingerprint": fingerprint(c, o), "found_input": True})
        if found:
            break
    return found


def trim(o):
    """implementation output without the bulky per-step dumps (replays re-run the case anyway)"""
    return {k: v for k, v in o.items() if k not in ("steps", "dump", "trace")}


RULE = ("seeded generator. Layer 1: operation sequences on the real RingBuffer (push/pop/offset/front/back/clear; growth past capacity, "
        "wrap-around, calls on empty), packetNumberIndexedQueue (emplace with gaps, out-of-order and nil emplace, get, remove out of order, "
        "RemoveUpTo; initial sizes 0..8 and the real 256) and WindowedFilter (max/min/extraAckedEvent instances; ties, expiry, wrap of "
        "the uint64 time difference), every return value and the raw state compared with the model after every step. "
        "Non-trivial = at least 10 steps. Distinct = distinct JSON case.")
ASSUMPTIONS = [
    "quic-go call discipline (read from sent_packet_handler.go, not modelled): OnPacketSent for every packet with strictly increasing "
    "packet numbers (skips allowed), OnCongestionEventEx only with acked+lost non-empty, acked ascending, numbers previously sent",
    "QUIC packet numbers are < 2^62 and ring lengths < 2^31, so the int64 index arithmetic of the queue cannot wrap (model uses Z there)",
]
TRUSTED = ["modelled rather than verified: bbr/ringbuffer.go, packet_number_indexed_queue.go, windowed_filter.go and the integer window "
           "skeleton of bbr_sender.go (hand transcription in coq/model/C12_Queue.v, C12_Sender.v)"]
LEVEL_TEXT = ""
LEVEL_NOTE = ""


def run(ctx):
    import random
    spec = sys.modules[__name__]
    rng = random.Random(ctx.seed)
    cases = gen(rng, ctx.tier)
    violations = []
    ok, outs, params, golog = common.run_go_cases(ctx, GO, cases)
    if not ok:
        ctx.say("Go harness failed:\n" + golog[-3000:])
        violations.append({"what": "tie broken: Go harness for C12 did not build/run against the current tree (%s)" % golog.strip()[-400:],
                           "replay": {"broken": "go harness", "log": golog[-4000:]}, "found_input": False, "fingerprint": None})
        outs = outs if len(outs) == len(cases) else []
    if params is not None:
        if common.write_params(PARAMS_NAME, [tuple(p) for p in params]):
            ctx.say("Params changed -> rebuilding dependants")
    proof_ok, pinfo = common.proof_stage(ctx, ctx.pid, extra_targets=EXTRA_TARGETS)
    if not proof_ok:
        ctx.say("PROOF STAGE BROKEN: " + json.dumps({k: pinfo[k] for k in pinfo if k != "theorems"})[:3000])
    mism, corr_ok, corr_err, compared = [], True, "", 0
    if outs:
        terms, idxmap = [], []
        for i, (c, o) in enumerate(zip(cases, outs)):
            t = to_coq(c, o)
            if t is not None:
                terms.append(t)
                idxmap.append(i)
        compared = len(terms)
        t1 = time.time()
        eok, mm, err = common.eval_cases(ctx, "cases", HEADER, terms, PER_SHARD)
        ctx.say("coq evaluation of %d cases: %.1fs" % (len(terms), time.time() - t1))
        if not eok:
            corr_ok, corr_err = False, err
            ctx.say("CORRESPONDENCE EVALUATION FAILED: " + err)
        mism = [idxmap[j] for j in mm]
    hist, nontriv = {}, set()
    for c, o in zip(cases, outs):
        k = klass(c, o)
        hist[k] = hist.get(k, 0) + 1
        if nontrivial(c, o):
            nontriv.add(json.dumps(c, sort_keys=True))
        if o.get("ok") is False:
            violations.append({"what": "%s: %s" % (c.get("k"), o.get("why")), "replay": {"case": c, "impl": trim(o)},
                               "fingerprint": fingerprint(c, o), "found_input": True})
    impl_bad = any(v.get("found_input") for v in violations)
    broken = []
    if not proof_ok:
        broken.append("proof obligation (%s)" % pinfo.get("broken_at", pinfo.get("forbidden", "assumptions")))
    if mism:
        broken.append("correspondence C12_Corr on %d case(s) (first: case %d kind %s)" % (len(mism), mism[0], cases[mism[0]]["k"]))
    if not corr_ok:
        broken.append("correspondence evaluation (%s)" % corr_err[:200])
    if broken and not impl_bad:
        found = search(ctx, [cases[i] for i in mism[:20]]) or []
        if found:
            violations += found
        else:
            violations.append({
                "what": "no longer shown to hold: " + "; ".join(broken),
                "replay": {"broken": broken, "proof": {k: pinfo.get(k) for k in ("broken_at", "build_log_tail", "forbidden", "theorems")},
                           "disagreeing_cases": [{"case": cases[i], "impl": trim(outs[i])} for i in mism[:5]]},
                "fingerprint": None, "found_input": False})
    elif mism and impl_bad:
        ctx.say("model/implementation disagree on %d case(s) (implementation also violates the property directly)" % len(mism))
    samples = [{"case": small(c), "impl": trim(o)} for c, o in list(zip(cases, outs))[:2]]
    cov = {"evaluations": len(cases), "distinct_nontrivial": len(nontriv), "rule": RULE, "samples": samples,
           "traces_validated_against_impl": compared, "model_impl_disagreements": len(mism), "input_classes": hist}
    ctx.say("input classes: " + json.dumps(hist, sort_keys=True))
    return common.finish(ctx, pinfo, cov, violations, ASSUMPTIONS, trusted_extra=TRUSTED)


def small(c):
    d = dict(c)
    if "ops" in d and len(d["ops"]) > 12:
        d["ops"] = d["ops"][:12] + ["... %d more" % (len(c["ops"]) - 12)]
    return d


def replay(ctx, path):
    r = json.load(open(path))
    c = r["replay"].get("case")
    if not c:
        print("replay file names a broken obligation/correspondence, no concrete input:", r["what"])
        return 1
    ok, outs, _, log = common.run_go_cases(ctx, GO, [c], tag="replay")
    print(json.dumps([trim(o) for o in outs], indent=1))
    return 0 if outs and outs[0].get("ok") else 1
