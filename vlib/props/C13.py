"""C13 - Salamander is transparent, spec-exact, and drops junk (DESIGN.md section 4, C13)."""
import hashlib
import json
import os
import re
import sys
import time

from vlib import common

GO = dict(module="extras", pkg="obfs", pkgname="obfs",
          files={"zz_verif_c13_test.go": "c13/c13_test.go"}, run="TestVerifC13")
PARAMS_NAME = "ParamsC13"
HEADER = ("From Hy Require Import lib.Harness lib.Blake2b model.C13_Salamander model.C13_Lock corr.C13_Corr.\n"
          "From Coq Require Import ZArith.\nLocal Open Scope N_scope.\n")
RULE = ("seeded generator over an in-memory PacketConn pair wrapped with WrapPacketConnSalamander: keys of 4..64 bytes (plus 120/121/200-byte "
        "keys that put key||salt on and over the 128-byte BLAKE2b block boundary), payload lengths {1,2,31,32,33,63,64,65,1199,1200,2039,2040}+random, "
        "oversize/empty writes, caller buffers {2048,1500,64,10,1,0} and every reader buffer of payload-1 .. payload+8 bytes (room for the packet but not for "
        "packet + 8-byte salt) for small, keystream-boundary, MTU-sized and near-2040 payloads, also in random streams and for the concurrent readers; junk streams (datagrams of 0..9 bytes, truncated >2048-byte datagrams, "
        "underlying read/write errors, packets built by a python hashlib reference obfuscator) mixed with valid packets; write-fault histories "
        "(the socket below fails one or several writes, then further valid writes that must reach the wire and arrive unchanged; every call of "
        "the wrapper runs under a real-time watchdog, a call that never returns is a verdict with the case as replay); direct "
        "Obfuscate/Deobfuscate calls with short output buffers; short keys; keys drawn over BYTES rather than characters - every way to spell exactly 4 bytes with 1..3 "
        "code points, 5..12 bytes with fewer than 4 code points, invalid UTF-8 (lone continuation bytes, overlong forms, surrogates, truncated sequences, 0xf5..0xff), NUL and "
        "white-space bytes, one byte repeated, binary keys of 64..1500 bytes, and keys of 0..3 bytes over the same classes - each offered to the constructor (refused iff fewer "
        "than 4 bytes; an accepted key's wire image of a probe packet is compared with hashlib) and used for round trips through a wrapper pair together with a packet built by the "
        "python reference from the same key bytes; payload lengths stratified over the whole range 1..2040 (every 60-byte stratum written through the pair in each run, every "
        "170-byte stratum as a reference-built packet offered to the reader alone); concurrent readers+writers+junk on both sockets (with and without scripted write faults below, writers retrying). The wire bytes are "
        "captured below the wrapper, the random salt is read back from them, and each case is compared with (1) the Coq model with the Gallina "
        "BLAKE2b inside the kernel, (2) python hashlib.blake2b, (3) the property predicate in the Go harness (x/crypto blake2b called directly). "
        "Non-trivial = at least one packet crossed the wrapper pair or junk was offered. Distinct = distinct JSON case.")
ASSUMPTIONS = [
    "the underlying net.PacketConn conforms to its interface (0 <= n <= len(buf) from ReadFrom; datagrams longer than the buffer are cut)",
    "each ReadFrom loop iteration and each WriteTo body is one atomic action (readMutex / writeMutex / the obfuscator's lk, read from the source; supported by the -race runs of the thorough tier)",
    "math/rand's Read fills the 8 salt bytes (the salt is an input of the model, read back from the wire); the salt's randomness quality is not examined",
    "golang.org/x/crypto/blake2b.Sum256 = lib/Blake2b.v blake2b256 (RFC 7693 vectors in Coq; compared on every packet of the correspondence run)",
]
TRUSTED = ["modelled rather than verified: extras/obfs/salamander.go and obfsPacketConn.ReadFrom/WriteTo of extras/obfs/conn.go (hand transcription in coq/model/C13_Salamander.v; "
           "their use of writeMutex/readMutex in coq/model/C13_Lock.v, tied by a TryLock observation after every returned call; the mutexes are found by field name "
           "through reflection, a tree without such a field has that component not compared - recorded under lock_observation / notes - unless its conn.go declares the field)",
           "python hashlib.blake2b as the second oracle of the wire format"]
PER_SHARD = 12
EXTRA_TARGETS = ["corr/C13_Corr.vo"]

SALT = 8
HEAD = 16   # leading bytes of every observed byte string compared literally (the rest through the digest)
BUF = 2048
BOUNDARY = [1, 2, 31, 32, 33, 63, 64, 65, 1199, 1200, 2039, 2040]
# reader buffers that hold the payload but not payload + salt: len(p) = payload + k for every k in NEAR_K (k = -1: one short, the packet is
# dropped as the model says; k = 8: the first size at which salt + payload would fit as well)
NEAR_K = list(range(-1, SALT + 1))
NEAR_SMALL = [1, 2, 7, 8, 9, 31, 32, 33, 100]
NEAR_BIG = [1199, 1200, 1252, 1350, 1444, 1452, 1472, 1492, 1500, 2031, 2032, 2033, 2039, 2040]   # QUIC initial / MTU-ish / udpBufferSize-8


# ---------------------------------------------------------------- reference (python) implementation of the specification

def keystream(psk, salt):
    return hashlib.blake2b(psk + salt, digest_size=32).digest()


def xor(psk, salt, p):
    k = keystream(psk, salt)
    return bytes(c ^ k[i % 32] for i, c in enumerate(p))


def ref_obfuscate(psk, salt, p):
    return salt + xor(psk, salt, p)


def bs(d):
    if d.get("hex") is not None:
        return bytes.fromhex(d["hex"])
    return common.gen_data(d["a"], d["b"], d["n"])


def dlen(d):
    return len(d["hex"]) // 2 if d.get("hex") is not None else d["n"]


def lit(b):
    return {"hex": bytes(b).hex()}


def gend(rng, n):
    return {"a": rng.randrange(256), "b": rng.randrange(256), "n": n}


# ---------------------------------------------------------------- generator

def rkey(rng, n=None):
    n = n if n is not None else rng.choice([4, 4, 5, 8, 16, 31, 32, 33, 56, 63, 64, rng.randint(4, 64), rng.randint(4, 64)])
    if n > 8 and rng.random() < 0.6:
        return gend(rng, n)     # generated key bytes: short literal in the Coq cases file
    return lit(bytes(rng.randrange(256) for _ in range(n)))


def junk_item(rng, n=None):
    n = n if n is not None else rng.randrange(10)
    return {"t": "raw", "d": lit(bytes(rng.randrange(256) for _ in range(n))), "addr": rng.randint(1, 60000), "err": 0}


def ref_item(rng, psk, n):
    """valid packet built by the python reference obfuscator: must surface as its payload"""
    p = bytes(rng.randrange(256) for _ in range(n))
    salt = bytes(rng.randrange(256) for _ in range(8))
    return {"t": "raw", "d": lit(ref_obfuscate(psk, salt, p)), "addr": rng.randint(1, 60000), "err": 0, "exp": p.hex()}


def w_item(rng, n, err=0):
    return {"t": "w", "d": gend(rng, n), "addr": rng.randint(1, 60000), "err": err}


def stream_case(rng, kernel=True):
    key = rkey(rng, rng.choice([None, None, None, 120, 121]))
    psk = bs(key)
    items = []
    for _ in range(rng.randint(4, 10)):
        r = rng.random()
        if r < 0.42:
            items.append(junk_item(rng))
        elif r < 0.62:
            items.append(w_item(rng, rng.choice([1, 1, 2, 5, 31, 32, 33, 64, 100, rng.choice(BOUNDARY), rng.randint(1, 2040)])))
        elif r < 0.74:
            items.append(ref_item(rng, psk, rng.choice([1, 2, 7, 32, 33, 80])))
        elif r < 0.80:
            # underlying read error, with or without data
            n = rng.choice([0, 0, 3, 8, 9, 20])
            it = junk_item(rng, n)
            it["err"] = rng.randint(1, 50)
            if rng.random() < 0.3:
                it["addr"] = 0
            items.append(it)
        elif r < 0.86:
            items.append(w_item(rng, rng.choice([1, 40, 2040]), err=rng.randint(1, 50)))
        elif r < 0.91:
            items.append(w_item(rng, rng.choice([0, 2041, 2048, 3000])))
        elif r < 0.96:
            items.append({"t": "raw", "d": gend(rng, rng.choice([2047, 2048, 2049, 2100, 4096])), "addr": rng.randint(1, 60000), "err": 0})
        else:
            items.append(junk_item(rng, 0))
    # a failed underlying write is followed by a write that must go through (the socket is still usable)
    werrs = [j for j, it in enumerate(items) if it["t"] == "w" and it["err"]]
    if werrs and not any(it["t"] == "w" and not it["err"] and 1 <= it["d"]["n"] <= 2040 for it in items[werrs[-1] + 1:]) and rng.random() < 0.85:
        items.append(w_item(rng, rng.choice([1, 2, 33, 100, rng.choice(BOUNDARY)])))
    plen = rng.choice([2048, 2048, 2048, 2048, 1500, 2040, 2039, 64, 10, 1, 0, 4096])
    # a reader buffer within 8 bytes of one of the valid packets of the stream
    valid = [len(bytes.fromhex(it["exp"])) if it.get("exp") is not None else it["d"]["n"] for it in items
             if not it["err"] and (it.get("exp") is not None or (it["t"] == "w" and 1 <= it["d"]["n"] <= 2040))]
    if valid and rng.random() < 0.3:
        plen = max(0, rng.choice(valid) + rng.choice(NEAR_K))
    return {"k": "st", "psk": key, "plen": plen, "udp": rng.random() < 0.3, "items": items, "kernel": kernel}


def near_case(rng, n, k, kernel=True):
    """one packet of n payload bytes read into a buffer of n+k bytes (k in NEAR_K), between other traffic: something smaller that must
    surface too, sometimes something larger than the buffer that must be dropped, sometimes junk"""
    key = rkey(rng)
    psk = bs(key)
    plen = max(n + k, 0)
    items = []
    if rng.random() < 0.3:
        items.append(junk_item(rng))
    if rng.random() < 0.3 and plen + 1 <= 2040:
        items.append(w_item(rng, rng.randint(plen + 1, min(plen + 12, 2040))))      # does not fit the reader's buffer: dropped
    if n <= 200 and rng.random() < 0.4:
        items.append(ref_item(rng, psk, n))
    else:
        items.append(w_item(rng, n))
    if rng.random() < 0.5:
        items.append(junk_item(rng))
    items.append(w_item(rng, rng.randint(1, max(1, min(n, 40)))))
    return {"k": "st", "psk": key, "plen": plen, "udp": rng.random() < 0.3, "items": items, "kernel": kernel}


def werr_case(rng, kernel=True):
    """write-fault histories: the socket below fails one write (any length, also the first or several in a row, any error code),
    and the caller keeps writing: every later valid packet must reach the wire in the specified format and arrive unchanged"""
    key = rkey(rng)
    psk = bs(key)
    small = [1, 2, 5, 31, 32, 33, 64, 100]
    items = []
    for _ in range(rng.choice([0, 0, 1, 2])):
        items.append(rng.choice([lambda: w_item(rng, rng.choice(small)), lambda: junk_item(rng), lambda: ref_item(rng, psk, rng.choice([1, 7, 33]))])())
    for _burst in range(rng.choice([1, 1, 1, 2, 3])):
        for _ in range(rng.choice([1, 1, 1, 2])):
            items.append(w_item(rng, rng.choice([1, 40, 1200, 2040, rng.choice([0, 2041, 3000]), rng.randint(1, 2040)]), err=rng.randint(1, 50)))
        for _ in range(rng.randint(1, 3)):
            r = rng.random()
            if r < 0.75:
                n = rng.choice(small + [rng.choice(BOUNDARY)]) if kernel else rng.choice(small + BOUNDARY + [rng.randint(1, 2040)])
                items.append(w_item(rng, n))
            elif r < 0.9:
                items.append(junk_item(rng))
            else:
                items.append(ref_item(rng, psk, rng.choice([1, 2, 32, 80])))
        if items[-1]["t"] != "w" or items[-1]["err"]:
            items.append(w_item(rng, rng.choice(small)))
    return {"k": "st", "psk": key, "plen": rng.choice([2048, 2048, 2048, 2040, 1500]), "udp": rng.random() < 0.3, "items": items, "kernel": kernel}


# ---------------------------------------------------------------- keys drawn over BYTES, not characters
# The key rule and the keystream are over the key's bytes: a key is refused iff it has fewer than 4 bytes, and an accepted key enters
# BLAKE2b as it is.  What the bytes spell when read as text must not matter: multi-byte UTF-8 sequences (fewer code points than bytes),
# bytes that are no UTF-8 at all, NULs, white space at the ends, one byte repeated, long binary keys.

def rcp(rng, nbytes):
    """a random code point whose UTF-8 encoding has nbytes bytes"""
    if nbytes == 1:
        return rng.randint(0x21, 0x7e)
    if nbytes == 2:
        return rng.randint(0x80, 0x7ff)
    if nbytes == 3:
        while True:
            cp = rng.randint(0x800, 0xffff)
            if not 0xd800 <= cp <= 0xdfff:
                return cp
    return rng.randint(0x10000, 0x10ffff)


def utf8_key(rng, shape):
    """valid UTF-8 with one code point per entry of shape, the entry being the length of its encoding"""
    return "".join(chr(rcp(rng, n)) for n in shape).encode("utf-8")


# every way to spell exactly 4 bytes with 1..3 code points, then 5..12 bytes with fewer than 4 code points
SHAPES_4B = [[4], [2, 2], [3, 1], [1, 3], [2, 1, 1], [1, 2, 1], [1, 1, 2]]
SHAPES_FEW = [[4, 1], [2, 3], [3, 3], [2, 2, 1], [2, 2, 2], [4, 4], [3, 4], [4, 3, 2], [3, 3, 3], [4, 4, 4]]
SHAPES_SHORT = [[1], [2], [3], [1, 1], [1, 2], [2, 1], [1, 1, 1]]      # 1..3 bytes: refused


def runes(b):
    """code points as Go's utf8.RuneCount counts them (every byte of an invalid sequence is one)"""
    return len(b.decode("utf-8", errors="surrogateescape"))


def invalid_keys(rng):
    hi = lambda n: bytes(rng.randint(0x80, 0xff) for _ in range(n))
    return [
        bytes([0x80, 0x80, 0x80, 0x80]), bytes([0xbf] * 4), hi(4), hi(5), hi(16),                     # lone continuation / random high bytes
        bytes([0xc0, 0x80, 0xc0, 0x80]), bytes([0xe0, 0x80, 0x80, 0x41]),                          # overlong encodings
        bytes([0xed, 0xa0, 0x80, rng.randrange(256)]), bytes([0xed, 0xbf, 0xbf, 0xed, 0xa0, 0x80]),    # UTF-16 surrogates
        bytes([0xe6, 0x97, 0xe6, 0x97]), bytes([0xf0, 0x9f, 0xa6, 0x41]), bytes([0xc3, 0x41, 0xc3, 0x41]),  # truncated sequences
        bytes([0xff, 0xfe, 0xfd, 0xfc]), bytes([0xf5, 0xf8, 0xfc, 0xff]), bytes([0xf4, 0x90, 0x80, 0x80]),  # never valid / beyond U+10FFFF
        utf8_key(rng, [2]) + bytes([0x00, 0xff]), utf8_key(rng, [3]) + bytes([rng.randint(0x80, 0xbf)]),     # valid sequence + junk byte
        bytes([0xff]) + utf8_key(rng, [3]), utf8_key(rng, [4]) + hi(2) + utf8_key(rng, [2]),
    ]


def nul_ws_keys(rng):
    a = lambda n: bytes(rng.randint(0x61, 0x7a) for _ in range(n))
    return [
        bytes(4), bytes(5), bytes(64), a(2) + bytes(2), bytes(1) + a(3), a(3) + bytes(1), a(1) + bytes(2) + a(1), bytes(3) + a(1),
        b"    ", b" " + a(2) + b" ", b"\t" + a(2) + b"\n", a(3) + b"\n", b"\r\n\r\n", b"\n" + a(3), a(2) + b"\r\n", a(4) + b"\x00",
        bytes([rng.randrange(256)]) * 4, bytes([0xff]) * 4, b"a" * 4, bytes([rng.randint(0x80, 0xff)]) * 7,
    ]


def long_keys(rng, kernel):
    hib = lambda n: bytes(rng.choice([rng.randint(0x80, 0xff), rng.randrange(256)]) for _ in range(n))
    lens = [64, 65, 100, 119, 120, 121, 128, 200] if kernel else [64, 127, 128, 129, 255, 256, 257, 300, 512, 1024, rng.randint(65, 1500)]
    out = [hib(n) for n in lens]
    out.append(utf8_key(rng, [3] * (30 if kernel else 90)))        # long CJK-like pass phrase
    out.append(utf8_key(rng, [rng.choice([1, 2, 3, 4]) for _ in range(24 if kernel else 200)]))
    return out


def byte_keys(rng, kernel=True):
    """[(class name, key bytes)] - every class of every call, fresh random members"""
    out = []
    for sh in SHAPES_4B:
        out.append(("utf8-4bytes-%dcp" % len(sh), utf8_key(rng, sh)))
    for sh in SHAPES_FEW:
        out.append(("utf8-%dbytes-%dcp" % (sum(sh), len(sh)), utf8_key(rng, sh)))
    for _ in range(4):
        sh = [rng.randint(1, 4) for _ in range(rng.randint(1, 3))]
        while sum(sh) < 4:
            sh[rng.randrange(len(sh))] += 1
        out.append(("utf8-%dbytes-%dcp" % (sum(sh), len(sh)), utf8_key(rng, sh)))
    for sh in ([1, 1, 1, 1], [2, 2, 2, 2], [3, 1, 1, 1], [4, 4, 4, 4], [rng.randint(1, 4) for _ in range(rng.randint(4, 12))]):
        out.append(("utf8-%dbytes-%dcp" % (sum(sh), len(sh)), utf8_key(rng, sh)))       # 4 and more code points: controls
    out += [("invalid-utf8", k) for k in invalid_keys(rng)]
    out += [("nul-ws-repeat", k) for k in nul_ws_keys(rng)]
    out += [("long-binary", k) for k in long_keys(rng, kernel)]
    return out


def short_byte_keys(rng):
    """keys of 0..3 bytes over the same byte classes: refused, every one"""
    out = [("short", b"")]
    for sh in SHAPES_SHORT:
        out.append(("short-utf8-%dbytes-%dcp" % (sum(sh), len(sh)), utf8_key(rng, sh)))
    for k in (bytes(1), bytes(2), bytes(3), bytes([0xff] * 3), bytes([0x80, 0xbf, 0x80]), bytes([0xf0, 0x9f, 0xa6]), bytes([0xe6, 0x97]),
              b"ab\x00", b"   ", b"ab\n", bytes(rng.randrange(256) for _ in range(3)), bytes(rng.randint(0x80, 0xff) for _ in range(3))):
        out.append(("short-bytes", k))
    return out


def bytekey_stream(rng, kc, key, kernel):
    """round trip and wire image under a byte-level key: packets written through the wrapper pair (small, and anywhere in 1..2040 for the
    oracle-only cases), a packet built by the python reference with the same key bytes (must surface as its payload), junk"""
    items = [w_item(rng, rng.choice([1, 2, 5, 31, 32, 33]))]
    items.append(ref_item(rng, key, rng.choice([1, 7, 32, 33, 80])))
    if rng.random() < 0.5:
        items.append(junk_item(rng))
    items.append(w_item(rng, rng.choice([40, 64, 65, 100]) if kernel else rng.choice(BOUNDARY + [rng.randint(1, 2040)] * 2)))
    return {"k": "st", "psk": lit(key), "plen": 2048, "udp": rng.random() < 0.3, "items": items, "kernel": kernel, "kc": kc}


def bytekey_cases(rng, scale):
    cases = []
    # --- acceptance: refused iff fewer than 4 BYTES (the Coq model's new_obfs on the same bytes, the Go predicate, the python rule)
    for kc, k in short_byte_keys(rng) + byte_keys(rng, kernel=True) + [("long-binary", x) for x in long_keys(rng, False)]:
        cases.append({"k": "key", "psk": lit(k), "kernel": True, "kc": kc})
    # --- round trip / wire image, in the kernel: every 4-byte shape, the other classes sampled
    ks = byte_keys(rng, kernel=True)
    four = [x for x in ks if x[0].startswith("utf8-4bytes")]
    rest = [x for x in ks if not x[0].startswith("utf8-4bytes")]
    for kc, k in four + rng.sample(rest, min(len(rest), 14)):
        cases.append(bytekey_stream(rng, kc, k, True))
    # --- direct Obfuscate / Deobfuscate under such keys
    for kc, k in rng.sample(ks, 8):
        n = rng.choice([1, 32, 33, 100])
        cases.append({"k": "obf", "psk": lit(k), "d": gend(rng, n), "cap": rng.choice([n + 8, 2048]), "kernel": True, "kc": kc})
        p = bytes(rng.randrange(256) for _ in range(n))
        cases.append({"k": "deobf", "psk": lit(k), "d": lit(ref_obfuscate(k, bytes(rng.randrange(256) for _ in range(8)), p)),
                      "cap": rng.choice([n, 2048]), "kernel": True, "exp": p.hex(), "kc": kc})
    # --- many more against the Go predicate and the hashlib oracle
    for _ in range(3 * scale):
        for kc, k in byte_keys(rng, kernel=False):
            cases.append(bytekey_stream(rng, kc, k, False))
    return cases


def sweep_cases(rng, scale):
    """payload lengths across the whole 1..2040 range, both directions against the wire image: every 60-byte stratum of the range once per
    case as a write through the wrapper pair (wire image checked below the writer, payload at the reader), and packets of such lengths built
    by the python reference (the reading side alone: must surface whole, whatever the writing side of this tree does)"""
    cases = []
    for _ in range(2 * scale):
        key = rkey(rng)
        lens = [rng.randint(lo, min(lo + 59, 2040)) for lo in range(1, 2041, 60)]
        rng.shuffle(lens)
        for part in (lens[:17], lens[17:]):
            cases.append({"k": "st", "psk": key, "plen": rng.choice([2048, 2040, 4096]), "udp": rng.random() < 0.3, "kernel": False,
                          "items": [w_item(rng, n) for n in part], "kc": "len-sweep"})
    for _ in range(2 * scale):
        key = rkey(rng)
        psk = bs(key)
        lens = [rng.randint(lo, min(lo + 169, 2040)) for lo in range(1, 2041, 170)] + [2040, rng.choice([1500, 1501, 1508, 1509])]
        cases.append({"k": "st", "psk": key, "plen": rng.choice([2048, 2040]), "udp": False, "kernel": False,
                      "items": [ref_item(rng, psk, n) for n in lens], "kc": "len-sweep-reference-packets"})
    return cases



def gen(rng, tier):
    scale = 1 if tier == "quick" else 12
    cases = []
    # --- constructor
    for n in (0, 1, 2, 3, 4, 5, 6, 64, 200):
        cases.append({"k": "key", "psk": rkey(rng, n), "kernel": True})
    # --- keys over bytes (multi-byte UTF-8, invalid UTF-8, NUL / white space, long binary): acceptance, round trip, wire image
    cases += bytekey_cases(rng, scale)
    # --- the whole payload range 1..2040 in both directions
    cases += sweep_cases(rng, scale)
    # --- every junk length 0..9 alone, before and after a valid packet
    for n in range(10):
        cases.append({"k": "st", "psk": rkey(rng), "plen": 2048, "udp": False, "kernel": True,
                      "items": [junk_item(rng, n), w_item(rng, 5), junk_item(rng, n), junk_item(rng, n)]})
    # --- boundary payload lengths, one packet per case, keys on block boundaries too
    for n in BOUNDARY:
        for kl in (None, rng.choice([4, 64, 120, 121, 200])):
            cases.append({"k": "st", "psk": rkey(rng, kl), "plen": rng.choice([2048, 2040, max(n, 1)]), "udp": rng.random() < 0.3,
                          "items": [w_item(rng, n)], "kernel": True})
    # --- caller buffer exactly / one short of the payload
    for n in (1, 32, 1200, 2040):
        for plen in (n, n - 1):
            cases.append({"k": "st", "psk": rkey(rng), "plen": plen, "udp": False, "kernel": True,
                          "items": [w_item(rng, n), w_item(rng, 1)]})
    # --- reader buffer = payload + k, k = -1..8 (holds the packet, not packet + salt): every k with a small and a big payload in the
    #     kernel, every (payload length, k) pair against the Go predicate and the hashlib oracle
    for _ in range(scale):
        for k in NEAR_K:
            cases.append(near_case(rng, rng.choice(NEAR_SMALL), k))
            cases.append(near_case(rng, rng.choice(NEAR_BIG), k))
    for n in NEAR_SMALL + NEAR_BIG + [rng.randint(10, 2040) for _ in range(3 * scale)]:
        for k in NEAR_K:
            cases.append(near_case(rng, n, k, kernel=False))
    # --- direct Obfuscate / Deobfuscate with short buffers
    for n in (0, 1, 32, 33, 2040):
        for cap in sorted({0, 7, 8, n + 7, n + 8, n + 9, 2048}):
            cases.append({"k": "obf", "psk": rkey(rng), "d": gend(rng, n), "cap": cap, "kernel": True})
    for n in (0, 1, 7, 8, 9, 10, 40, 41, 72, 2048):
        key = rkey(rng)
        if n > 8:
            p = bytes(rng.randrange(256) for _ in range(n - 8))
            wire = ref_obfuscate(bs(key), bytes(rng.randrange(256) for _ in range(8)), p)
            exp = p.hex()
        else:
            wire, exp = bytes(rng.randrange(256) for _ in range(n)), None
        for cap in sorted({0, max(0, n - 9), max(0, n - 8), 2048}):
            c = {"k": "deobf", "psk": key, "d": lit(wire), "cap": cap, "kernel": n <= 100 or cap == 2048}
            if exp is not None:
                c["exp"] = exp
            cases.append(c)
    # --- junk streams and random round trips, compared in the kernel
    for _ in range(34 * scale):
        cases.append(stream_case(rng))
    for _ in range(30 * scale):
        cases.append({"k": "st", "psk": rkey(rng), "plen": 2048, "udp": rng.random() < 0.3, "kernel": True,
                      "items": [w_item(rng, rng.randint(1, 2040)) for _ in range(rng.randint(1, 3))]})
    # --- write faults of the socket below, then more writes (a few in the kernel, many more against the oracles)
    for _ in range(8 * scale):
        cases.append(werr_case(rng))
    for _ in range(80 * scale):
        cases.append(werr_case(rng, kernel=False))
    # --- many more, judged by the Go predicate and the python hashlib oracle only
    for _ in range(700 * scale):
        cases.append(stream_case(rng, kernel=False))
    for _ in range(500 * scale):
        cases.append({"k": "st", "psk": rkey(rng), "plen": 2048, "udp": False, "kernel": False,
                      "items": [w_item(rng, rng.choice(BOUNDARY + [rng.randint(1, 2040)] * 3))]})
    # --- concurrency: readers + writers + junk on both wrapped sockets at once
    # (every second one with scripted write faults of the sockets below: every werr-th underlying write fails and the writer retries)
    for j in range(2 if tier == "quick" else 12):
        big = tier != "quick"
        lens = sorted(set([1, 2, 31, 32, 33, 1200, rng.choice([1452, 2033, 2040])] + [rng.randint(1, 2032) for _ in range(4)]))
        # every second case: the readers' buffers hold the longest packet sent but not that packet + salt
        rbuf = lens[-1] + rng.randrange(SALT) if j % 2 == 0 else 2048
        cases.append({"k": "conc", "psk": rkey(rng), "w": rng.choice([2, 3, 4]), "r": rng.choice([1, 2, 3]),
                      "per": rng.choice([150, 400]) if big else rng.choice([25, 40]), "junk": 200 if big else 30,
                      "lens": lens, "rbuf": rbuf, "kernel": False,
                      "werr": rng.choice([5, 7, 11, 13]) if j % 2 == 1 else 0})
    # --- many goroutines on one obfuscator (shared key-input buffer and salt source)
    for j in range(2 if tier == "quick" else 6):
        cases.append({"k": "hammer", "psk": rkey(rng), "g": 8, "iters": 4000 if tier == "quick" else 20000, "kernel": False})
    return cases


# ---------------------------------------------------------------- python oracle (hashlib) on the captured observations

PROBE = bytes([0x00, 0x01, 0x7f, 0x80, 0xff, 0x41, 0xc3, 0xa4, 0x0a])      # c13Key's probe packet
REQUIRED = {"obf": ("n", "out"), "deobf": ("n", "out"), "st": ("writes", "reads"), "conc": ("recv0", "recv1"), "hammer": ("badObf",), "key": ("refused",)}


def keyhex(psk):
    return psk[:24].hex(" ") + (" ..." if len(psk) > 24 else "")


def missing_fields(c, o):
    """observations a complete record of this case kind carries and this one does not (the harness returned early: an error form)"""
    return [f for f in REQUIRED.get(c["k"], ()) if o.get(f) is None]


def oracle(c, o):
    """Second, independent judgement of the observations of one case; returns a list of complaints."""
    bad = []
    k = c["k"]
    if o.get("panic"):
        return bad  # already a violation on the Go side
    psk = bs(c["psk"])
    if o.get("stuck"):
        return bad  # a call never returned: already a violation on the Go side, nothing was observed
    if k == "key":
        if (len(psk) < 4) != bool(o.get("refused")):
            bad.append("key of %d bytes [%s]: refused=%s (the rule is over bytes: refused iff fewer than 4 bytes)" % (len(psk), keyhex(psk), o.get("refused")))
        if o.get("key") is not None and o["key"] != psk.hex():
            bad.append("harness saw a different key than the case names")
        if len(psk) >= 4 and not o.get("refused"):
            pr = bytes.fromhex(o.get("probe") or "")
            if len(pr) != len(PROBE) + SALT or pr != ref_obfuscate(psk, pr[:SALT], PROBE):
                bad.append("wire differs from salt||payload^BLAKE2b-256(key||salt) computed with hashlib (probe packet, key %d bytes [%s])" % (len(psk), keyhex(psk)))
        return bad
    if o.get("refused"):
        # no obfuscator / wrapped socket could be made for this case's key: the observations below do not exist
        bad.append("key of %d bytes [%s] refused (the rule is over bytes: refused iff fewer than 4 bytes)" % (len(psk), keyhex(psk)))
        return bad
    miss = missing_fields(c, o)
    if miss:
        bad.append("harness record of a %s case has no %s (error form: %s)" % (k, "/".join(miss), (o.get("why") or "no verdict text")[:200]))
        return bad
    if k == "obf":
        p = bs(c["d"])
        n = o.get("n", -1)
        out = bytes.fromhex(o.get("out", ""))
        if c["cap"] >= len(p) + SALT:
            if n != len(p) + SALT or out != ref_obfuscate(psk, out[:SALT], p):
                bad.append("Obfuscate output differs from salt||payload^BLAKE2b-256(key||salt) (hashlib)")
        elif n != 0:
            bad.append("Obfuscate returned %d with a short buffer" % n)
    elif k == "deobf":
        w = bs(c["d"])
        n = o.get("n", -1)
        out = bytes.fromhex(o.get("out", ""))
        if len(w) > SALT and c["cap"] >= len(w) - SALT:
            if n != len(w) - SALT or out != xor(psk, w[:SALT], w[SALT:]):
                bad.append("Deobfuscate output differs from the hashlib reference")
        elif n != 0:
            bad.append("Deobfuscate returned %d" % n)
    elif k == "st":
        evs = []
        ws = o.get("writes") or []
        wi = 0
        for it in c["items"]:
            d = bs(it["d"])
            if it["t"] == "w":
                if wi >= len(ws):
                    bad.append("missing write record")
                    break
                w = ws[wi]
                wi += 1
                wire = bytes.fromhex(w["wire"])
                if it["err"]:
                    if w["n"] != 0 or w["err"] != it["err"]:
                        bad.append("write error %d surfaced as n=%d err=%d" % (it["err"], w["n"], w["err"]))
                    continue
                if w["n"] != len(d) or w["err"] != 0:
                    bad.append("WriteTo reported n=%d err=%d for %d bytes" % (w["n"], w["err"], len(d)))
                if len(d) <= BUF - SALT:
                    if wire != ref_obfuscate(psk, wire[:SALT], d) or len(wire) != len(d) + SALT:
                        bad.append("wire differs from salt||payload^BLAKE2b-256(key||salt) computed with hashlib (payload %d, key %d bytes)" % (len(d), len(psk)))
                evs.append((wire, it["addr"], 0))
            else:
                evs.append((d, it["addr"], it["err"]))
        # the reader, per the specification: drop what cannot hold salt + 1 byte, surface the rest
        exp = []
        plen = c["plen"]
        for idx, (d, addr, err) in enumerate(evs):
            d = d[:BUF]
            if len(d) == 0:
                if err:
                    exp.append((0, b"", addr, err, idx))
                continue
            n = len(d) - SALT
            if n <= 0 or n > plen:
                if err:
                    exp.append((0, b"", addr, err, idx))
                continue
            exp.append((n, xor(psk, d[:SALT], d[SALT:]), addr, err, idx))
        got = [(r["n"], bytes.fromhex(r["data"]), r["addr"], r["err"], r["ev"]) for r in (o.get("reads") or [])]
        if got != exp:
            j = next((i for i in range(min(len(got), len(exp))) if got[i] != exp[i]), min(len(got), len(exp)))
            bad.append("reads differ from the hashlib reference at return %d (%d returns, %d expected)" % (j, len(got), len(exp)))
        if o.get("readbuf") not in ([BUF], []):
            bad.append("underlying ReadFrom called with buffers %s" % o.get("readbuf"))
    elif k == "conc":
        for s in (0, 1):
            sent = {}
            for w in range(c["w"]):
                for kk in range(c["per"]):
                    ln = c["lens"][(w * 131 + kk * 7 + s) % len(c["lens"])]
                    p = common.gen_data(3 + 2 * w + s, kk * 5 + w, ln)
                    sent[p] = sent.get(p, 0) + 1
            for wh in o.get("wires%d" % s) or []:
                wire = bytes.fromhex(wh)
                p = xor(psk, wire[:SALT], wire[SALT:]) if len(wire) > SALT else None
                if p is None or sent.get(p, 0) == 0:
                    bad.append("side %d: a concurrent wire packet does not decode (hashlib) to a written payload" % s)
                    break
                sent[p] -= 1
            if any(v for v in sent.values()):
                bad.append("side %d: %d written payloads have no wire packet" % (s, sum(sent.values())))
            if o.get("recv%d" % s) != c["w"] * c["per"]:
                bad.append("side %d surfaced %s packets, %d were written" % (s, o.get("recv%d" % s), c["w"] * c["per"]))
    return bad


# ---------------------------------------------------------------- Coq terms

def cb(d):
    if d.get("hex") is not None:
        return "(BLit %s)" % common.coq_bytes(bytes.fromhex(d["hex"]))
    return "(BGen %d %d %d)" % (d["a"], d["b"], d["n"])


def cobs(b):
    return "(mkObs %d %s %d)" % (len(b), common.coq_bytes(b[:HEAD]), common.digest(b))


def copt(e):
    return "(Some %d)" % e if e else "None"


def to_coq(c, o):
    if not c.get("kernel") or o.get("panic") or o.get("stuck"):
        return None
    k = c["k"]
    if k != "key" and o.get("refused"):
        # the case could not run because its key was refused: what the model is asked is the key rule on those bytes
        return "CKey %s true" % cb(c["psk"])
    if missing_fields(c, o):
        return None     # error form (the verdict text says why; judge() has made it a failing case): nothing to compare
    if k == "key":
        return "CKey %s %s" % (cb(c["psk"]), "true" if o.get("refused") else "false")
    if k == "obf":
        out = bytes.fromhex(o["out"])
        salt = out[:SALT] if len(out) >= SALT else bytes(SALT)
        return "CObf %s %s %s %d %d %s" % (cb(c["psk"]), common.coq_bytes(salt), cb(c["d"]), c["cap"], o["n"], cobs(out))
    if k == "deobf":
        return "CDeobf %s %s %d %d %s" % (cb(c["psk"]), cb(c["d"]), c["cap"], o["n"], cobs(bytes.fromhex(o["out"])))
    if k == "st":
        ws = o.get("writes") or []
        items, wobs = [], []
        wi = 0
        for it in c["items"]:
            if it["t"] == "w":
                if wi >= len(ws) or ws[wi].get("stuck"):
                    return None     # a call never returned (already a violation): nothing to compare
                w = ws[wi]
                wi += 1
                wire = bytes.fromhex(w["wire"])
                salt = wire[:SALT] if len(wire) >= SALT else bytes(SALT)
                items.append("IW %s %s %d %s" % (cb(it["d"]), common.coq_bytes(salt), it["addr"], copt(it["err"])))
                wobs.append("mkW %s %d %s" % (cobs(wire), w["n"], copt(w["err"])))
            else:
                items.append("IRaw %s %d %s" % (cb(it["d"]), it["addr"], copt(it["err"])))
        robs = ["mkRO %d %s %d %s" % (r["n"], cobs(bytes.fromhex(r["data"])), r["addr"], copt(r["err"])) for r in (o.get("reads") or [])]
        # lock observations: 0 free, 1 held, 2 not observed (no such field in this tree); older replays carry booleans
        cbools = lambda l: "[%s]" % "; ".join("None" if (x == 2 and x is not True) else ("Some true" if x else "Some false") for x in (l or []))
        return "CStream %s %d [%s] [%s] [%s] %s %s" % (cb(c["psk"]), c["plen"], "; ".join(items), "; ".join(wobs), "; ".join(robs),
                                                       cbools(o.get("wlocks")), cbools(o.get("rlocks")))
    return None


# ---------------------------------------------------------------- classification

def klass(c, o):
    k = c["k"]
    if k == "key":
        return "key:" + ("refused" if o.get("refused") else "accepted") + (":" + key_class(c) if c.get("kc") else "")
    if o.get("refused") or missing_fields(c, o):
        return k + ":did-not-run"
    if k == "obf":
        return "obf:" + ("short-buffer" if o.get("n") == 0 else "ok")
    if k == "deobf":
        return "deobf:" + ("rejected" if o.get("n") == 0 else "ok")
    if k in ("conc", "hammer"):
        return k + ("+wfaults" if c.get("werr") else "")
    nj = sum(1 for it in c["items"] if it["t"] == "raw" and not it["err"] and bs(it["d"])[:BUF].__len__() <= SALT)
    nr = len(o.get("reads") or [])
    ne = sum(1 for it in c["items"] if it["err"])
    we = [j for j, it in enumerate(c["items"]) if it["t"] == "w" and it["err"]]
    wf = bool(we) and any(it["t"] == "w" and not it["err"] for it in c["items"][we[0] + 1:])
    return "st%s%s:%s%s%s%s%s" % ("" if c.get("kernel") else "-oracle", "+bytekey" if c.get("kc") and not c["kc"].startswith("len-") else "", "junk+" if nj else "", "err+" if ne else "", "wfault-then-write+" if wf else "",
                               "rbuf-near-payload+" if near_ks(c) else "", "reads=%d" % min(nr, 3))


def key_class(c):
    kc = c.get("kc") or ""
    if kc.startswith("utf8-") or kc.startswith("short-utf8-"):
        b = bs(c["psk"])
        return "utf8:%s-bytes:%s-code-points" % ("<4" if len(b) < 4 else ">=4", "<4" if runes(b) < 4 else ">=4")
    return kc


def valid_lens(c):
    """payload lengths of the valid packets offered to the reader of a stream case"""
    out = []
    for it in c["items"]:
        if it["err"]:
            continue
        if it.get("exp") is not None:
            out.append(len(it["exp"]) // 2)
        elif it["t"] == "w" and 1 <= dlen(it["d"]) <= BUF - SALT:
            out.append(dlen(it["d"]))
    return out


def near_ks(c):
    """the k in 0..7 for which the reader buffer of a stream case is payload + k for one of its valid packets
    (the buffer holds the packet, not packet + salt)"""
    if c["k"] != "st":
        return set()
    return {c["plen"] - n for n in valid_lens(c) if 0 <= c["plen"] - n < SALT}


def nontrivial(c, o):
    if c["k"] == "st":
        return len(c["items"]) >= 1 and (len(o.get("reads") or []) >= 1 or any(it["t"] == "raw" for it in c["items"]))
    if c["k"] == "conc":
        return (o.get("recv0") or 0) > 0
    if c["k"] == "hammer":
        return c["g"] >= 2
    return True


FP_CLASSES = [
    # (substring of the verdict text, stable fingerprint); first match wins. One VIOLATION line per class.
    ("made no progress", "salamander-concurrent-calls-never-return"),
    ("did not return", "salamander-call-never-returns"),
    ("did not finish within", "salamander-call-never-returns"),
    ("Mutex is still held", "salamander-mutex-left-locked"),
    ("Mutex is held", "salamander-mutex-left-locked"),
    ("zero-length datagram returned to the caller", "salamander-empty-datagram-surfaces"),
    ("junk surfaced", "salamander-junk-surfaces"),
    ("panic", "salamander-panic"),
    ("wire bytes are not", "salamander-wire-format"),
    ("wire packet has", "salamander-wire-format"),
    ("does not decode", "salamander-wire-format"),
    ("wire differs", "salamander-wire-format"),
    ("Obfuscate output differs", "salamander-wire-format"),
    ("payload changed in transit", "salamander-not-transparent"),
    ("never surfaced", "salamander-packet-lost"),
    ("was not returned to the caller", "salamander-read-error-swallowed"),
    ("nobody sent", "salamander-not-transparent"),
    ("reference obfuscator", "salamander-not-transparent"),
    ("deobfuscated bytes are not", "salamander-wire-format"),
    ("Deobfuscate output differs", "salamander-wire-format"),
    ("short read", "salamander-short-read"),
    ("reported", "salamander-count"),
    ("key of", "salamander-key-length"),
    ("refused", "salamander-key-length"),
    ("reads differ", "salamander-reads-differ-from-reference"),
]


def fingerprint(c, o):
    why = o.get("why") or ""
    for sub, fp in FP_CLASSES:
        if sub in why:
            return fp
    return None


def judge(cases, outs):
    """apply the python oracle: a complaint turns the case into a failing one (with the Go verdict kept)"""
    n = 0
    for c, o in zip(cases, outs):
        bad = oracle(c, o)
        if bad:
            n += 1
            o["ok"] = False
            o["why"] = "; ".join(([o["why"]] if o.get("why") else []) + ["hashlib oracle: " + b for b in bad[:3]])
    return n


def go_cases(ctx, cases, tag="main", race=False, timeout=1500):
    return common.run_go_cases(ctx, GO, cases, tag=tag, timeout=timeout, race=race)


def search(ctx, disagreeing):
    """Property-directed search on the implementation alone (no model): more seeds."""
    import random
    found = []
    for s in range(3):
        rng = random.Random(ctx.seed * 1000 + s + 17)
        cases = gen(rng, "quick")
        ok, outs, _, log = go_cases(ctx, cases, tag="search%d" % s)
        judge(cases, outs)
        for c, o in zip(cases, outs):
            if o.get("ok") is False:
                found.append(violation(c, o))
        if found:
            break
    return found


def slim(o):
    """observations without the bulky hex dumps (replays / evidence samples)"""
    def cut(v):
        if isinstance(v, str) and len(v) > 160:
            return v[:160] + "...(%d hex chars)" % len(v)
        if isinstance(v, list):
            return [cut(x) for x in v[:12]]
        if isinstance(v, dict):
            return {k: cut(x) for k, x in v.items()}
        return v
    return {k: cut(v) for k, v in o.items() if k != "i"}


def violation(c, o, tag=""):
    """a failing case as a violation record: the case is the replay; the key is spelled out in bytes as well (a generated key is only
    (a, b, n) in the case) since for a refused key it is the whole failing input"""
    rp = {"case": c, "impl": slim(o)}
    if c.get("psk") is not None:
        psk = bs(c["psk"])
        rp["key_hex"] = psk.hex()
        rp["key_bytes"], rp["key_code_points_as_utf8"] = len(psk), runes(psk)
    return {"what": "%s%s: %s" % (c.get("k"), tag, o.get("why")), "replay": rp, "fingerprint": fingerprint(c, o), "found_input": True}


def race_violation(log, conc_cases):
    """the Go race detector's report, as a violation with the concurrency cases as the replay"""
    if "DATA RACE" not in log:
        return None
    i = log.index("DATA RACE")
    excerpt = log[max(0, i - 20):i + 1800]
    import re
    fr = re.findall(r"^\s+(\S*obfs\.\S+)\(", excerpt, re.M)
    where = ", ".join(dict.fromkeys(x.split("/")[-1] for x in fr if "c13" not in x))[:300]
    return {"what": "data race reported by the Go race detector with concurrent readers/writers on one wrapped socket (%s)" % (where or "see log"),
            "replay": {"case": conc_cases[0] if conc_cases else None, "cases": conc_cases[:4], "go_test_flags": "-race", "race_log": excerpt},
            "fingerprint": "salamander-data-race", "found_input": True}


LOCK_FIELDS = ("readMutex", "writeMutex")
CONN_GO = os.path.join("extras", "obfs", "conn.go")


def declared_locks():
    """which of the wrapper's mutex fields the source under test declares (conn.go of VERIF_REPO, or its replacement under
    VERIF_EXTRA_OVERLAY), read independently of the harness' reflection: {field: bool}, or None if the source cannot be read"""
    path = os.path.join(common.REPO, CONN_GO)
    xov = os.environ.get("VERIF_EXTRA_OVERLAY")
    if xov:
        try:
            path = json.load(open(xov)).get("Replace", {}).get(path, path)
        except Exception:
            pass
    try:
        src = open(path).read()
    except Exception:
        return None
    src = re.sub(r"//[^\n]*", "", src)
    m = re.search(r"type\s+obfsPacketConn\s+struct\s*\{(.*?)\n\}", src, re.S)
    if not m:
        return None
    body = m.group(1)
    return {f: bool(re.search(r"^\s*(?:\w+\s*,\s*)*%s(?:\s*,\s*\w+)*\s+sync\.Mutex\s*$" % f, body, re.M)) for f in LOCK_FIELDS}


def lock_observation(ctx, cases, outs, violations):
    """the white-box lock observation is made by field name (reflection): summarise per field whether it was available, object when the
    source declares a field the harness says it could not observe (the comparison with model/C13_Lock.v must not silently go away), and
    print a NOTE when an observation the baseline evidence had is gone"""
    seen = {f: set() for f in LOCK_FIELDS}
    nobs = {f: [0, 0] for f in LOCK_FIELDS}     # [observed, not observed] lock states
    for c, o in zip(cases, outs):
        if c["k"] != "st":
            continue
        for f in LOCK_FIELDS:
            if (o.get("lockobs") or {}).get(f):
                seen[f].add(o["lockobs"][f])
        for f, key in (("writeMutex", "wlocks"), ("readMutex", "rlocks")):
            for x in o.get(key) or []:
                nobs[f][1 if (x == 2 and x is not True) else 0] += 1
    decl = declared_locks()
    summary = {}
    for f in LOCK_FIELDS:
        st = "ok" if seen[f] == {"ok"} else ("unavailable (%s)" % ", ".join(sorted(seen[f] - {"ok"})) if seen[f] else "no stream case ran")
        summary[f] = {"status": st, "observed": nobs[f][0], "not_observed": nobs[f][1],
                      "declared_in_source": None if decl is None else decl[f]}
        if decl and decl[f] and (seen[f] != {"ok"} or nobs[f][1]) and seen[f]:
            violations.append({"what": "tie broken: %s declares %s sync.Mutex in obfsPacketConn but the harness could not observe it (%s; %d lock states "
                                       "not observed): the comparison with the lock model did not run" % (CONN_GO, f, st, nobs[f][1]),
                               "replay": {"broken": "lock observation", "field": f, "status": st}, "found_input": False, "fingerprint": None})
        if st.startswith("unavailable"):
            ctx.say("NOTE: lock observation of %s is unavailable in this tree (%s): its lock states are not compared with model/C13_Lock.v; "
                    "the behavioural verdicts and the watchdogs run as usual" % (f, ", ".join(sorted(seen[f] - {"ok"}))))
    try:
        base = json.load(open(os.path.join(common.VERIF, "evidence", "C13.json")))["coverage"].get("lock_observation")
    except Exception:
        base = None
    for f in LOCK_FIELDS:
        was_ok = base is None or (base.get(f) or {}).get("status") == "ok"     # before this record existed the harness only built with both fields
        if was_ok and summary[f]["status"].startswith("unavailable"):
            ctx.say("NOTE: lock observation of %s was available in the baseline evidence (evidence/C13.json) and is not in this tree" % f)
    return summary


def near_coverage(cases, outs):
    """stream cases per k = len(reader buffer) - len(payload) in 0..7 in which at least one read returned"""
    cov = {str(k): 0 for k in range(SALT)}
    for c, o in zip(cases, outs):
        if c["k"] == "st" and (o.get("reads") or []):
            for k in near_ks(c):
                cov[str(k)] += 1
    return cov


def bytekey_coverage(cases, outs):
    """byte-level key classes: per class, how many keys were offered to the constructor and how many packets crossed a wrapper pair made
    with such a key; separately the keys of 4 or more bytes that spell fewer than 4 code points"""
    cov = {}
    few = {"keys_ge4_bytes_lt4_code_points_offered": 0, "of_those_accepted": 0, "packets_returned_under_such_keys": 0,
           "keys_lt4_bytes_offered": 0, "of_those_refused": 0}
    for c, o in zip(cases, outs):
        if c.get("psk") is None or c["k"] not in ("key", "st", "obf", "deobf"):
            continue
        b = bs(c["psk"])
        fewcp = len(b) >= 4 and runes(b) < 4
        if c["k"] == "key":
            if fewcp:
                few["keys_ge4_bytes_lt4_code_points_offered"] += 1
                few["of_those_accepted"] += 0 if o.get("refused") else 1
            if len(b) < 4:
                few["keys_lt4_bytes_offered"] += 1
                few["of_those_refused"] += 1 if o.get("refused") else 0
        elif fewcp and c["k"] == "st":
            few["packets_returned_under_such_keys"] += len(o.get("reads") or [])
        kc = c.get("kc")
        if kc and not kc.startswith("len-"):
            kc = key_class(c)
            d = cov.setdefault(kc, {"constructor_cases": 0, "socket_pair_cases": 0, "packets_returned": 0})
            if c["k"] == "key":
                d["constructor_cases"] += 1
            elif c["k"] == "st":
                d["socket_pair_cases"] += 1
                d["packets_returned"] += len(o.get("reads") or [])
    return {"classes": cov, **few}


def sweep_coverage(cases, outs, width=120):
    """per stratum of the payload range 1..2040: packets written through a wrapper (wire image checked) and packets returned by a reader"""
    wr = [0] * ((BUF - SALT + width - 1) // width)
    rd = [0] * len(wr)
    for c, o in zip(cases, outs):
        if c["k"] != "st":
            continue
        for it in c["items"]:
            n = dlen(it["d"])
            if it["t"] == "w" and not it["err"] and 1 <= n <= BUF - SALT:
                wr[(n - 1) // width] += 1
        for r in o.get("reads") or []:
            if not r.get("err") and 1 <= r.get("n", 0) <= BUF - SALT:
                rd[(r["n"] - 1) // width] += 1
    return {"stratum_width": width, "written": wr, "returned": rd}


def run(ctx):
    """common.run_case_check with one more judge: the python hashlib oracle on every case's observations
    (same decision rule), and -race for the Go run in the thorough tier."""
    import random
    spec = sys.modules[__name__]
    rng = random.Random(ctx.seed)
    cases = gen(rng, ctx.tier)
    violations = []
    ok, outs, params, golog = go_cases(ctx, cases, race=(ctx.tier != "quick"))
    conc_cases = [c for c in cases if c["k"] in ("conc", "hammer")]
    raced = race_violation(golog, conc_cases)
    if raced:
        violations.append(raced)
        outs = outs if len(outs) == len(cases) else []
    elif not ok:
        ctx.say("Go harness failed:\n" + golog[-3000:])
        violations.append({"what": "tie broken: Go harness for %s did not build/run against the current tree (%s)" % (ctx.pid, golog.strip()[-400:]),
                           "replay": {"broken": "go harness", "log": golog[-4000:]}, "found_input": False, "fingerprint": None})
        outs = outs if len(outs) == len(cases) else []
    if ctx.tier == "quick" and ok:
        # the concurrency cases once more under the Go race detector (the thorough tier runs everything under it)
        rok, routs, _, rlog = go_cases(ctx, conc_cases, tag="race", race=True)
        raced = race_violation(rlog, conc_cases)
        if raced:
            violations.append(raced)
        elif not rok:
            ctx.say("Go harness (-race) failed:\n" + rlog[-3000:])
            violations.append({"what": "tie broken: -race run of the Go harness for %s failed (%s)" % (ctx.pid, rlog.strip()[-400:]),
                               "replay": {"broken": "go harness -race", "log": rlog[-4000:]}, "found_input": False, "fingerprint": None})
        judge(conc_cases, routs)
        for c, o in zip(conc_cases, routs):
            if o.get("ok") is False:
                violations.append(violation(c, o, " (-race run)"))
    if params is not None:
        if common.write_params(PARAMS_NAME, [tuple(p) for p in params]):
            ctx.say("Params changed -> rebuilding dependants")
    norc = judge(cases, outs)
    if norc:
        ctx.say("python hashlib oracle objects to %d case(s)" % norc)
    lockobs = lock_observation(ctx, cases, outs, violations) if outs else {}
    proof_ok, pinfo = common.proof_stage(ctx, ctx.pid, extra_targets=EXTRA_TARGETS)
    if not proof_ok:
        ctx.say("PROOF STAGE BROKEN: " + json.dumps({k: pinfo[k] for k in pinfo if k != "theorems"})[:3000])
    mism, corr_ok, corr_err, compared = [], True, "", 0
    if outs:
        terms, idxmap = [], []
        for i, (c, o) in enumerate(zip(cases, outs)):
            t = to_coq(c, o)
            if t is not None:
                terms.append(t)
                idxmap.append(i)
        compared = len(terms)
        t1 = time.time()
        nsh = 6 if ctx.tier == "quick" else 12     # a coqc start-up (Require) costs more than a shard's cases: few shards
        per = max(PER_SHARD, -(-len(terms) // nsh))
        eok, mm, err = common.eval_cases(ctx, "cases", HEADER, terms, per)
        ctx.say("coq evaluation of %d cases: %.1fs" % (len(terms), time.time() - t1))
        if not eok:
            corr_ok, corr_err = False, err
            ctx.say("CORRESPONDENCE EVALUATION FAILED: " + err)
        mism = [idxmap[j] for j in mm]
    hist, nontriv = {}, set()
    for c, o in zip(cases, outs):
        kl = klass(c, o)
        hist[kl] = hist.get(kl, 0) + 1
        if nontrivial(c, o):
            nontriv.add(json.dumps(c, sort_keys=True))
        if o.get("ok") is False:
            violations.append(violation(c, o))
    impl_bad = any(v.get("found_input") for v in violations)
    broken = []
    if not proof_ok:
        broken.append("proof obligation (%s)" % pinfo.get("broken_at", pinfo.get("forbidden", "assumptions")))
    if mism:
        broken.append("correspondence C13_Corr on %d case(s)" % len(mism))
    if not corr_ok:
        broken.append("correspondence evaluation (%s)" % corr_err[:200])
    if broken and not impl_bad:
        found = search(ctx, [cases[i] for i in mism[:20]]) or []
        if found:
            violations += found
        else:
            violations.append({
                "what": "no longer shown to hold: " + "; ".join(broken),
                "replay": {"broken": broken, "proof": {k: pinfo.get(k) for k in ("broken_at", "build_log_tail", "forbidden", "theorems")},
                           "disagreeing_cases": [{"case": cases[i], "impl": slim(outs[i])} for i in mism[:10]]},
                "fingerprint": None, "found_input": False})
    elif mism and impl_bad:
        ctx.say("model/implementation disagree on %d case(s) (implementation also violates the property directly)" % len(mism))
    samples = [{"case": c, "impl": slim(o)} for c, o in list(zip(cases, outs))[:2]]
    for c, o in zip(cases, outs):
        if c["k"] == "st" and len(c["items"]) >= 4 and len(o.get("reads") or []) >= 1:
            samples.append({"case": c, "impl": slim(o)})
            break
    ctx.say("input classes: " + json.dumps(hist, sort_keys=True))
    cov = {"evaluations": len(cases), "distinct_nontrivial": len(nontriv), "rule": RULE, "samples": samples,
           "traces_validated_against_impl": compared, "model_impl_disagreements": len(mism), "input_classes": hist,
           "hashlib_oracle_cases": len(outs), "hashlib_oracle_objections": norc,
           "packets_on_the_wire": sum(len(o.get("writes") or []) + len(o.get("wires0") or []) + len(o.get("wires1") or []) for o in outs),
           "go_race_detector": "all cases" if ctx.tier != "quick" else "concurrency cases (second run)",
           "lock_observation": lockobs, "reader_buffer_payload_plus_k_cases": near_coverage(cases, outs),
           "byte_level_keys": bytekey_coverage(cases, outs), "payload_length_strata_written_and_read": sweep_coverage(cases, outs),
           "notes": [l for l in ctx.log if l.startswith("NOTE:")]}
    return common.finish(ctx, pinfo, cov, violations, ASSUMPTIONS, trusted_extra=TRUSTED)


def replay(ctx, path):
    r = json.load(open(path))
    c = r["replay"].get("case")
    if not c:
        print("replay file names a broken obligation/correspondence, no concrete input:", r["what"])
        return 1
    race = r["replay"].get("go_test_flags") == "-race"
    cs = r["replay"].get("cases") or [c]
    ok, outs, _, log = go_cases(ctx, cs, tag="replay", race=race)
    judge(cs, outs)
    print(json.dumps([slim(o) for o in outs], indent=1))
    if race and "DATA RACE" in log:
        print(log[log.index("DATA RACE") - 20:][:2500])
        return 1
    return 0 if outs and len(outs) == len(cs) and all(o.get("ok") for o in outs) else 1


LEVEL_TEXT = ("Machine-checked Coq theorems over a Gallina model of salamander.go and the obfs socket wrapper: for every key, salt, payload and "
              "every sequence of incoming datagrams and errors (no bound on lengths), a packet written through the wrapper is returned unchanged by a "
              "wrapper with the same key - proved for an arbitrary hash function -, the wire packet is salt || payload XOR BLAKE2b-256(key||salt) "
              "cycled with the Gallina RFC 7693 BLAKE2b (RFC and hashlib vectors checked in the kernel), reported counts are the original lengths, "
              "datagrams of 0..8 bytes never surface whatever surrounds them, a key is refused exactly when it has fewer than 4 bytes (the rule looks at the number of bytes only: two keys of the same byte length are treated alike, whatever they spell) and every key of 4 or more bytes round-trips, nothing panics, and the surfaced sequence "
              "does not depend on how concurrent readers are scheduled; for every history of writes (with any outcome of the socket below) and read iterations every "
              "call returns and both mutexes are free again (a failed underlying write leaves the socket usable). The model is tied to /repo on every run by regenerated constants and a "
              "differential run of the Go code (x/crypto blake2b) against the model inside the Coq kernel and against python hashlib.")
LEVEL_NOTE = ("Trusted: Coq kernel + vm_compute; hand-written model (tie is sampled differential testing + regenerated Params); python/Go glue. "
              "No axioms (all theorems closed under the global context). Not proved: atomicity of the mutex-protected sections (read from the source, "
              "-race in the thorough tier), the salt's randomness, conformance of the underlying PacketConn.")
TECHNIQUE = "Coq proof (hash-parametric involution, induction over packet histories and reader schedules) on a hand-written model + executable RFC 7693 BLAKE2b in Gallina + differential correspondence check in vm_compute and against hashlib"
DESIGN_REF = "DESIGN.md section 4 C13"
