"""C14 - Gecko reassembles handshake packets exactly with bounded state (DESIGN.md section 4, C14)."""
from vlib import common

GO = dict(module="extras", pkg="obfs", pkgname="obfs",
          files={"zz_verif_c14_test.go": "c14/c14_test.go"}, run="TestVerifC14")
PARAMS_NAME = "ParamsC14"
HEADER = ("From Hy Require Import lib.Harness model.C14_Gecko corr.C14_Corr.\nFrom Coq Require Import ZArith.\n"
          "Local Open Scope Z_scope.\n")
RULE = ("seeded generator of operation sequences against a real geckoPacketConn in a synctest bubble: (clean) 1-3 sources, packets "
        "of boundary and random lengths 1..1500 written through the real sender, every frame delivered in a random permutation with "
        "duplicates, interleaved with other messages, other sources and short-header packets; (wrap) message-id counters started "
        "next to the 8-bit/32-bit wrap and a 258-message run that reuses an id held by a stale entry; (wild) mutated frames, garbage, "
        "sleeps across gc ticks, direct gcExpired calls at deadline-1/deadline/deadline+1, small caller buffers; (percap) one source "
        "opening more than 8 messages, then expiry/completion and re-use; (flood) >4096 keys from hundreds of sources with distinct "
        "and with tied deadlines (the evicted key is recorded and given to the model as the oracle); (ownold) the table reaches the "
        "4096 cap while the oldest entries belong to the 1-3 sources that open the next messages (their own oldest entry is the one "
        "evicted), interleaved with cross-source evictions, completions and duplicates, then full expiry and 8+1 fresh opens per "
        "source (admitted iff the source really holds < 8 entries; counters = census at every eviction step); (replay / lockout / "
        "replayreal) 1-3 sources open 1-8 incomplete messages (8 each: lockout) at some phase of the gc period, then for 2-5 rounds "
        "with gaps shorter than the TTL frames arrive again under the pending keys (exact duplicates, same index with other bytes, "
        "a further chunk, another chunk count), direct gcExpired(now) calls in between, then the first gc tick / sweep later than "
        "last-created + TTL and new opens per source (1-8, then a 9th): the harness keeps its own first-seen time per entry (entry "
        "pointer, bubble clock) and requires every entry to be gone after the first sweep later than first-seen + TTL and a source to "
        "be refused only while it has 8 messages that are not yet due; (werr) INNER WRITE ERRORS: 1-2 senders write 2-7 packets "
        "per TTL window over an inner conn that refuses one datagram of some writes (first / middle / last chunk, chunk k mod total, "
        "k-th inner write of a long-header packet; the datagram of a short-header packet), each failed write followed by further "
        "writes of the same sender (same size with other bytes, the identical packet retried, another size, short-header, failing "
        "again), everything that reached the wire fed to the receiver in wire order / interleaved / reversed / permuted with "
        "duplicates: every packet whose WriteTo returned success must be delivered byte-identical, nothing else may be delivered, "
        "a refused datagram must surface as an error, the chunks on the wire of a failed write are the leading chunks, and no two "
        "long-header writes less than 256 apart may put the same message id on the wire (harness's own id record); (SOURCE-ADDRESS CLASSES) "
        "cases with an address table: the harness builds real net.Addr values - *net.UDPAddr differing ONLY in the IPv6 zone (and "
        "zones on IPv4 addresses), 4-byte IPv4 / IPv4-mapped / IPv4-compatible forms of one address, same IP with ports p, p+1, "
        "p^256, p+-65536, 0, addresses differing in one byte, nil / 0.0.0.0 / :: / ill-sized IPs, *net.TCPAddr / *net.IPAddr / "
        "*net.UnixAddr values, a nil *net.UDPAddr, and a custom net.Addr type whose String() equals / extends another row's - and "
        "reports String() of each; a source is a String() value. (xsrc:inter) every row has its own real sender, all from one "
        "counter value, so the r-th message of every row carries the SAME message id, and the SAME chunk count (rejection sampling "
        "of the sender's own draw); chunks of all rows interleaved (alternating / random, permuted, duplicates, rounds overlapping, "
        "one message replicated from every source, chunks of one message split between rows of one String()): every packet "
        "delivered for a source is byte-for-byte a packet whose chunks ALL came from that source, with the very net.Addr value of the "
        "datagram, every complete set is delivered, a datagram never adds a chunk to / removes a pending message of another source; "
        "(xsrc:budget) every row opens 8 messages under the same ids (admitted: 8 per String()), a 9th, completions, sweeps; "
        "(xsrc:ttl) rows send chunks under one id seconds apart across ticks; and the clean / wild / percap / replay / lockout / "
        "replayreal / werr families re-run over pairwise different near-colliding addresses; decodeFrame on random/structured "
        "bytes; option validation. Non-trivial = a reassembled packet was emitted, or a cap/eviction/expiry was reached, or a decode/"
        "config verdict. Distinct = distinct JSON case.")
ASSUMPTIONS = [
    "the inner (Salamander) conn delivers datagrams whole and adds exactly smSaltLen bytes (C13); an inner write error means the datagram did not reach the wire (which call fails is an input of the model: write_to_f / send_run)",
    "crypto/rand draws are arbitrary oracle values (uniformity not claimed); the gc ticker fires at multiples of TTL/2 with its scheduled time",
    "pending messages of one source carry distinct 8-bit message ids (hypothesis of C14_no_chimera and of the round-trip theorem's 'no stale entry' premise)",
    "a SOURCE is a value of net.Addr.String(): two addresses with different String() are different sources, two with equal String() "
    "(e.g. an IPv4 address and its IPv4-mapped IPv6 form with the same port: both print a.b.c.d:port; a *net.UDPAddr and any other "
    "net.Addr printing the same text) are the same source. The model's source name (N) is derived from String() exactly: the "
    "harness reports String() of every row of a case's address table as computed by the Go standard library, and corr.C14_Corr."
    "src_name names a row by the first row with an equal string (C14_source_names: same name <-> equal strings); without a table "
    "the sources are the harness's own addresses with String() = \"s\" + decimal number, named by that number",
]
TRUSTED = ["modelled rather than verified: extras/obfs/gecko.go and gecko_frame.go (hand transcription in coq/model/C14_Gecko.v); "
           "the two Go maps are association lists, Go map iteration order enters only as the eviction tie-break oracle"]
PER_SHARD = 42
EXTRA_TARGETS = ["corr/C14_Corr.vo"]
TTL = 8_000_000_000
PERIOD = TTL // 2


def raw_frame(mid, idx, tot, pad, payload, flag=0x80):
    return bytes([flag, mid & 255, ((idx & 15) << 4) | (tot & 15), (pad >> 8) & 255, pad & 255]) + bytes(pad) + bytes(payload)


def mk_msg(rng, snd, ln=None, long=True):
    if ln is None:
        ln = rng.choice([1, 2, 3, 7, 8, 9, 15, 16, 17, 33, 64, rng.randint(1, 200), rng.randint(1, 1500)])
    first = rng.choice([0x80, 0xC0, 0xC3, 0xFF, 0x80 | rng.randrange(128)]) if long else rng.randrange(128)
    return {"snd": snd, "len": ln, "a": rng.randrange(256), "b": rng.randrange(256), "first": first}


CFGS = [(20, 60), (14, 40), (13, 13), (30, 30), (1, 64), (64, 200), (0, 0), (1, 2048), (100, 101)]


def short_pkt(rng):
    n = rng.choice([1, 2, 5, 20, 40])
    return bytes([rng.randrange(128)] + [rng.randrange(256) for _ in range(n - 1)])


def gen_clean(rng, big=False):
    omin, omax = rng.choice(CFGS if not big else [(0, 0), (1, 2048), (512, 1200)])
    nsnd = rng.randint(1, 3)
    senders = [{"ctr0": rng.choice([0, 0, 5, 200, rng.randrange(2**32)])} for _ in range(nsnd)]
    msgs, streams, must = [], [], []
    for s in range(nsnd):
        for _ in range(rng.randint(1, 3)):
            mi = len(msgs)
            ln = None
            if big:
                ln = rng.choice([1200, 1252, 1350, 1500, rng.randint(900, 1500)])
            elif omax > 200 or omax == 0:
                ln = rng.choice([1, 5, 40, 120])
            msgs.append(mk_msg(rng, s, ln))
            srcs = [s] if rng.random() < 0.8 else [s, s + 10]
            for src in srcs:
                idx = list(range(8))
                rng.shuffle(idx)
                idx += [rng.randrange(8) for _ in range(rng.randint(0, 4))]
                streams.append([{"o": "f", "s": src, "m": mi, "i": i} for i in idx])
                must.append([mi, src])
    for _ in range(rng.randint(0, 2)):
        streams.append([{"o": "p", "s": rng.randrange(nsnd + 1), "h": short_pkt(rng).hex()} for _ in range(rng.randint(1, 4))])
    ops = []
    mode = rng.random()
    if mode < 0.25:
        for st in streams:
            ops += st
    else:
        live = [list(s) for s in streams]
        while live:
            s = rng.choice(live)
            ops.append(s.pop(0))
            if not s:
                live.remove(s)
    for o in ops:
        o["d"] = rng.choice([0, 1, 1, 1, 1000, 100000])
    # message ids are ctr0+1.. per sender: distinct as long as fewer than 256 messages per sender
    return {"k": "seq", "fam": "clean", "omin": omin, "omax": omax, "rbuf": 2048, "senders": senders, "msgs": msgs,
            "ops": ops, "must": must, "distinct": True}


def gen_wrap(rng):
    omin, omax = rng.choice([(14, 30), (20, 60)])
    ctr0 = rng.choice([253, 254, 255, 2**32 - 2, 2**32 - 1, 65534, 511])
    senders = [{"ctr0": ctr0}]
    n = rng.randint(3, 6)
    msgs = [mk_msg(rng, 0, rng.randint(1, 40)) for _ in range(n)]
    ops, must = [], []
    for mi in range(n):
        idx = list(range(8))
        rng.shuffle(idx)
        ops += [{"o": "f", "s": 0, "m": mi, "i": i, "d": 1} for i in idx]
        must.append([mi, 0])
    return {"k": "seq", "fam": "wrap", "omin": omin, "omax": omax, "rbuf": 2048, "senders": senders, "msgs": msgs,
            "ops": ops, "must": must, "distinct": True}


def gen_reuse(rng):
    """258 messages from one sender: message 0 is delivered only in part (stale entry), message 256 reuses its id."""
    senders = [{"ctr0": rng.choice([0, 77])}]
    msgs = [mk_msg(rng, 0, rng.randint(2, 12)) for _ in range(258)]
    ops = [{"o": "f", "s": 0, "m": 0, "i": 0, "d": 1}]
    for mi in range(1, 258):
        idx = list(range(8))
        rng.shuffle(idx)
        ops += [{"o": "f", "s": 0, "m": mi, "i": i, "d": 1} for i in idx]
    return {"k": "seq", "fam": "reuse", "omin": 14, "omax": 24, "rbuf": 2048, "senders": senders, "msgs": msgs,
            "ops": ops, "must": [], "distinct": False}


def gen_wild(rng):
    omin, omax = rng.choice(CFGS[:6])
    nsnd = rng.randint(1, 3)
    senders = [{"ctr0": rng.choice([0, 254, 255, rng.randrange(2**32)])} for _ in range(nsnd)]
    msgs = [mk_msg(rng, rng.randrange(nsnd), rng.randint(0, 60), long=rng.random() < 0.85) for _ in range(rng.randint(1, 6))]
    ops = []
    now = 0
    deadlines = []
    for _ in range(rng.randint(10, 70)):
        r = rng.random()
        d = rng.choice([0, 1, 1, 1, 1, 1000, 10**9, PERIOD - 1, PERIOD, PERIOD + 1, TTL, rng.randrange(1, 3 * 10**9)]) if rng.random() < 0.35 else 1
        now += d
        src = rng.randrange(4)
        if r < 0.45:
            ops.append({"o": "f", "d": d, "s": src, "m": rng.randrange(len(msgs)), "i": rng.randrange(8)})
            deadlines.append(now + TTL)
        elif r < 0.65:
            at = rng.choice([0, 1, 1, 2, 2, 2, 3, 4, rng.randrange(64)])
            v = rng.randrange(256)
            if at == 2:
                v = (rng.randrange(9) << 4) | rng.choice([0, 1, 2, 3, 5, 8, 9, 15])
            ops.append({"o": "x", "d": d, "s": src, "m": rng.randrange(len(msgs)), "i": rng.randrange(8), "at": at, "v": v})
            deadlines.append(now + TTL)
        elif r < 0.75:
            b = rng.choice([short_pkt(rng), b"", bytes([0x80]), bytes([0x80, 1, 0x02, 0, 0]),
                            raw_frame(rng.randrange(4), rng.randrange(3), rng.choice([2, 3]), rng.choice([0, 1, 3]), b"ab"[:rng.randrange(3)]),
                            raw_frame(1, 0, 2, 500, b"zz"), bytes(rng.randrange(256) for _ in range(rng.randrange(1, 9)))])
            ops.append({"o": "p", "d": d, "s": src, "h": b.hex()})
            deadlines.append(now + TTL)
        elif r < 0.88:
            ops.append({"o": "t", "d": rng.choice([1, 10**9, PERIOD, PERIOD - 1, TTL, TTL + PERIOD, 3 * PERIOD + 5])})
            now += ops[-1]["d"] - d
        else:
            base = rng.choice(deadlines) if deadlines else now
            ops.append({"o": "g", "d": d, "t": max(0, base + rng.choice([-1, 0, 1, 1, 5, -PERIOD, PERIOD]))})
    return {"k": "seq", "fam": "wild", "omin": omin, "omax": omax, "rbuf": rng.choice([2048, 2048, 1500, 10, 3, 0]),
            "senders": senders, "msgs": msgs, "ops": ops, "must": [], "distinct": False}


def gen_percap(rng):
    """one or two sources open more than 8 messages; expiry / completion free slots; then again."""
    ops = []
    nsrc = rng.randint(1, 2)
    mids = list(range(256))
    rng.shuffle(mids)
    for rnd in range(rng.randint(2, 4)):
        opened = []
        for j in range(rng.randint(9, 14)):
            s = rng.randrange(nsrc)
            mid = mids[(rnd * 20 + j) % 256] if rng.random() < 0.9 else rng.randrange(256)
            tot = rng.choice([2, 3, 8])
            ops.append({"o": "p", "d": rng.choice([0, 1, 1]), "s": s, "h": raw_frame(mid, 0, tot, rng.choice([0, 2]), bytes([mid, 1])).hex()})
            opened.append((s, mid, tot))
        # complete a few of them (those that were admitted complete; the refused ones open now if room)
        for (s, mid, tot) in rng.sample(opened, rng.randint(1, 5)):
            for i in range(1, tot):
                ops.append({"o": "p", "d": 1, "s": s, "h": raw_frame(mid, i, tot, 0, bytes([i])).hex()})
        how = rng.random()
        if how < 0.4:
            ops.append({"o": "t", "d": rng.choice([TTL + PERIOD, TTL + PERIOD - 1, 3 * PERIOD])})
        elif how < 0.7:
            ops.append({"o": "g", "d": 1, "t": 10**12})
        # else: leave the entries pending
    return {"k": "seq", "fam": "percap", "omin": 20, "omax": 60, "rbuf": 2048, "senders": [], "msgs": [], "ops": ops,
            "must": [], "distinct": False}


def gen_flood(rng, nsrc, per, ties, extra):
    """more keys than the global cap: nsrc sources x per message ids."""
    ops = []
    keys = [(s, m) for s in range(nsrc) for m in range(per)]
    rng.shuffle(keys)
    for (s, m) in keys:
        d = 0 if (ties and rng.random() < 0.9) else 1
        r = rng.random()
        if r < 0.9:
            b = raw_frame(m * 7 % 256, rng.randrange(2), rng.choice([2, 2, 3, 8]), 0, bytes([s % 256]))
        elif r < 0.95:
            b = raw_frame(m, 9, 8, 0, b"")          # ill-formed: index >= total
        else:
            b = bytes([0x80, m, 0x02, 0xff, 0xff])   # ill-formed: padding longer than the frame
        ops.append({"o": "p", "d": d, "s": s, "h": b.hex()})
    for _ in range(extra):
        r = rng.random()
        s = rng.randrange(nsrc + 50)
        if r < 0.7:
            ops.append({"o": "p", "d": rng.choice([0, 1]), "s": s, "h": raw_frame(rng.randrange(256), rng.randrange(2), 2, 0, b"x").hex()})
        elif r < 0.8:
            ops.append({"o": "p", "d": 1, "s": s, "h": short_pkt(rng).hex()})
        elif r < 0.9:
            ops.append({"o": "t", "d": rng.choice([1, PERIOD, 10**9])})
        else:
            ops.append({"o": "g", "d": 1, "t": rng.choice([TTL + 100, TTL + len(keys) // 2, 10**9])})
    return {"k": "seq", "fam": "flood", "omin": 20, "omax": 60, "rbuf": 2048, "senders": [], "msgs": [], "ops": ops,
            "must": [], "distinct": False}


class _Tbl:
    """generator-side sketch of the reassembly table (age order, caps, completion), used only to STEER gen_ownold towards
    the situation it is after; every expectation is evaluated by the harness on the real table and by the Coq model."""

    def __init__(self):
        self.e = {}            # (src, mid) -> [tot, set(idx)]   (insertion order = age order, deadlines never move)
        self.n = {}
        self.selfev = 0        # evictions that removed an entry of the source that was opening a message

    def drop(self, k):
        del self.e[k]
        self.n[k[0]] -= 1

    def pkt(self, s, mid, idx, tot):
        k = (s, mid)
        if k not in self.e:
            if self.n.get(s, 0) >= 8:
                return
            if len(self.e) >= 4096:
                old = next(iter(self.e))
                self.selfev += (old[0] == s)
                self.drop(old)
            self.e[k] = [tot, set()]
            self.n[s] = self.n.get(s, 0) + 1
        elif self.e[k][0] != tot:
            return
        if idx < tot:
            self.e[k][1].add(idx)
            if len(self.e[k][1]) >= tot:
                self.drop(k)

    def oldest_src(self):
        return next(iter(self.e))[0] if self.e else None

    def of(self, s):
        return [(k[1], v[0], v[1]) for k, v in self.e.items() if k[0] == s]


def gen_ownold(rng, per, ties, fills=1, maxgap=20):
    """global cap reached while the OLDEST entries belong to the very source(s) that open the next messages.

    Per fill: (A) an "old layer": 1-3 victim sources open 1..7 messages each, interleaved in age with small groups of
    filler entries; (B) filler sources (per messages each) fill the table up to the cap (or 1-2 short of it);
    (C) eviction phase, long enough to consume the old layer: the victim that owns the oldest entry opens a new
    message (its own oldest entry is the one evicted), other victims / new filler keys open (cross-source eviction of
    a victim entry), victims complete / duplicate chunks, pass-through packets, no-op gc; (D) everything expires
    (gc ticks, or direct gcExpired, optionally after a partial sweep); (E) every victim opens 8 messages (all must be
    admitted), a 9th (refused), completes some, opens again.  Victim entries have deadlines distinct from all others
    (ties only inside filler groups), so who owns the oldest entry does not depend on Go's map order.
    The expectations (admitted iff the table really holds < 8 entries of the source; counters = census, at every step
    that ran at the cap; perSource empty after expiry) are evaluated by the harness on the real table and by the
    model through the per-step digest."""
    CAP = 4096
    nv = rng.randint(1, 3)
    victims = list(range(nv))
    ops = []
    ids = {}
    for v in victims:
        l = list(range(256))
        rng.shuffle(l)
        ids[v] = l
    tb = _Tbl()
    nfill = [0]
    fbase = 100 + rng.randrange(1000)
    now = [0]

    def emit(o):
        now[0] += o.get("d", 0)
        ops.append(o)

    def frame(s, d, mid, idx, tot, pad, payload):
        emit({"o": "p", "d": d, "s": s, "h": raw_frame(mid, idx, tot, pad, payload).hex()})
        tb.pkt(s, mid, idx, tot)

    def filler(d):
        n = nfill[0]
        nfill[0] += 1
        s, m = fbase + n // per, (n % per) * 37 % 256
        frame(s, d, m, rng.randrange(2), rng.choice([2, 2, 3, 8]), 0, bytes([s % 256]))

    def vopen(v, d):
        mid = ids[v].pop()
        if not ids[v]:
            ids[v] = [m for m in range(256) if (v, m) not in tb.e]
            rng.shuffle(ids[v])
        tot = rng.choice([2, 2, 2, 3, 8])
        frame(v, d, mid, rng.randrange(tot), tot, rng.choice([0, 0, 3]), bytes([0xC0 | v, mid]))

    def vcomplete(v, youngest=False):
        mine = tb.of(v)
        if not mine:
            return
        mid, tot, have = mine[-1] if youngest else rng.choice(mine)
        for i in range(tot):
            if i not in have:
                frame(v, rng.choice([0, 1]), mid, i, tot, 0, bytes([i, mid]))

    for _fill in range(fills):
        # (A) old layer
        toks = [v for v in victims for _ in range(rng.choice([1, 2, 4, 6, 7, 7]))]
        if len(toks) < 4:
            toks += [victims[0]] * rng.randint(3, 5)
        rng.shuffle(toks)
        for v in toks:
            vopen(v, 1)
            g = rng.choice([0, 0, 1, 2, 5, maxgap])
            for j in range(g):
                filler(1 if (j == 0 or not ties) else 0)
        old = len(tb.e)
        # (B) bulk fill
        slack = rng.choice([0, 0, 1, 2])
        first = True
        while len(tb.e) < CAP - slack:
            filler(1 if (first or not ties or rng.random() < 0.1) else 0)
            first = False
        # (C) evictions
        need = tb.selfev + rng.choice([1, 3, 8])
        for _ in range(2 * old + 40):
            r = rng.random()
            v = rng.choice(victims)
            own = tb.oldest_src()
            nxt = 1 if tb.e and next(iter(tb.e))[0] in victims else None   # a victim entry heads the age order
            if r < 0.45 or (nxt and (r < 0.60 or tb.selfev < need)):
                w = own if (nxt and (tb.selfev < need or rng.random() < 0.85)) else v
                if w == own and tb.n.get(w, 0) >= 8 and (tb.selfev < need or rng.random() < 0.8):
                    vcomplete(w, youngest=True)   # make room: a source at its own cap is refused before any eviction
                if w == own and tb.selfev < need:
                    while len(tb.e) < CAP:        # completions took the table below the cap: top it up again
                        filler(1)
                vopen(w, 1)
            elif r < 0.70:
                filler(1 if (nxt or not ties) else rng.choice([0, 1]))
            elif r < 0.80:
                vcomplete(v)
            elif r < 0.85 and tb.of(v):
                mid, tot, have = rng.choice(tb.of(v))
                if have:
                    frame(v, 1, mid, rng.choice(sorted(have)), tot, 0, b"dup")
            elif r < 0.90 and tb.of(v):
                mid, tot, have = rng.choice(tb.of(v))
                frame(v, 1, mid, 0, tot % 8 + 2, 0, b"tot")                        # inconsistent chunk count
            elif r < 0.95:
                emit({"o": "p", "d": 1, "s": rng.choice(victims + [fbase]), "h": short_pkt(rng).hex()})
            else:
                emit({"o": "g", "d": 1, "t": rng.choice([0, now[0] % TTL, TTL])})
        # (D) expiry
        r = rng.random()
        if r < 0.3:
            emit({"o": "g", "d": 1, "t": TTL + rng.randrange(1, now[0] + 1)})      # partial sweep first
        if r < 0.65:
            emit({"o": "t", "d": TTL + PERIOD})
        else:
            emit({"o": "g", "d": 1, "t": now[0] + TTL + 2})
        tb = _Tbl()
        # (E) after expiry nobody is locked out and no counter is left behind
        for v in victims:
            for _ in range(8):
                vopen(v, rng.choice([0, 1]))
            vopen(v, 1)                       # the 9th: refused
            for _ in range(rng.randint(0, 3)):
                vcomplete(v)
                vopen(v, 1)
        if _fill + 1 < fills or rng.random() < 0.5:
            emit({"o": "g", "d": 1, "t": now[0] + TTL + 2})
            tb = _Tbl()
    return {"k": "seq", "fam": "ownold", "omin": 20, "omax": 60, "rbuf": 2048, "senders": [], "msgs": [], "ops": ops,
            "must": [], "distinct": False}


def gen_replay(rng, lockout=False, real=False):
    """incomplete messages whose frames are REPLAYED across time: 1-3 sources open 1-8 messages each (8 each in the
    lock-out variant) at some phase of the gc period; then 2-5 rounds, each after a gap shorter than the TTL
    (5 s, TTL-1 ns, one gc period, ...), in which frames arrive again under the pending keys: exact duplicates of a
    chunk already held (dropped), the same index with other bytes, a further chunk that does not complete the
    message, a frame with another chunk count (dropped), with direct gcExpired(now) calls in between; then a sleep
    across the first gc tick later than last-created + TTL, and every source opens new messages (1-8, then a 9th).
    An entry first seen at t has to be gone after the first sweep later than t + TTL however often its key was
    replayed (a replay after that sweep legitimately opens a NEW entry), and the sources must not be locked out.
    real=True: the messages are written through the real sender, only frame 0 is delivered and replayed, and after
    the expiry all frames arrive promptly: the message must then be delivered."""
    ops = []
    now = [0]

    def emit(o):
        now[0] += o.get("d", 0)
        ops.append(o)

    nsrc = rng.randint(1, 3)
    emit({"o": "t", "d": rng.choice([1, 10**9, PERIOD - 1, PERIOD, PERIOD + 1, rng.randrange(1, TTL)])})
    senders, msgs, must = [], [], []
    pend = []
    last_created = 0
    if real:
        senders = [{"ctr0": rng.choice([0, 5, 254, rng.randrange(2**32)])} for _ in range(nsrc)]
        for s in range(nsrc):
            for _ in range(rng.randint(1, 3)):
                msgs.append(mk_msg(rng, s, rng.randint(2, 60)))
                emit({"o": "f", "d": rng.choice([0, 1, 1000, 10**8]), "s": s, "m": len(msgs) - 1, "i": 0})
                pend.append([s, len(msgs) - 1])
        last_created = now[0]
    else:
        for s in range(nsrc):
            mids = rng.sample(range(256), 20)
            for _ in range(8 if lockout else rng.randint(1, 8)):
                mid, tot = mids.pop(), rng.choice([2, 3, 3, 5, 8])
                idx = rng.randrange(tot)
                emit({"o": "p", "d": rng.choice([0, 1, 1000, 10**8]), "s": s,
                      "h": raw_frame(mid, idx, tot, rng.choice([0, 0, 3]), bytes([mid, idx])).hex()})
                pend.append([s, mid, tot, {idx}])
        last_created = now[0]
    for _ in range(rng.randint(2, 5)):
        gap = rng.choice([5 * 10**9, 5 * 10**9, TTL - 1, TTL - 10**9, PERIOD, PERIOD + 1, 3 * 10**9, rng.randrange(10**9, TTL)])
        some = pend if (lockout or rng.random() < 0.5) else rng.sample(pend, rng.randint(1, len(pend)))
        first = True
        for m in some:
            d = gap if first else rng.choice([0, 1, 1000])
            first = False
            if real:
                emit({"o": "f", "d": d, "s": m[0], "m": m[1], "i": 0})
                continue
            s, mid, tot, have = m
            r = rng.random()
            if r < 0.45:
                i = rng.choice(sorted(have))
                b = raw_frame(mid, i, tot, 0, bytes([mid, i]))                    # exact duplicate
            elif r < 0.6:
                i = rng.choice(sorted(have))
                b = raw_frame(mid, i, tot, rng.choice([0, 2]), b"other")          # same index, other bytes
            elif r < 0.85 and len(have) < tot - 1:
                i = rng.choice([x for x in range(tot) if x not in have])
                have.add(i)
                b = raw_frame(mid, i, tot, 0, bytes([mid, i]))                    # progress, still incomplete
            elif r < 0.95:
                b = raw_frame(mid, 0, tot % 8 + 2, 0, b"tot")                     # another chunk count (never == tot)
            else:
                i = rng.choice(sorted(have))
                b = raw_frame(mid, i, tot, 0, b"")                                # duplicate with an empty chunk
            emit({"o": "p", "d": d, "s": s, "h": b.hex()})
        if rng.random() < 0.3:
            emit({"o": "g", "d": rng.choice([0, 1]), "t": now[0] + rng.choice([0, 0, 1])})
    # across the first tick later than last_created + TTL (by then every first-generation entry is due)
    target = ((last_created + TTL) // PERIOD + 1) * PERIOD
    how = rng.random()
    if how < 0.7 or real:
        emit({"o": "t", "d": max(1, target - now[0]) + rng.choice([0, 1, 10**6, 10**9])})
    else:
        emit({"o": "t", "d": 1})
        emit({"o": "g", "d": 1, "t": max(now[0], last_created + TTL + 1)})
    if real:
        for m in pend:
            idx = list(range(8))
            rng.shuffle(idx)
            for i in idx:
                emit({"o": "f", "d": rng.choice([0, 1]), "s": m[0], "m": m[1], "i": i})
            must.append([m[1], m[0]])
    else:
        for s in range(nsrc):
            mids = [m for m in range(256) if not any(p[0] == s and p[1] == m for p in pend)]
            rng.shuffle(mids)
            for _ in range(rng.choice([1, 8, 9, 9])):
                mid = mids.pop()
                emit({"o": "p", "d": rng.choice([0, 1]), "s": s, "h": raw_frame(mid, 0, rng.choice([2, 3, 8]), 0, bytes([mid])).hex()})
    return {"k": "seq", "fam": "lockout" if lockout else ("replayreal" if real else "replay"), "omin": 20, "omax": 60, "rbuf": 2048,
            "senders": senders, "msgs": msgs, "ops": ops, "must": must, "distinct": bool(real)}


def gen_werr(rng, big=False):
    """inner write errors at every chunk position of a fragmented write, followed by further writes.

    1-2 senders (own source address each; counters incl. the 8-bit / 32-bit wrap) write, per TTL window, 2-7
    packets each; the inner conn REFUSES one datagram of some of them: the first / a middle / the last chunk, chunk
    fi mod total, or the fi-th inner write (never reached when the message has fewer chunks) of a long-header
    packet, or the single datagram of a short-header packet.  A failed long-header write is followed by further
    writes of the same sender: a long-header packet of the same size with other bytes, the identical packet (the
    caller's retry), one of another size, short-header packets (accepted / refused), further failing ones.
    Everything that reached the wire is fed to the receiver: in wire order, senders interleaved in wire order,
    reversed, or fully permuted with duplicates.  At most 7 long-header packets per source and window (so no
    source can be at its cap and ids cannot wrap onto each other), all delays tiny, windows separated by a sleep
    past TTL + one gc period.  Verdict (harness, implementation alone): every packet whose WriteTo returned success
    is delivered byte-identical at its source, nothing is delivered that was not successfully written, a refused
    datagram makes WriteTo return an error, the chunks on the wire of a failed write are the leading chunks of its
    packet, and no two long-header writes less than 256 apart put the same message id on the wire."""
    if big:
        omin, omax = rng.choice([(0, 0), (512, 1200)])
    else:
        omin, omax = rng.choice(CFGS[:6])
    nsnd = rng.randint(1, 2)
    senders = [{"ctr0": rng.choice([0, 5, 200, 253, 254, 255, 2**32 - 1, 2**32 - 2, rng.randrange(2**32)])} for _ in range(nsnd)]
    msgs, ops = [], []

    def ln():
        if big:
            return rng.choice([1000, 1200, 1252, rng.randint(600, 1400)])
        return rng.choice([2, 8, 9, 16, 17, 33, 40, 64, rng.randint(2, 120)])

    def fault(long):
        if not long:
            return {"fk": "first", "fi": 0}
        k = rng.choice(["first", "mid", "mid", "last", "last", "idx", "idx", "call"])
        return {"fk": k, "fi": rng.randrange(8)}

    ops.append({"o": "t", "d": rng.choice([1, 10**9, PERIOD - 1, PERIOD, rng.randrange(1, TTL)])})
    for _w in range(rng.randint(1, 3)):
        streams = []
        for s in range(nsnd):
            mine = []
            nlong = 0
            prev = None                 # the last failed long-header packet of this sender
            for _ in range(rng.randint(2, 7)):
                r = rng.random()
                if prev is not None and r < 0.6:
                    how = rng.random()
                    if how < 0.4:
                        m = mk_msg(rng, s, prev["len"])                       # same size, other bytes
                    elif how < 0.6:
                        m = {k: v for k, v in prev.items() if k not in ("fk", "fi")}   # the caller retries the packet
                    else:
                        m = mk_msg(rng, s, ln())
                    if rng.random() < 0.25:
                        m.update(fault(True))
                elif r < 0.2:
                    m = mk_msg(rng, s, rng.choice([1, 5, 20, 40]), long=False)
                    if rng.random() < 0.4:
                        m.update(fault(False))
                else:
                    m = mk_msg(rng, s, ln())
                    if rng.random() < 0.65:
                        m.update(fault(True))
                is_long = m["first"] >= 128 and m["len"] > 0
                if is_long:
                    if nlong >= 7:
                        continue
                    nlong += 1
                    prev = m if "fk" in m else None
                msgs.append(m)
                mine.append(len(msgs) - 1)
            streams.append([[{"o": "e", "s": s, "m": mi, "i": i} for i in range(8)] for mi in mine])
        order = rng.choice(["wire", "wire", "inter", "perm", "rev"])
        flat = [[o for m in st for o in m] for st in streams]
        if order == "wire":
            rng.shuffle(flat)
            w = [o for st in flat for o in st]
        elif order == "inter":
            w = []
            live = [list(st) for st in flat if st]
            while live:
                st = rng.choice(live)
                w.append(st.pop(0))
                if not st:
                    live.remove(st)
        elif order == "rev":
            w = [o for st in flat for o in st][::-1]
        else:
            w = [o for st in flat for o in st]
            w += [{"o": "f", "s": o["s"], "m": o["m"], "i": rng.randrange(8)} for o in rng.sample(w, min(len(w), rng.randint(0, 6)))]
            rng.shuffle(w)
        for o in w:
            o = dict(o)
            o["d"] = rng.choice([0, 1, 1, 1000])
            ops.append(o)
        ops.append({"o": "t", "d": TTL + PERIOD + 1})
    return {"k": "seq", "fam": "werr", "omin": omin, "omax": omax, "rbuf": 2048, "senders": senders, "msgs": msgs,
            "ops": ops, "must": [], "distinct": True, "automust": True}


# ---------------------------------------------------------------- source-address classes
# A case may carry a source-address table ("addrs"): row i describes the net.Addr VALUE the harness builds for source
# number i.  Who is the same source is decided by Go alone: the harness calls String() on every value, reports the
# strings, and the model's source name is derived from those strings (first row with an equal string, computed in Coq
# by corr.C14_Corr.src_name).  addr_label is this generator's transcription of String() - used ONLY to steer the
# generation (field "g": equal g <=> the generator expects equal String()); the harness checks every claim against
# the real String() and fails the case when the transcription is wrong.

def ip4(a, b, c, d):
    return bytes([a, b, c, d])


def ip4in6(v4):
    return bytes(10) + b"\xff\xff" + v4


def ip6(hi, lo=1):
    return bytes([hi >> 8, hi & 255]) + bytes(12) + bytes([lo >> 8, lo & 255])


def _ipstr(ip):
    import ipaddress
    if len(ip) == 0:
        return ""
    if len(ip) == 4:
        return ".".join(str(x) for x in ip)
    if len(ip) == 16:
        if ip[:12] == bytes(10) + b"\xff\xff":
            return ".".join(str(x) for x in ip[12:])
        return ipaddress.IPv6Address(ip).compressed
    return "?" + ip.hex()


def addr_label(sp, i):
    t = sp.get("t", "")
    if t in ("udp", "tcp"):
        h = _ipstr(bytes.fromhex(sp.get("ip", "")))          # ipEmptyString: a nil IP prints as ""
        if sp.get("zone"):
            h += "%" + sp["zone"]
        return ("[%s]:%d" if ":" in h else "%s:%d") % (h, sp.get("port", 0))   # JoinHostPort brackets on ':' only
    if t == "ip":
        h = _ipstr(bytes.fromhex(sp.get("ip", "")))
        return h + ("%" + sp["zone"] if sp.get("zone") else "")
    if t in ("unix", "str"):
        return sp.get("name", "")
    if t == "udpnil":
        return "<nil>"
    return "s%d" % i


def udp(ip, port, zone="", t="udp"):
    return {"t": t, "ip": ip.hex(), "port": port, "zone": zone}


def near_groups(rng):
    """groups of addresses that some plausible coarser-than-String() key would merge (or, for the pairs that DO have
    one String(), that a finer key would split)"""
    port = rng.choice([4433, 443, 1, 65535, 40000 + rng.randrange(20000)])
    v4 = ip4(rng.choice([10, 127, 192, 203]), rng.randrange(256), rng.randrange(256), rng.randrange(1, 255))
    ll = ip6(0xfe80, rng.randrange(1, 65536))
    gl = ip6(0x2001, rng.randrange(1, 65536))
    zs = rng.sample(["", "eth0", "eth1", "eth10", "1", "2", "wlan0", "ETH0", "eth0 "], 3)
    G = {}
    G["zone"] = [udp(ll, port, z) for z in zs]                                     # differ ONLY in the IPv6 zone
    G["zone4"] = [udp(v4, port, z) for z in zs[:2]] + [udp(ip4in6(v4), port, zs[0])]   # zone on an IPv4 address; mapped form of row 0
    G["v4map"] = [udp(v4, port), udp(ip4in6(v4), port), udp(bytes(12) + v4, port)]     # 4-byte / IPv4-mapped / IPv4-compatible
    G["port"] = [udp(rng.choice([v4, gl]), p) for p in
                 rng.sample([port, port + 1, port ^ 256, port + 65536, port - 65536, 0], 3)]
    w = bytearray(gl)
    w[rng.choice([0, 7, 8, 15])] ^= rng.choice([1, 0x80])
    G["ip"] = [udp(gl, port), udp(bytes(w), port), udp(v4, port), udp(ip4(v4[0], v4[1], v4[2], v4[3] ^ 1), port)]
    G["unspec"] = [udp(b"", port), udp(bytes(4), port), udp(bytes(16), port), udp(ip4in6(bytes(4)), port), udp(b"", port, "eth0")]
    G["badip"] = [udp(v4[:3], port), udp(v4[:3] + b"\0", port), udp(b"\0" + v4[:3], port)]
    G["nettype"] = [udp(ll, port, zs[1]), udp(ll, port, zs[1], t="tcp"), udp(ll, port, zs[2], t="tcp"),
                    {"t": "ip", "ip": ll.hex(), "zone": zs[1]}, {"t": "ip", "ip": ll.hex(), "zone": zs[2]}]
    s4 = "%s:%d" % (_ipstr(v4), port)
    G["str"] = [udp(v4, port), {"t": "str", "name": s4, "net": "udp"}, {"t": "str", "name": s4, "net": "c14"},
                {"t": "str", "name": s4 + " ", "net": "udp"}, {"t": "str", "name": s4 + "#1", "net": "udp"},
                {"t": "str", "name": "", "net": "udp"}]
    G["unix"] = [{"t": "unix", "name": "/tmp/a", "net": "unixgram"}, {"t": "unix", "name": "/tmp/a", "net": "unix"},
                 {"t": "unix", "name": "/tmp/b", "net": "unixgram"}, {"t": "unix", "name": "", "net": "unixgram"},
                 {"t": "unix", "name": "@a", "net": "unixgram"}, {"t": "str", "name": "/tmp/a", "net": "unixgram"}]
    G["nil"] = [{"t": "udpnil"}, {"t": "str", "name": "<nil>", "net": "udp"}, udp(b"", 0), {"t": "str", "name": ":0", "net": "udp"}]
    return G


def finish_table(rows):
    """fills in the class claims; fake rows ("t": "") get their String() from their row index"""
    labels = {}
    for i, sp in enumerate(rows):
        sp["g"] = labels.setdefault(addr_label(sp, i), len(labels))
    return rows


def pick_table(rng, n=None, distinct=False):
    """n rows drawn from 1-2 near-collision groups (plus, sometimes, the harness's own fake address and a custom
    address with the same String()); distinct=True: pairwise different String() (by the transcription)"""
    G = near_groups(rng)
    kinds = rng.sample(sorted(G), rng.choice([1, 1, 2]))
    if rng.random() < 0.5:
        kinds[0] = rng.choice(["zone", "zone", "v4map", "port", "nettype", "str"])
    pool = [dict(sp) for k in kinds for sp in G[k]]
    rng.shuffle(pool)
    if n is None:
        n = rng.choice([2, 2, 3, 3, 4, 5])
    rows = []
    for sp in pool:
        if len(rows) >= n:
            break
        if distinct and any(addr_label(sp, len(rows)) == addr_label(r, j) for j, r in enumerate(rows)):
            continue
        rows.append(sp)
    while len(rows) < n:
        i = len(rows)
        if not distinct and rng.random() < 0.5 and any(r.get("t", "") == "" for r in rows):
            j = [j for j, r in enumerate(rows) if r.get("t", "") == ""][0]
            rows.append({"t": "str", "name": "s%d" % j, "net": "c14"})      # same String() as the fake address of row j
        else:
            rows.append({"t": ""})
    return finish_table(rows), "+".join(kinds)


def with_addrs(rng, case):
    """gives an existing case a source-address table of pairwise DIFFERENT String() values drawn from the near-collision
    groups (the case's expectations treat different source numbers as different sources)"""
    srcs = [o["s"] for o in case["ops"] if "s" in o] + [m[1] for m in case.get("must", [])]
    if not srcs or max(srcs) >= 16:
        return case
    for _ in range(20):
        rows, kind = pick_table(rng, max(srcs) + 1, distinct=True)
        if len({r["g"] for r in rows}) == len(rows):
            case["addrs"] = rows
            case["akind"] = kind
            break
    return case


def gen_xsrc(rng, mode=None):
    """CROSS-SOURCE INTERLEAVING over near-colliding source addresses.

    inter: every row of the address table has its own real sender; all senders start from the same counter, so the
    r-th message of every row goes out under the SAME message id, and (rejection sampling of the sender's own draw)
    in the SAME number of chunks; the chunks of all rows are fed interleaved (per-message order kept / permuted, with
    duplicates), rounds overlapping or not; in a "replicated" round ONE message is fed from every row.  Each source
    (String() class) must get exactly its own packets, each of them, whatever arrives from the others.  Rows with one
    String() are one source: they are given different ids most of the time (then a message whose chunks are split
    between such rows must come out), and the same id sometimes (two messages of one source under one id: the
    harness's verdict is silent there, the model is not).
    budget: raw frames; every row opens 8 messages under the same ids (all admitted: 8 per String()), then a 9th
    (refused), some are completed (payloads differ per row), a sweep, again.
    ttl: a row opens a message, near-colliding rows send chunks under the same id 1-7 s later, ticks in between."""
    while True:
        rows, kind = pick_table(rng)
        K = len(rows)
        cls = {}
        for i, r in enumerate(rows):
            cls.setdefault(r["g"], []).append(i)
        maxc = max(len(v) for v in cls.values())
        if maxc <= 3:
            break
    mode = mode or rng.choice(["inter", "inter", "inter", "budget", "ttl"])
    omin, omax = rng.choice(CFGS[:6])
    base = {"k": "seq", "fam": "xsrc", "xmode": mode, "akind": kind, "omin": omin, "omax": omax, "rbuf": 2048, "addrs": rows}
    if mode == "inter":
        c0 = rng.choice([0, 0, 5, 254, 255, 2**32 - 1, rng.randrange(2**32)])
        clashy = rng.random() < 0.25
        senders = []
        for i, r in enumerate(rows):
            j = cls[r["g"]].index(i)
            senders.append({"ctr0": (c0 + (0 if clashy else 16 * j)) % 2**32})
        msgs, ops = [], []
        rounds = []
        for _r in range(rng.randint(1, min(3, 6 // maxc))):     # at most 7 messages per source (String() class)
            tot = rng.randint(2, 8)
            ln = rng.choice([None, rng.randint(tot, 200), rng.randint(1, 1400)])
            streams = []
            for i in range(K):
                msgs.append(dict(mk_msg(rng, i, ln if rng.random() < 0.7 else rng.randint(1, 300)), tot=tot))
                mi = len(msgs) - 1
                feeders = [i]
                if len(cls[rows[i]["g"]]) > 1 and rng.random() < 0.5:
                    feeders = cls[rows[i]["g"]]          # one source seen through several address values
                idx = list(range(tot))
                how = rng.random()
                if how < 0.5:
                    rng.shuffle(idx)
                if how > 0.7:
                    idx += [rng.randrange(tot) for _ in range(rng.randint(1, 3))]
                streams.append([{"o": "e", "s": rng.choice(feeders), "m": mi, "i": x} for x in idx])
            rounds.append(streams)
        if rng.random() < 0.4:
            # replicated round: the next message of sender 0, fed completely from one row of every class
            tot = rng.randint(2, 8)
            msgs.append(dict(mk_msg(rng, 0, rng.randint(tot, 120)), tot=tot))
            mi = len(msgs) - 1
            streams = []
            for g, members in sorted(cls.items()):
                idx = list(range(tot))
                rng.shuffle(idx)
                streams.append([{"o": "e", "s": rng.choice(members), "m": mi, "i": x} for x in idx])
            rounds.append(streams)
        if rng.random() < 0.5:
            rounds = [[st for r in rounds for st in r]]          # all rounds in flight together
        for streams in rounds:
            live = [list(st) for st in streams if st]
            lock = rng.random() < 0.3                           # strict alternation between the streams
            j = 0
            while live:
                st = live[j % len(live)] if lock else rng.choice(live)
                j += 1
                ops.append(st.pop(0))
                if not st:
                    live.remove(st)
                if rng.random() < 0.05:
                    ops.append({"o": "p", "s": rng.randrange(K), "h": short_pkt(rng).hex()})
                if rng.random() < 0.03:
                    ops.append({"o": "g", "t": rng.choice([0, 1000])})
        for o in ops:
            o["d"] = rng.choice([0, 1, 1, 1, 1000, 100000])
        return dict(base, senders=senders, msgs=msgs, ops=ops, must=[], distinct=True, automust=True)
    ops = []
    if mode == "budget":
        for _rnd in range(rng.randint(1, 2)):
            mids = rng.sample(range(256), 12)
            tots = [rng.choice([2, 3, 8]) for _ in mids]
            opens = [(i, j) for i in range(K) for j in range(rng.choice([8, 8, 9, 10]))]
            if rng.random() < 0.6:
                rng.shuffle(opens)
            for (i, j) in opens:
                ops.append({"o": "p", "d": rng.choice([0, 1, 1]), "s": i,
                            "h": raw_frame(mids[j], 0, tots[j], rng.choice([0, 2]), bytes([0xC0 | i, mids[j]])).hex()})
            for (i, j) in rng.sample(opens, rng.randint(1, 6)):
                for x in range(1, tots[j]):
                    ops.append({"o": "p", "d": 1, "s": i, "h": raw_frame(mids[j], x, tots[j], 0, bytes([i, x])).hex()})
            for i in range(K):
                ops.append({"o": "p", "d": 1, "s": i, "h": raw_frame(mids[11], 0, 2, 0, bytes([i])).hex()})
            ops.append(rng.choice([{"o": "t", "d": TTL + PERIOD}, {"o": "g", "d": 1, "t": 10**12}, {"o": "t", "d": 1}]))
    else:
        ops.append({"o": "t", "d": rng.choice([1, 10**9, PERIOD - 1, rng.randrange(1, TTL)])})
        for _rnd in range(rng.randint(1, 3)):
            mid, tot = rng.randrange(256), rng.choice([2, 3, 5, 8])
            order = list(range(K))
            rng.shuffle(order)
            for n, i in enumerate(order):
                d = rng.choice([1, 1000]) if n == 0 else rng.choice([10**9, 3 * 10**9, PERIOD, TTL - 10**9, 5 * 10**9])
                ops.append({"o": "p", "d": d, "s": i, "h": raw_frame(mid, rng.randrange(tot - 1), tot, 0, bytes([0xC0 | i, n])).hex()})
                if rng.random() < 0.3:
                    ops.append({"o": "g", "d": 1, "t": 0})
            ops.append({"o": "t", "d": rng.choice([PERIOD, TTL, TTL + PERIOD, 1])})
            for i in order:
                ops.append({"o": "p", "d": 1, "s": i, "h": raw_frame(mid, tot - 1, tot, 0, bytes([i, 0xee])).hex()})
    return dict(base, senders=[], msgs=[], ops=ops, must=[], distinct=False)



def gen_dec(rng):
    n = rng.choice([0, 1, 4, 5, 5, 6, 7, 8, 12, 20])
    b = bytearray(rng.randrange(256) for _ in range(n))
    if n > 0 and rng.random() < 0.8:
        b[0] |= 0x80
    if n > 2 and rng.random() < 0.7:
        b[2] = (rng.choice([0, 1, 2, 7, 8, 9, 15]) << 4) | rng.choice([0, 1, 2, 3, 8, 9, 15])
    elif n > 2:
        tot = rng.randint(2, 8)
        b[2] = (rng.randrange(tot) << 4) | tot
    if n > 4 and rng.random() < 0.8:
        pad = rng.choice([0, 1, n - 5, n - 4, max(0, n - 6), 256, 65535])
        b[3], b[4] = (pad >> 8) & 255, pad & 255
    return {"k": "dec", "hex": bytes(b).hex()}


def gen(rng, tier):
    scale = 1 if tier == "quick" else 12
    cases = []
    for omin, omax in [(0, 0), (1, 1), (0, 100), (2048, 2048), (1, 2049), (-1, 10), (600, 500), (0, 2048), (100, 0), (1300, 0),
                       (13, 13), (0, 511), (0, 512), (2049, 0), (5, -3)]:
        cases.append({"k": "cfg", "omin": omin, "omax": omax})
    for _ in range(150 * scale):
        cases.append(gen_dec(rng))
    for _ in range(70 * scale):
        cases.append(gen_clean(rng))
    for _ in range(6 * scale):
        cases.append(gen_clean(rng, big=True))
    for _ in range(10 * scale):
        cases.append(gen_wrap(rng))
    for _ in range(1 * scale):
        cases.append(gen_reuse(rng))
    for _ in range(70 * scale):
        cases.append(gen_wild(rng))
    for _ in range(20 * scale):
        cases.append(gen_percap(rng))
    # the classic replay: first seen at t, duplicate at t + 5 s, sweep (direct call / gc tick) at t + 9 s
    cases.append({"k": "seq", "fam": "replay", "omin": 20, "omax": 60, "rbuf": 2048, "senders": [], "msgs": [], "must": [], "distinct": False,
                  "ops": [{"o": "p", "d": 10**9, "s": 0, "h": raw_frame(7, 0, 3, 0, b"a").hex()},
                          {"o": "p", "d": 5 * 10**9, "s": 0, "h": raw_frame(7, 0, 3, 0, b"a").hex()},
                          {"o": "g", "d": 1, "t": 10 * 10**9}, {"o": "t", "d": 6 * 10**9},
                          {"o": "p", "d": 1, "s": 0, "h": raw_frame(8, 0, 2, 0, b"b").hex()}]})
    for _ in range(14 * scale):
        cases.append(gen_replay(rng))
    for _ in range(8 * scale):
        cases.append(gen_replay(rng, lockout=True))
    for _ in range(6 * scale):
        cases.append(gen_replay(rng, real=True))
    for _ in range(26 * scale):
        cases.append(gen_werr(rng))
    for _ in range(2 * scale):
        cases.append(gen_werr(rng, big=True))
    # source-address classes: existing families over near-colliding (pairwise different) addresses ...
    deco = [gen_clean, gen_clean, gen_clean, gen_wild, gen_percap, gen_replay, lambda r: gen_replay(r, lockout=True),
            lambda r: gen_replay(r, real=True), gen_werr, gen_werr]
    for j in range(30 * scale):
        cases.append(with_addrs(rng, deco[j % len(deco)](rng)))
    # ... and cross-source interleaving / budgets / expiry over them, equal and different String() values
    for j in range(60 * scale):
        cases.append(gen_xsrc(rng, ["inter", "inter", "inter", "budget", "ttl", None][j % 6]))
    if tier == "quick":
        cases.append(gen_flood(rng, 600, 8, False, 300))
        cases.append(gen_flood(rng, 700, 7, True, 300))
        cases.append(gen_ownold(rng, rng.choice([7, 8]), False))
        cases.append(gen_ownold(rng, rng.choice([2, 4]), True, maxgap=rng.choice([5, 40])))
    else:
        for j in range(8):
            cases.append(gen_flood(rng, rng.choice([600, 800, 1200, 2500]), rng.choice([2, 4, 8, 9]), j % 2 == 1, 1500))
        for j in range(6):
            cases.append(gen_ownold(rng, rng.choice([1, 2, 5, 7, 8]), j % 2 == 1, fills=1 + (j % 3 == 2), maxgap=rng.choice([5, 20, 200])))
    return cases


def zl(xs):
    return "[" + ";".join(("(%d)" % x) if x < 0 else str(x) for x in xs) + "]"


def op_term(o):
    k = o["o"]
    d = o.get("d", 0)
    if k == "f":
        return "OFrame %d %d%%N %d%%nat %d%%nat" % (d, o["s"], o["m"], o["i"])
    if k == "e":
        return "OFrameE %d %d%%N %d%%nat %d%%nat" % (d, o["s"], o["m"], o["i"])
    if k == "x":
        return "OMut %d %d%%N %d%%nat %d%%nat %d%%nat %d%%N" % (d, o["s"], o["m"], o["i"], o["at"], o["v"])
    if k == "p":
        return "OPkt %d %d%%N %s" % (d, o["s"], common.coq_bytes(bytes.fromhex(o["h"])))
    if k == "t":
        return "OSleep %d" % d
    if k == "g":
        return "OGc %d %d" % (d, o["t"])
    raise ValueError(k)


def to_coq(c, o):
    k = c["k"]
    if o.get("panic"):
        return None
    if k == "cfg":
        r = "(Some (%d, %d))" % (o["min"], o["max"]) if o.get("cfg") else "None"
        return "CCfg (%d) (%d) %s" % (c["omin"], c["omax"], r)
    if k == "dec":
        if "dec" in o:
            r = "(DOk [%s])" % ";".join("%d%%N" % x for x in o["dec"])
        else:
            r = "DShort" if o.get("err") == "short" else "DInvalid"
        return "CDec %s %s" % (common.coq_bytes(bytes.fromhex(c["hex"])), r)
    if k == "seq":
        if not o.get("cfg") or "steps" not in o:
            return None
        ms = []
        for m, mo in zip(c["msgs"], o.get("msgs") or []):
            fr = "[" + ";".join(common.coq_bytes(bytes.fromhex(h)) for h in (mo["frames"] or [])) + "]"
            fl = mo.get("fail", -1)
            ms.append("(mkM %d%%nat %d%%N %d%%N %d%%N %d%%N, mkO %s %s %d %s %s %s)" % (
                m["snd"], m["len"], m["a"], m["b"], m["first"], fr, zl(mo["wire"] or []), mo["n"],
                ("(Some %d%%nat)" % fl) if fl >= 0 else "None", common.coq_bytes(bytes.fromhex(mo.get("ref") or "")),
                "true" if mo.get("err") else "false"))
        ops = [op_term(op) for op in c["ops"]]
        h = 0
        ch = []
        for i, row in enumerate(o["steps"]):
            for v in row[:5]:
                h = (h * 131 + v + 1) % 4294967291
            if row[5] > 0:
                ch.append("ch %d %d %d" % (i, row[5] - 1, row[6]))
        fr = [zl(r) for r in o["final"]]
        fin = "(" + "\n ++ ".join("[" + ";".join(fr[i:i + 100]) + "]" for i in range(0, max(1, len(fr)), 100)) + ")"
        # long list literals are slow to elaborate in one piece: chunks of 100 joined with ++
        opl = "(" + "\n ++ ".join("[" + ";".join(ops[i:i + 100]) + "]" for i in range(0, max(1, len(ops)), 100)) + ")"
        # source names: the String() values exactly as Go computed them (none: the harness's own "s<number>" addresses)
        if c.get("addrs"):
            if len(o.get("names") or []) != len(c["addrs"]):
                return None
            names = "[" + ";".join(common.coq_bytes(bytes.fromhex(x)) for x in o["names"]) + "]"
        else:
            names = "[]"
        return "CSeq (%d) (%d) %d%%nat [%s] %s [%s]\n %s\n [%s] %d %s" % (
            c["omin"], c["omax"], c["rbuf"], ";".join("%d%%N" % s["ctr0"] for s in c["senders"]), names,
            ";\n  ".join(ms), opl, ";".join(ch), h, fin)
    return None


def selfevicts(c, o):
    """steps at the cap where a key of the packet's own source, other than the packet's key, left the table"""
    n = 0
    for r, op in zip(o.get("steps") or [], c.get("ops") or []):
        if r[5] > 0 and op.get("o") == "p" and op.get("s") == r[5] - 1 and len(op["h"]) >= 4 and int(op["h"][2:4], 16) != r[6]:
            n += 1
    return n


def feats(o, c=None):
    st = o.get("steps") or []
    f = []
    if c is not None and selfevicts(c, o) > 0:
        f.append("selfevict")        # the global-cap eviction removed an entry of the source that was opening a message
    mo = o.get("msgs") or []
    if any(m.get("fail", -1) >= 0 for m in mo):
        f.append("ioerr")            # the inner conn refused a datagram
    if any(m.get("fail", -1) >= 1 and m.get("frames") for m in mo):
        f.append("orphan")           # ... after earlier chunks of the same packet had reached the wire
    if any(r[0] > 0 for r in st):
        f.append("emit")
    if any(r[4] >= 8 for r in st):
        f.append("cap8")
    if any(r[2] >= 4096 for r in st):
        f.append("cap4096")
    if any(r[5] > 0 for r in st):
        f.append("evict")
    if any(a[2] > b[2] + 0 and b[0] == 0 for a, b in zip(st, st[1:])):
        f.append("shrink")
    return f


def klass(c, o):
    k = c["k"]
    if k == "cfg":
        return "cfg:" + ("ok" if o.get("cfg") else "rejected")
    if k == "dec":
        return "dec:" + ("ok" if "dec" in o else str(o.get("err")))
    fam = c.get("fam", "?") + (":" + c["xmode"] if c.get("xmode") else "") + ("@addr" if c.get("addrs") else "")
    return "seq:" + fam + "".join("+" + x for x in feats(o, c))


def nontrivial(c, o):
    if c["k"] != "seq":
        return True
    return bool(feats(o))


def fingerprint(c, o):
    """stable class of a violation: the harness' reason with the numbers stripped"""
    import re
    why = o.get("why") or ""
    if not why:
        return None
    return "C14:" + re.sub(r"\d+", "N", why)[:90]


def search(ctx, disagreeing):
    """Property-directed search on the implementation alone (no model): more seeds."""
    import random
    found = []
    for s in range(3):
        rng = random.Random(ctx.seed * 1000 + s + 17)
        cases = gen(rng, "quick")
        ok, outs, _, log = common.run_go_cases(ctx, GO, cases, tag="search%d" % s)
        for c, o in zip(cases, outs):
            if o.get("ok") is False:
                found.append({"what": "%s: %s" % (c["k"], o.get("why")), "replay": {"case": c, "impl": o},
                              "fingerprint": fingerprint(c, o), "found_input": True})
        if found:
            break
    return found


def run(ctx):
    import sys
    return common.run_case_check(ctx, sys.modules[__name__])


def replay(ctx, path):
    import json
    r = json.load(open(path))
    c = r["replay"].get("case")
    if not c:
        print("replay file names a broken obligation/correspondence, no concrete input:", r["what"])
        return 1
    ok, outs, _, log = common.run_go_cases(ctx, GO, [c], tag="replay")
    for o in outs:
        print(json.dumps({k: v for k, v in o.items() if k in ("ok", "why", "panic", "k")}, indent=1))
    return 0 if outs and outs[0].get("ok") else 1


LEVEL_TEXT = ("Machine-checked Coq theorems over a statement-by-statement Gallina model of the Gecko sender (split, padding, frame "
              "codec, 8-bit message id) and receiver (acceptChunk, per-source and global caps with oldest-eviction, TTL sweep) as a "
              "deterministic state machine over Packet/Tick actions with time and the eviction tie-break as explicit inputs; "
              "below the global cap the datagrams of other source names can be deleted from any history without changing what a "
              "source gets back or holds (C14_source_isolation), source names being String() values (C14_source_names). "
              "The model is tied to /repo on every run by regenerated constants and a step-by-step differential run of the real "
              "geckoPacketConn (real gc goroutine, fake clock) against the model in vm_compute.")
LEVEL_NOTE = ("Trusted: Coq kernel + vm_compute; hand-written model (tie is sampled differential testing + regenerated Params); python/Go glue. "
              "Not proved: crypto/rand uniformity, the real timer, the Salamander layer (C13).")
TECHNIQUE = "Coq proof (invariants over all action sequences) on a hand-written model + differential correspondence check in vm_compute"
DESIGN_REF = "DESIGN.md section 4 C14"
