"""C15 - Traffic stats API conserves bytes; kick and online counts are exact (DESIGN.md section 4, C15)."""
import json
import os as _os
import random
import sys

from vlib import common

GO = dict(module="extras", pkg="trafficlogger", pkgname="trafficlogger",
          files={"zz_verif_c15_test.go": "c15/c15_test.go", "zz_verif_c15_e2e_test.go": "c15/c15_e2e_test.go"}, run="TestVerifC15")
# the logged relay loop itself, on scripted Reads: harness injected into core/server (copyBufferLog / copyTwoWayEx are unexported)
GO_COPY = dict(module="core", pkg="server", pkgname="server",
               files={"zz_verif_c15copy_test.go": "c15/c15_copy_test.go"}, run="TestVerifC15Copy")
PARAMS_NAME = "ParamsC15"
HEADER = ("From Hy Require Import lib.Harness lib.Lin model.C15_Stats model.C15_Sites model.C15_Copy corr.C15_Corr.\n"
          "From Coq Require Import ZArith String.\nLocal Open Scope string_scope.\nLocal Open Scope N_scope.\nNotation length := List.length (only parsing).\n")
RULE = ("seeded generator. (a) sequential call sequences (15-45 calls) on the real trafficStatsServerImpl: LogTraffic with boundary byte counts "
        "(0, 1, 2^32, 2^63, 2^64-1), LogOnlineState incl. unpaired offline, ServeHTTP through a ResponseRecorder: GET /traffic with every "
        "strconv.ParseBool spelling of clear, POST /kick with valid / duplicate / null / malformed JSON bodies, GET /online, index, dump, "
        "wrong or missing Authorization, wrong methods and near-miss paths; every result compared with the model call by call. "
        "(b) concurrent histories, 2-4 goroutines x 3-5 calls on 1-2 user ids + a sequential read-back epilogue, call/return stamps from one "
        "atomic counter, accepted iff Lin.lin_check (Wing-Gong search, evaluated in the Coq kernel) finds a linearization of the model. "
        "(c) stress: 8 loggers x 20000 reports with clearing pollers, plain readers and kickers; conservation computed from results alone. "
        "(d) end to end: a real core/server with the stats server as TrafficLogger and real core/client connections over loopback; the harness "
        "holds both ends of every proxied flow, so scripts (connect / reject / close / kick / move n bytes up or down a TCP stream or UDP "
        "session) make a kicked user's NEXT report come from each of the four LogTraffic call sites of core/server (TCP upload, TCP download, "
        "UDP upload = udpIOImpl.ReceiveMessage, UDP download = udpIOImpl.SendMessage), on a flow established before the kick and on one "
        "opened after it (7 directed scripts per run + random ones); observed per step: every LogTraffic/LogOnlineState call at the logger "
        "boundary, delivery at the far end, whether a proxy attempt on the connection still succeeds, GET /online; verdict: refused exactly "
        "once, nothing forwarded, connection closed by the server, one offline notification, listing drops the user, totals conserved; the "
        "observed event sequence is replayed on the world model of model/C15_Sites.v. Scripts also open raw HTTP/3 connections that send 2-3 "
        "auth requests on ONE QUIC connection, concurrently against an authenticator with a rendezvous delay (so the handlers overlap if the "
        "server lets them) or one by one, some with rejected credentials: one online notification, GET /online counts the connection once "
        "while it is there and not at all after it is closed (2 directed scripts per run + random ones). "
        "Scripts also hold auth requests of raw HTTP/3 connections inside a blocking authenticator (a slow backend) and let the connection "
        "die (CloseWithError) or cancel the request while the auth is pending, or right after the backend's answer, or not at all; the backend "
        "then accepts or rejects, one connection after the other in a shuffled order; several such connections at once, with 0, 1, 2 other live "
        "connections of the same user and other users around (2 directed scripts per run + random ones): per connection the server reports "
        "nothing, or online, or online then offline (window between the answer and the end of that connection's handler; EventLogger "
        "Connect/Disconnect by client address), and the listing keeps counting the live authenticated connections. On EVERY e2e script, "
        "after every step: per user no prefix of the recorded LogOnlineState calls has more offline than online, per client address Connect and "
        "Disconnect alternate starting with Connect, and at the quiescent point #online - #offline = live authenticated connections. "
        "SLOW / HANGING OUTBOUND DIALS (4 directed scripts per run + random ones): scripts with `hang` steps run the server over a gated "
        "Outbound (everything else goes to the stock direct outbound): 1-3 TCP requests of a connection sit in Outbound.TCP, or its UDP "
        "session manager sits in Outbound.UDP (the datagram is reported on receipt), and meanwhile the connection ends - closed by the client, "
        "or kicked through the refused report of another, working flow - with and without another live connection of the user; the dials are "
        "released (they fail) while the connection is alive, after it is long gone, or never within the case: GET /online must drop the "
        "connection within the same bound (15 s) as after every other disconnect, one offline notification, the other connections unaffected. "
        "END OF STREAM (6 directed scripts per run + 25% of the random TCP transfers): the sender closes its end together with the bytes, so "
        "the kicked user's refused report is for the LAST chunk of a copy direction - client writes and closes the QUIC stream at once (data and FIN "
        "in one Read), or an in-memory remote handed out by the gated Outbound whose Read returns the tail together with io.EOF (deterministic) - "
        "on a stream that carried nothing before and on one that carried accepted bytes both ways. "
        "REQUEST HOOK x TRAFFIC LOGGER (6 directed scripts per run + 40% of the random scripts): the server runs with a RequestHook (takes k bytes off "
        "the stream, rewrites the address, returns them as putback; k = 0 and UDP: rewrite only) next to the stats server; the kicked user's next "
        "transfer is a hooked request whose putback is part / all / none of it, fresh or established, beside unhooked requests. "
        "REPORT SITES BY OBSERVATION: the tap records for EVERY LogTraffic call the function of core/server it was made from (call stack) and its "
        "answer; verdict on the implementation: whenever the logger answers false the connection the report came from is closed by the server within 5 s "
        "and no later report of it is accepted; the recorded callers go to the model (WR observations, site_of_caller): a caller the model does not know "
        "makes the correspondence fail - report site not in the model. "
        "(e) the relay loop itself (stage 'copy', harness injected into core/server): the real copyBufferLog, alone and as either direction of "
        "copyTwoWayEx, on ~216 scripted streams of Read results (n bytes with nil / io.EOF / a failure, report accepted or refused, Write ok or failing): "
        "a refusal at positions 0-3 x {nil, EOF, failure} x 3 entry points directed, the rest random; result class and the exact log/Write call sequence "
        "compared with model/C15_Copy.v copy_loop, verdict: a refused report => errDisconnect, nothing written or read after it. "
        "Non-trivial = a sequence with a refused report and >= 2 snapshots, a history with really overlapping calls, a stress run with clears, "
        "an e2e run with a refusal or with pending dials.")
ASSUMPTIONS = [
    "sync.RWMutex gives mutual exclusion between a write section and every other section (runtime, not modelled); each method body is one section",
    "encoding/json (Marshal of the maps, Decoder.Decode of the kick body), net/url query parsing and net/http's ResponseWriter are libraries: the model takes the decoded id list / query value as input",
    "online/offline notifications are paired by the server (once per accepted auth, once when that connection's handler returns): hypothesis `paired` of C15_online_exact; proved of the world model of core/server (C15_notifications_paired: auth handler in atomic steps, connection dying at any point of them), DISCHARGED for every run of C01's server model (C15_paired_from_C01_run, C15_online_listing_after_C01_run: the listing after any C01 run = connections authenticated with that id and not yet closed; coq/proof/C15_FromC01.v) and checked end to end on every e2e script - each recorded e2e event sequence must also be a run of C01's model whose LogOnlineState calls, fed to this object's model, give the recorded GET /online listings (c01_world_check in corr/C15_Corr.v)",
    "http3.Server.ServeQUICConn returns only after every request handler it started has returned (handleConn: wg.Wait): in the model handleClient's continuation is not enabled while an auth handler of the connection is in flight; "
    "the goroutines of HIJACKED streams (handleTCPRequest, one per proxied TCP request) and the UDP session manager are NOT among them: handleClient's continuation - the offline notification - does not depend "
    "on them (model/C15_Pending.v, C15_offline_does_not_wait_for_request_goroutines; observed end to end with outbound dials that never return)",
    "after quic.Conn.CloseWithError no stream or datagram of that connection carries bytes any more and http3's ServeQUICConn returns (quic-go; modelled as: a closed connection makes no report, its handler may return); observed end to end on every refused step",
    "RequestHook putback bytes are written to the target by handleTCPRequest WITHOUT a LogTraffic call (the code as it is: they appear in the stream stats only); "
    "the end-to-end verdict expects exactly the relay's bytes to be reported for a hooked request, and any LogTraffic call from a function other than "
    "copyTwoWayEx / udpIOImpl.ReceiveMessage / udpIOImpl.SendMessage fails the correspondence (report site not in the model)",
    "TCP sites: the refusing copy direction's errDisconnect is the first value to reach copyTwoWayEx's channel (hypothesis `other_first = false` of the site theorems; the other case is C06's open finding veto-swallowed-other-direction-returned-first)",
    "fewer than 2^63 online notifications per user (Go int wrap), stated as a hypothesis of the online theorems",
]
TRUSTED = ["modelled rather than verified: extras/trafficlogger/http.go (hand transcription in coq/model/C15_Stats.v; one model operation per mutex critical section)",
           "modelled rather than verified: the code after the four LogTraffic call sites and the online/offline notifications of core/server (server.go handleClient, ServeHTTP, handleTCPRequest, udpIOImpl.ReceiveMessage/SendMessage, copy.go) in coq/model/C15_Sites.v, tied by the end-to-end runs; "
           "the set of report sites is enumerated from observation (call stacks at the logger boundary), not from the source",
           "modelled rather than verified: copy.go copyBufferLog in coq/model/C15_Copy.v (loop over scripted Reads), tied by a differential run of the real function inside core/server on every run",
           "linearizability of the real object is sampled (recorded histories checked by lib/Lin.v, whose soundness is proved), not proved"]
PER_SHARD = 45
EXTRA_TARGETS = ["corr/C15_Corr.vo"]

ID_POOL = ["alice", "bob", "Alice", "a b", "", "0", "user\"q", "é", "x/y", "carol"]
SECRETS = ["", "s3cret", "Bearer tok", "p w"]
CLEARS = ["1", "0", "true", "false", "TRUE", "True", "t", "T", "f", "F", "FALSE", "False", "yes", "tRuE", "", "2", "01", " 1", "on"]
TRUE_SET = {"1", "t", "T", "TRUE", "true", "True"}
METHODS = ["GET", "POST", "PUT", "DELETE", "HEAD", "get", "PATCH", "post"]
PATHS = ["/", "/traffic", "/kick", "/online", "/dump/streams", "/traffic/", "/Traffic", "/kick/", "/onlin", "/dump", "//traffic", "/x", "/online/"]
BAD_BODIES = ["", "{", "[", "[\"alice\",", "\"alice\"", "[1]", "{\"a\":1}", "[[\"alice\"]]", "nul", "[\"alice\" \"bob\"]", "[\"a\",2]"]
BIG = [0, 1, 2, 255, 65535, 2**32, 2**63, 2**64 - 1, 2**64 - 2, 2**63 - 1]


def amount(rng):
    r = rng.random()
    if r < 0.45:
        return rng.randrange(0, 70000)
    if r < 0.75:
        return rng.choice(BIG)
    return rng.randrange(2**64)


def auth_fields(rng, secret, good=None):
    """returns (hasauth, auth)"""
    if good is None:
        good = rng.random() < 0.8
    if good:
        if secret == "" and rng.random() < 0.5:
            return rng.choice([(False, ""), (True, "anything")])
        return (True, secret)
    return rng.choice([(False, ""), (True, "nope"), (True, secret + "x"), (True, secret[:-1]), (True, secret.lower() if secret.lower() != secret else secret.upper()),
                       (True, " " + secret), (True, "")])


def http_op(secret, method, path, hasauth=True, auth=None, clear=None, body="", ids=None):
    return {"o": "http", "hasauth": hasauth, "auth": secret if auth is None else auth, "method": method, "path": path,
            "hasclear": clear is not None, "clear": clear or "", "body": body, "ids": ids}


def kick_body(rng, pool, n):
    """(body text, expected decoded ids or None)"""
    r = rng.random()
    if r < 0.12:
        return rng.choice(BAD_BODIES), None
    if r < 0.17:
        return "null", []
    if r < 0.22:
        return "[]", []
    ks = [rng.randrange(n) for _ in range(rng.choice([1, 1, 1, 2, 2, 3, 4]))]
    if rng.random() < 0.2:
        ks.append(ks[0])  # duplicate
    strs = [pool[k] for k in ks]
    body = json.dumps(strs, ensure_ascii=rng.random() < 0.5)
    if "" in pool and rng.random() < 0.3:
        body = body[:-1] + ",null]"  # JSON null leaves the element at its zero value ""
        ks.append(pool.index(""))
    if rng.random() < 0.1:
        body += " trailing"
    return body, ks


def rand_http(rng, secret, pool, n, focus=True):
    hasauth, auth = auth_fields(rng, secret)
    r = rng.random()
    if focus and r < 0.80:
        kind = rng.choice(["traffic", "traffic", "trafficclear", "trafficclear", "kick", "kick", "kick", "online", "online", "index", "dump"])
        if kind == "traffic":
            return http_op(secret, "GET", "/traffic", hasauth, auth, rng.choice([None, None, "0", "false", "yes", ""]))
        if kind == "trafficclear":
            return http_op(secret, "GET", "/traffic", hasauth, auth, rng.choice(CLEARS))
        if kind == "kick":
            body, ks = kick_body(rng, pool, n)
            return http_op(secret, "POST", "/kick", hasauth, auth, None, body, ks)
        if kind == "online":
            return http_op(secret, "GET", "/online", hasauth, auth)
        if kind == "index":
            return http_op(secret, "GET", "/", hasauth, auth)
        return http_op(secret, "GET", "/dump/streams", hasauth, auth)
    # routing table: arbitrary method x path
    body, ks = kick_body(rng, pool, n)
    return http_op(secret, rng.choice(METHODS), rng.choice(PATHS), hasauth, auth, rng.choice([None, "1", "true", "0"]), body, ks)


def pick_pool(rng, lo=2, hi=5):
    n = rng.randint(lo, hi)
    return rng.sample(ID_POOL, n)


def readback(secret, n, probe=True):
    ops = [http_op(secret, "GET", "/traffic"), http_op(secret, "GET", "/online")]
    if probe:
        ops += [{"o": "log", "id": i, "tx": 0, "rx": 0} for i in range(n)]
        ops += [http_op(secret, "GET", "/traffic"), http_op(secret, "GET", "/online")]
    return ops


def gen_seq(rng, nops=None):
    secret = rng.choice(SECRETS)
    pool = pick_pool(rng)
    n = len(pool)
    ops = []
    live = [0] * n
    for _ in range(nops or rng.randint(15, 45)):
        r = rng.random()
        if r < 0.38:
            i = rng.randrange(n)
            d = rng.random()
            tx, rx = (amount(rng), 0) if d < 0.35 else (0, amount(rng)) if d < 0.7 else (amount(rng), amount(rng))
            ops.append({"o": "log", "id": i, "tx": tx, "rx": rx})
        elif r < 0.55:
            i = rng.randrange(n)
            # mostly paired, sometimes an offline without online (outside the pairing hypothesis)
            b = rng.random() < 0.55 if live[i] > 0 else rng.random() < 0.85
            live[i] = live[i] + 1 if b else max(0, live[i] - 1)
            ops.append({"o": "online", "id": i, "b": b})
        else:
            ops.append(rand_http(rng, secret, pool, n))
    ops += readback(secret, n)
    return {"k": "seq", "secret": secret, "ids": pool, "ops": ops}


def gen_seq_directed(rng):
    """hand-shaped sequences for each clause"""
    out = []
    for secret in ("", "s3cret"):
        pool = ["alice", "bob", ""]
        G = lambda p, c=None, a=None: http_op(secret, "GET", p, True, a, c)
        K = lambda ks, a=None: http_op(secret, "POST", "/kick", True, a, None, json.dumps([pool[k] for k in ks]), ks)
        L = lambda i, tx, rx: {"o": "log", "id": i, "tx": tx, "rx": rx}
        O = lambda i, b: {"o": "online", "id": i, "b": b}
        # kick exactly once, n kicks collapse, other ids unaffected, unauthorized kick has no effect
        out.append([L(0, 5, 7), K([0]), K([0, 0]), K([0]), L(1, 1, 1), L(0, 9, 9), L(0, 3, 4), G("/traffic"),
                    K([1], a="bad"), L(1, 2, 2), K([1, 0]), L(1, 1, 1), L(0, 1, 1), L(1, 1, 1), L(0, 1, 1), G("/traffic", "1"), G("/traffic")])
        # wrap of the counters, clear in between
        out.append([L(0, 2**64 - 1, 2**63), L(0, 1, 2**63), G("/traffic"), L(0, 2**64 - 1, 1), L(0, 2**64 - 1, 1), G("/traffic", "true"),
                    L(0, 7, 0), G("/traffic", "T"), G("/traffic", "0"), L(0, 0, 0), G("/traffic", "1"), G("/traffic", "1")])
        # online: up, up, down, listing, down, listing (absent), down (unpaired), up
        out.append([O(0, True), O(0, True), O(1, True), G("/online"), O(0, False), G("/online"), O(0, False), G("/online"),
                    O(0, False), G("/online"), O(0, True), G("/online"), O(1, False), O(2, True), G("/online")])
        # a refused report must not create an entry or add bytes
        out.append([K([1]), L(1, 100, 100), G("/traffic"), L(1, 1, 2), G("/traffic", "1"), K([1]), G("/traffic", "1"), L(1, 50, 50), G("/traffic")])
        # routing
        rt = []
        for m in METHODS:
            for p in PATHS:
                rt.append(http_op(secret, m, p, True, None, "1", "[\"alice\"]", [0]))
        rt_small = [L(0, 1, 1)] + rt[:len(rt) // 2] + [L(0, 1, 1), L(0, 1, 1)]
        out.append(rt_small)
        out.append([L(1, 3, 3)] + rt[len(rt) // 2:] + [L(0, 1, 1), L(0, 1, 1)])
        # authorisation table
        au = []
        for (h, a) in [(False, ""), (True, ""), (True, "nope"), (True, secret + "x"), (True, secret), (True, secret.upper()), (True, " " + secret)]:
            au += [http_op(secret, "GET", "/traffic", h, a, "1"), http_op(secret, "POST", "/kick", h, a, None, "[\"alice\"]", [0]),
                   http_op(secret, "GET", "/online", h, a), http_op(secret, "GET", "/", h, a), L(0, 4, 4)]
        out.append([L(0, 10, 20), O(0, True)] + au)
        # every ParseBool spelling
        cl = []
        for c in CLEARS:
            cl += [L(0, 1, 2), G("/traffic", c)]
        out.append(cl)
        # bodies
        bd = []
        for b in BAD_BODIES + ["null", "[]", "[\"alice\"] x", "[null]", "[\"bob\",null,\"bob\"]"]:
            ks = None if b in BAD_BODIES else [] if b in ("null", "[]") else [0] if b.startswith("[\"alice\"]") else [2] if b == "[null]" else [1, 2, 1]
            bd += [http_op(secret, "POST", "/kick", True, None, None, b, ks), L(0, 1, 1), L(1, 1, 1), L(2, 1, 1)]
        out.append(bd)
        for i in range(len(out)):
            if isinstance(out[i], list):
                out[i] = {"k": "seq", "secret": secret, "ids": pool, "ops": out[i] + readback(secret, len(pool))}
    return out


def gen_lin(rng):
    secret = rng.choice(["", "s3cret"])
    pool = pick_pool(rng, 1, 2)
    n = len(pool)
    nt = rng.choice([2, 3, 3, 4, 4])
    paired = rng.random() < 0.5
    flavour = rng.choice(["mixed", "mixed", "clear", "kick", "online"])
    threads = []
    for t in range(nt):
        k = rng.randint(3, 5)
        ops = []
        up = []
        for j in range(k):
            r = rng.random()
            if flavour == "clear":
                w = [0.5, 0.9, 0.95, 0.98]
            elif flavour == "kick":
                w = [0.5, 0.6, 0.9, 0.95]
            elif flavour == "online":
                w = [0.15, 0.25, 0.3, 0.8]
            else:
                w = [0.4, 0.6, 0.75, 0.9]
            if r < w[0]:
                i = rng.randrange(n)
                tx, rx = rng.choice([(1, 0), (0, 1), (amount(rng), amount(rng)), (3, 5), (2**64 - 1, 1)])
                ops.append({"o": "log", "id": i, "tx": tx, "rx": rx})
            elif r < w[1]:
                ops.append(http_op(secret, "GET", "/traffic", clear=rng.choice(["1", "1", "true", None, "0"])))
            elif r < w[2]:
                ks = [rng.randrange(n) for _ in range(rng.choice([1, 1, 2]))]
                ops.append(http_op(secret, "POST", "/kick", body=json.dumps([pool[x] for x in ks]), ids=ks))
            elif r < w[3]:
                if paired:
                    if up and rng.random() < 0.5:
                        ops.append({"o": "online", "id": up.pop(), "b": False})
                    else:
                        i = rng.randrange(n)
                        up.append(i)
                        ops.append({"o": "online", "id": i, "b": True})
                else:
                    ops.append({"o": "online", "id": rng.randrange(n), "b": rng.random() < 0.6})
            else:
                ops.append(http_op(secret, "GET", "/online"))
        threads.append(ops)
    return {"k": "lin", "secret": secret, "ids": pool, "threads": threads, "epilogue": readback(secret, n), "paired": paired,
            "rounds": rng.random() < 0.75, "seed": rng.randrange(2**31)}


SITES = [("tcp", "up"), ("tcp", "down"), ("udp", "up"), ("udp", "down")]
TCP_N = [1, 100, 1000, 5000, 40000]
UDP_N = [1, 16, 100, 500, 1000]  # one datagram, below every path MTU (no fragmentation: one report per datagram)


def auth_proto():
    """wire constants of the hysteria auth request, read from the tree under test (core/internal/protocol is not
    importable from the harness package)"""
    import os
    import re
    d = {"host": "hysteria", "path": "/auth", "hauth": "Hysteria-Auth", "hccrx": "Hysteria-CC-RX", "hpad": "Hysteria-Padding", "status": 233}
    try:
        src = open(os.path.join(common.REPO, "core/internal/protocol/http.go")).read()
        for key, name in (("host", "URLHost"), ("path", "URLPath"), ("hauth", "RequestHeaderAuth"), ("hccrx", "CommonHeaderCCRX"),
                          ("hpad", "CommonHeaderPadding")):
            m = re.search(r'\b%s\s*=\s*"([^"]*)"' % name, src)
            if m:
                d[key] = m.group(1)
        m = re.search(r"\bStatusAuthOK\s*=\s*(\d+)", src)
        if m:
            d["status"] = int(m.group(1))
    except Exception:
        pass
    return d


class E2EScript:
    """builds an e2e script and tracks what the property says must happen (which connections are left, which kicks
    are pending, which flows can carry a datagram back)"""

    def __init__(self, rng, secret, pool):
        self.rng, self.secret, self.pool = rng, secret, pool
        self.steps, self.slots, self.flows = [], {}, {}   # slots: slot -> id; flows: flow -> [slot, kind, has_up]
        self.nslot = self.nflow = 0
        self.pending = set()
        self.raws = {}        # raw HTTP/3 connections: slot -> id
        self.hung = {}        # slot -> kinds of its pending outbound dials
        # configuration dimensions of random scripts: in-memory remotes (gated outbound) / a RequestHook next to the
        # TrafficLogger; directed scripts pass mem= / hook= explicitly
        self.use_mem = self.use_hook = False

    def connect(self, i):
        self.steps.append({"a": "connect", "slot": self.nslot, "id": i})
        self.slots[self.nslot] = i
        self.nslot += 1
        return self.nslot - 1

    def reject(self):
        self.steps.append({"a": "reject", "slot": 99, "id": 0})

    def rawauth(self, i, reqs, conc):
        """a raw HTTP/3 connection that sends len(reqs) auth requests ("ok" / "bad" credentials) for user i on ONE QUIC
        connection, concurrently (against an authenticator with a rendezvous delay, so they overlap if the server lets
        them) or one after the other.  With at least one "ok" it is one more connection of user i; it can only be closed."""
        if "ok" in reqs:
            slot = self.nslot
            self.nslot += 1
            self.raws[slot] = i
        else:
            slot = 98
        self.steps.append({"a": "rawauth", "slot": slot, "id": i, "reqs": list(reqs), "conc": bool(conc), "proto": auth_proto()})
        return slot

    def pendauth(self, conns, settle=None):
        """raw HTTP/3 connections whose auth request is held inside a slow authenticator backend; conns = list of
        (user, "ok" | "bad" = what the backend finally answers, fault, when): fault "close" = the client gives up and closes
        the QUIC connection, "cancel" = the client cancels the request and keeps the connection, "none"; when "pending" =
        while the backend is still deciding, "decided" = right after it answered (racing the rest of the handler).  The
        backend answers one connection after the other in a shuffled order.  Every connection gets a slot (its position
        among the connections the server ever saw authenticate or try to); the ones that are still there and accepted
        are connections of their user and can be closed later."""
        cs = []
        for (i, decide, fault, when) in conns:
            slot = self.nslot
            self.nslot += 1
            cs.append({"slot": slot, "id": i, "decide": decide, "fault": fault, "when": when})
            if decide == "ok" and fault in ("none", "cancel"):
                self.raws[slot] = i
        order = list(range(len(cs)))
        self.rng.shuffle(order)
        self.steps.append({"a": "pendauth", "slot": 0, "id": 0, "conns": cs, "order": order,
                           "settle_ms": settle or self.rng.choice([80, 120, 200]), "proto": auth_proto()})
        return [c["slot"] for c in cs]

    def hang(self, s, kind=None, n=None):
        """proxy requests of connection s whose OUTBOUND DIAL does not return: kind tcp = n (1-3) TCP requests, each a
        handleTCPRequest goroutine inside Outbound.TCP; kind udp = one datagram of n bytes on a fresh UDP session (reported
        on receipt, then the connection's UDP session manager sits in Outbound.UDP: no more UDP on that connection).  The
        dials stay pending - across the end of the connection - until release(s) or the end of the script."""
        i = self.slots[s]
        if kind is None:
            kind = self.rng.choice(["tcp", "tcp", "udp"])
        if kind == "udp" and (i in self.pending or "udp" in self.hung.get(s, [])):
            kind = "tcp"
        if n is None:
            n = self.rng.choice([1, 1, 2, 3]) if kind == "tcp" else self.rng.choice(UDP_N)
        self.steps.append({"a": "hang", "slot": s, "kind": kind, "n": n})
        self.hung.setdefault(s, []).append(kind)

    def release(self, s):
        """the pending dials of connection s fail now (dial timeout); the connection, if still there, is unaffected"""
        self.steps.append({"a": "release", "slot": s})
        self.hung.pop(s, None)

    def drop(self, s):
        del self.slots[s]
        for f in [f for f, v in self.flows.items() if v[0] == s]:
            del self.flows[f]

    def close(self, s):
        self.steps.append({"a": "close", "slot": s})
        if s in self.raws:
            del self.raws[s]
        else:
            self.drop(s)

    def kick(self, i, twice=False):
        for _ in range(2 if twice else 1):
            self.steps.append({"a": "kick", "id": i})   # a second kick collapses with the first
        self.pending.add(i)

    def new_flow(self, s, kind, mem=False, hook=None):
        """mem (tcp): the remote end is an in-memory conn of the harness (gated outbound) whose last bytes come together
        with io.EOF; hook: None = the request is not hooked, k >= 0 = it goes through the server's RequestHook, which takes
        k bytes off the stream and hands them back as putback (udp: address rewrite only, k = 0)"""
        if kind == "udp":
            mem, hook = False, (None if hook is None else 0)
        self.flows[self.nflow] = [s, kind, False, {"mem": bool(mem), "hook": hook, "fresh": True}]
        self.nflow += 1
        return self.nflow - 1

    def move(self, f, d, n=None, fin=False):
        """n bytes on flow f in direction d; the report it causes is refused iff a kick of the user is pending.
        fin (tcp): the sender closes its end together with the bytes - they are the LAST chunk of that direction of the
        stream (the Read that yields them may yield io.EOF with them); the flow is over afterwards.
        On a fresh hooked flow with putback k the first transfer goes up and has at least k bytes: k of them are written to
        the target by handleTCPRequest itself, the relay - the report site - sees n - k (none: no report, a pending kick stays)."""
        s, kind, has_up, opt = self.flows[f]
        assert not (kind == "udp" and d == "down" and not has_up)
        pb = opt["hook"] if (kind == "tcp" and opt["hook"] and opt["fresh"]) else 0
        if pb:
            d = "up"
        if n is None:
            n = self.rng.choice([x for x in (TCP_N if kind == "tcp" else UDP_N) if x >= pb] + ([pb] if pb else []))
        n = max(n, pb)
        fin = bool(fin) and kind == "tcp"
        self.steps.append({"a": kind, "slot": s, "flow": f, "dir": d, "n": n, "fin": fin, "mem": opt["mem"],
                           "hooked": opt["hook"] is not None, "putback": opt["hook"] or 0})
        opt["fresh"] = False
        i = self.slots[s]
        if i in self.pending and n - pb > 0:
            self.pending.discard(i)
            self.drop(s)      # the refused connection is gone
            return False
        if d == "up":
            self.flows[f][2] = True
        if fin:
            del self.flows[f]
        return True

    def fresh_opts(self):
        """configuration of a fresh flow in a random script"""
        mem = self.use_mem and self.rng.random() < 0.5
        hook = self.rng.choice([0, 0, 1, 5, 100]) if (self.use_hook and self.rng.random() < 0.6) else None
        return mem, hook

    def site(self, s, kind, d, established=None, fin=False, mem=None, hook="rand"):
        """make the next report of slot s come from site (kind, d), on an established flow or a fresh one.
        Returns False when that is not possible in the current state."""
        if kind == "udp" and "udp" in self.hung.get(s, []):
            return False      # the connection's UDP session manager sits in a pending Outbound.UDP
        old = [f for f, v in self.flows.items() if v[0] == s and v[1] == kind and (v[2] or not (kind == "udp" and d == "down"))]
        if established is None:
            established = bool(old) and self.rng.random() < 0.5
        if kind == "udp" and d == "down":
            established = True
        if fin is None:
            fin = kind == "tcp" and self.rng.random() < 0.25
        if established:
            if not old:
                return False
            self.move(self.rng.choice(old), d, fin=fin)
        else:
            m, h = self.fresh_opts()
            self.move(self.new_flow(s, kind, mem=m if mem is None else mem, hook=h if hook == "rand" else hook), d, fin=fin)
        return True

    def case(self):
        return {"k": "e2e", "secret": self.secret, "ids": self.pool, "steps": self.steps}


def gen_e2e_directed(rng):
    """for each of the four report sites, on a flow established before the kick and on one opened after it (a datagram
    can only come back on an established session): the kicked user's NEXT report is made at that site"""
    out = []
    for kind, d in SITES:
        for established in ([True] if (kind, d) == ("udp", "down") else [False, True]):
            sc = E2EScript(rng, rng.choice(["", "s3cret"]), ["alice", "bob"])
            a = sc.connect(0)
            b = sc.connect(1)
            a2 = sc.connect(0) if rng.random() < 0.5 else None   # a second connection of the same user
            if established:
                f = sc.new_flow(a, kind)
                sc.move(f, "up")
                if rng.random() < 0.5:
                    sc.move(f, "down")
            fb = sc.new_flow(b, rng.choice(["tcp", "udp"]))
            sc.move(fb, "up")
            sc.kick(0, twice=rng.random() < 0.3)
            sc.move(fb, rng.choice(["up", "down"]))              # another user's traffic does not use the kick up
            assert sc.site(a, kind, d, established) and a not in sc.slots
            if a2 is not None:                                    # the kick is used up: the other connection goes on
                sc.site(a2, *rng.choice(SITES[:3]), established=False)
            c = sc.connect(0)                                     # and the user may come back
            sc.site(c, *rng.choice(SITES[:3]), established=False)
            sc.move(fb, "down")
            if rng.random() < 0.5:
                sc.close(b)
            out.append(sc.case())
    return out


def gen_e2e_hang(rng):
    """SLOW / HANGING OUTBOUND DIALS: a connection has proxy requests whose dial does not return (1-3 TCP requests inside
    Outbound.TCP, or a UDP session inside Outbound.UDP) when it ends - closed by the client, or kicked (the refused report
    comes from another, working flow of the connection) - with and without another live connection of the same user, next
    to another user's traffic; the dials are released later or never within the case.  The listing must drop the connection
    within the bound of every other disconnect, whatever is still pending; dials that fail while the connection is alive do
    not disturb it."""
    out = []
    for variant in range(4):
        sc = E2EScript(rng, rng.choice(["", "s3cret"]), ["alice", "bob"])
        a = sc.connect(0)
        b = sc.connect(1)
        a2 = sc.connect(0) if rng.random() < 0.5 else None
        fa = None
        if variant in (1, 3) or rng.random() < 0.5:
            fa = sc.new_flow(a, "tcp")                           # an established, working flow next to the pending ones
            sc.move(fa, rng.choice(["up", "down"]))
        fb = sc.new_flow(b, rng.choice(["tcp", "udp"]))
        sc.move(fb, "up")
        kind = "udp" if variant == 2 else "tcp"
        sc.hang(a, kind)
        if rng.random() < 0.4:
            sc.hang(a, "tcp")                                    # more of them, started later
        if variant == 3:
            sc.release(a)                                         # the dials fail while the connection is alive ...
            sc.move(fa, rng.choice(["up", "down"]))               # ... which goes on working
            sc.hang(a, "tcp")
        if variant == 1:
            sc.kick(0)                                            # ended by the server: the refused report of a working flow
            assert sc.site(a, "tcp", rng.choice(["up", "down"]), established=rng.random() < 0.5) and a not in sc.slots
        else:
            sc.close(a)                                           # ended by the client, dials pending
        sc.move(fb, rng.choice(["up", "down"]) if sc.flows[fb][1] == "tcp" else "up")   # the others are not affected
        if a2 is not None:
            sc.site(a2, *rng.choice(SITES[:3]), established=False)
            if rng.random() < 0.5:
                sc.hang(a2, "tcp")
                sc.close(a2)
        if rng.random() < 0.5:
            sc.release(a)                                         # released after the connection is long gone
        c = sc.connect(0)                                         # the user comes back and is counted once
        sc.site(c, *rng.choice(SITES[:3]), established=False)
        out.append(sc.case())
    return out


def gen_e2e_eos(rng):
    """THE REFUSED REPORT COINCIDES WITH THE END OF THE STREAM: the kicked user's next report is for the LAST chunk of
    one direction of a TCP relay - the sender closes its end together with the bytes, so the Read that yields them can
    yield io.EOF with them (a QUIC receive stream when data and FIN arrive together; an outbound conn whose Read returns
    the tail with the EOF - the in-memory remote does so by construction) - on a stream that carried nothing before
    (first = last chunk) and on one that has carried accepted bytes in both directions (the refusal at the end of a
    longer stream), next to another user whose own last chunks are accepted.  Positions first / middle are the
    directed site scripts; with these every position of a stream is covered."""
    out = []
    small = [1, 16, 100, 1000]
    for d, mem, established in (("up", False, False), ("up", False, True), ("up", True, True),
                                ("down", True, False), ("down", True, True), ("down", False, True)):
        sc = E2EScript(rng, rng.choice(["", "s3cret"]), ["alice", "bob"])
        a = sc.connect(0)
        b = sc.connect(1)
        a2 = sc.connect(0) if rng.random() < 0.4 else None
        fa = None
        if established:
            fa = sc.new_flow(a, "tcp", mem=mem)
            sc.move(fa, "up", rng.choice(TCP_N))
            if rng.random() < 0.6:
                sc.move(fa, "down", rng.choice(TCP_N))
        fb = sc.new_flow(b, "tcp", mem=rng.random() < 0.5)
        sc.move(fb, rng.choice(["up", "down"]))
        sc.kick(0, twice=rng.random() < 0.3)
        sc.move(fb, rng.choice(["up", "down"]), rng.choice(small), fin=True)   # bob's last chunk is accepted; bob stays
        if fa is None:
            fa = sc.new_flow(a, "tcp", mem=mem)
        assert sc.move(fa, d, rng.choice(small + [5000]), fin=True) is False and a not in sc.slots
        if a2 is not None:
            sc.site(a2, "tcp", rng.choice(["up", "down"]), established=False, fin=True, mem=rng.random() < 0.5, hook=None)
        c = sc.connect(0)
        sc.site(c, "tcp", rng.choice(["up", "down"]), established=False, fin=rng.random() < 0.5, mem=mem, hook=None)
        sc.site(b, "tcp", d, established=False, fin=True, mem=mem, hook=None)  # the same shape, not kicked: accepted
        out.append(sc.case())
    return out


def gen_e2e_hook(rng):
    """REQUEST HOOK x TRAFFIC LOGGER: the server runs with a RequestHook (a sniffer: takes k bytes off the stream,
    rewrites the address, hands the bytes back as putback; k = 0: address rewrite only) next to the stats server.  The
    kicked user's next transfer is a hooked request whose putback is part of / all of / none of it, on a fresh request and
    on one established before the kick; unhooked requests and another user's hooked traffic go on beside it.  Whatever
    call to LogTraffic is answered false - wherever in core/server it was made from - must disconnect the user; the caller
    of every recorded report is passed to the model, which knows the four sites (site_of_caller)."""
    out = []
    for variant in range(6):
        sc = E2EScript(rng, rng.choice(["", "s3cret"]), ["alice", "bob"])
        a = sc.connect(0)
        b = sc.connect(1)
        a2 = sc.connect(0) if rng.random() < 0.4 else None
        k = rng.choice([1, 5, 100])
        fb = sc.new_flow(b, "tcp", hook=rng.choice([0, k]), mem=rng.random() < 0.3)
        sc.move(fb, "up")                                           # bob: hooked, accepted (putback moved, the rest reported)
        fe = None
        if variant == 3:
            fe = sc.new_flow(a, "tcp", hook=k)                      # established before the kick, putback already consumed
            sc.move(fe, "up")
            if rng.random() < 0.5:
                sc.move(fe, "down")
        sc.kick(0, twice=rng.random() < 0.3)
        sc.move(fb, rng.choice(["up", "down"]))
        if variant == 0:                                             # putback is the head of the transfer
            f = sc.new_flow(a, "tcp", hook=k, mem=rng.random() < 0.3)
            assert sc.move(f, "up", k + rng.choice([1, 50, 3000]), fin=rng.random() < 0.3) is False
        elif variant == 1:                                           # putback is ALL of it: the relay sees nothing, no report ...
            f = sc.new_flow(a, "tcp", hook=k)
            assert sc.move(f, "up", k) is True and 0 in sc.pending
            if rng.random() < 0.5:                                   # ... the kick waits for the next byte of the relay
                assert sc.move(f, rng.choice(["up", "down"])) is False
            else:
                assert sc.site(a, *rng.choice(SITES[:3]), established=False, hook=None) and a not in sc.slots
        elif variant == 2:                                           # hooked, no putback
            f = sc.new_flow(a, "tcp", hook=0, mem=rng.random() < 0.3)
            assert sc.move(f, rng.choice(["up", "down"]), fin=rng.random() < 0.3) is False
        elif variant == 3:
            assert sc.move(fe, rng.choice(["up", "down"])) is False
        elif variant == 4:                                           # a hooked UDP session
            f = sc.new_flow(a, "udp", hook=0)
            assert sc.move(f, "up") is False
        else:                                                        # an unhooked request on a server that has a hook
            assert sc.site(a, *rng.choice(SITES[:3]), established=False, hook=None) and a not in sc.slots
        if a2 is not None:                                           # the kick is used up: the other connection goes on, hooked
            f2 = sc.new_flow(a2, "tcp", hook=rng.choice([0, k]))
            sc.move(f2, "up")
        c = sc.connect(0)
        f3 = sc.new_flow(c, "tcp", hook=k)
        sc.move(f3, "up", rng.choice([k, k + 7, 1000]))
        sc.move(fb, "down")
        out.append(sc.case())
    return out


def gen_e2e_multi_auth(rng):
    """several auth requests on ONE QUIC connection (2-3 concurrent ones against a slow authenticator, sequential ones,
    mixed with rejected credentials), next to ordinary connections of the same and of another user: the listing counts
    the connection once while it is there and not at all once it is gone"""
    out = []
    for variant in range(2):
        sc = E2EScript(rng, rng.choice(["", "s3cret"]), ["alice", "bob"])
        r1 = sc.rawauth(0, ["ok"] * (2 + variant), True)            # 2 / 3 concurrent auths, nobody else online
        sc.close(r1)                                                  # ... and the user is gone from the listing
        a = sc.connect(0)
        b = sc.connect(1)
        r2 = sc.rawauth(0, ["ok"] * rng.choice([2, 3]) + (["bad"] if rng.random() < 0.5 else []), True)   # alice: 2 connections
        r3 = sc.rawauth(1, ["ok", "ok"] + (["ok"] if variant else []), rng.random() < 0.7)
        sc.rawauth(1, ["bad"] * rng.choice([1, 2]), True)            # rejected: no connection
        f = sc.new_flow(a, rng.choice(["tcp", "udp"]))
        sc.move(f, "up")
        if variant:
            sc.close(a)
            sc.close(r2)
        else:
            sc.close(r2)
            sc.kick(0)
            sc.move(f, "up")                                          # the stock client is kicked out; alice is gone
        r4 = sc.rawauth(1, ["ok", "bad", "ok"], False)              # sequential: "already authenticated"
        sc.close(r3)
        sc.close(b)
        sc.close(r4)
        out.append(sc.case())
    return out


PEND_FAULTS = [("close", "pending"), ("close", "pending"), ("close", "decided"), ("cancel", "pending"), ("cancel", "decided"), ("none", "pending")]


def rand_pend(rng, n, k):
    out = []
    for _ in range(k):
        fault, when = rng.choice(PEND_FAULTS)
        out.append((rng.randrange(n), "ok" if rng.random() < 0.75 else "bad", fault, when))
    return out


def gen_e2e_pending(rng):
    """connections that die (or whose request is cancelled) while their auth is pending at a slow authenticator
    backend, which then accepts or rejects: with 0, 1 and 2 other live connections of the same user, next to other
    users, several at once, closed before / right after the backend's answer: whatever the server reports about such a
    connection is paired (never offline without online), and the listing keeps showing the live connections"""
    out = []
    # (1) one user: nobody else / one / two other live connections of that user
    sc = E2EScript(rng, rng.choice(["", "s3cret"]), ["alice", "bob"])
    sc.pendauth([(0, "ok", "close", "pending")])
    a = sc.connect(0)
    sc.pendauth([(0, "ok", "close", "pending")])
    a2 = sc.connect(0) if rng.random() < 0.5 else sc.rawauth(0, ["ok"], False)
    sc.pendauth([(0, "ok", "close", "pending"), (0, "bad", "close", "pending"), (0, "ok", "close", "decided")])
    f = sc.new_flow(a, rng.choice(["tcp", "udp"]))
    sc.move(f, "up")                                              # the live connection is still usable and accounted
    sc.close(a)
    sc.pendauth([(0, rng.choice(["ok", "bad"]), "close", "pending"), (0, "ok", "close", "pending")])
    sc.close(a2)
    sc.pendauth([(0, "ok", "close", "pending")])
    out.append(sc.case())
    # (2) other users around; closed, cancelled and patient connections side by side
    sc = E2EScript(rng, rng.choice(["", "s3cret"]), ["alice", "bob"])
    b = sc.connect(1)
    a = sc.connect(0)
    sl = sc.pendauth([(0, "ok", "close", "pending"), (1, "ok", "none", "pending"), (0, "ok", "cancel", "pending"),
                      (1, "bad", "none", "pending"), (1, "ok", "close", "pending")])
    f = sc.new_flow(a, "tcp")
    sc.move(f, "up")
    sc.kick(0)
    sc.move(f, rng.choice(["up", "down"]))                        # the stock client is kicked out, alice's raw connection stays
    sc.pendauth([(0, "ok", "close", "decided"), (0, "bad", "cancel", "pending"), (1, "ok", "close", "pending")])
    sc.close(sl[2])                                               # the connection whose request was cancelled: alice is gone
    sc.pendauth(rand_pend(rng, 2, 3))
    sc.close(sl[1])
    sc.close(b)
    out.append(sc.case())
    return out


def gen_e2e(rng):
    """script for a real server + real clients over loopback"""
    pool = rng.sample(["alice", "bob", "carol"], rng.randint(1, 3))
    sc = E2EScript(rng, rng.choice(["", "s3cret"]), pool)
    sc.use_mem = rng.random() < 0.4
    sc.use_hook = rng.random() < 0.4
    n = len(pool)
    want = None  # after a kick, drive a report of that id soon
    for _ in range(rng.randint(8, 14)):
        r = rng.random()
        if want is not None and rng.random() < 0.7:
            cand = [s for s, i in sc.slots.items() if i == want]
            if cand:
                s = rng.choice(cand)
                kind, d = rng.choice(SITES)
                if sc.site(s, kind, d, fin=None) or sc.site(s, kind, "up", fin=None):
                    want = None if want not in sc.pending else want
                    continue
        if not sc.slots or r < 0.25:
            if rng.random() < 0.25:
                sc.rawauth(rng.randrange(n), ["ok"] * rng.choice([1, 2, 2, 3]) + ["bad"] * rng.choice([0, 0, 1]), rng.random() < 0.8)
            elif rng.random() < 0.3:
                sc.pendauth(rand_pend(rng, n, rng.choice([1, 1, 2, 3])))
            else:
                sc.connect(rng.randrange(n))
        elif r < 0.32:
            sc.reject()
        elif r < 0.45:
            s = rng.choice(list(sc.slots) + list(sc.raws))
            if s in sc.slots and rng.random() < 0.35:
                sc.hang(s)                                       # the connection ends with outbound dials pending
            sc.close(s)
        elif r < 0.8:
            s = rng.choice(list(sc.slots))
            i = sc.slots[s]
            kind, d = rng.choice(SITES)
            if not sc.site(s, kind, d, fin=None):
                sc.site(s, kind, "up", fin=None)
            if want == i and i not in sc.pending:
                want = None
        else:
            i = rng.choice(list(sc.slots.values()))
            sc.kick(i, twice=rng.random() < 0.3)
            want = i
    return sc.case()


def report_terms(st, ob):
    """every LogTraffic call recorded during the step, with the function of core/server it was made from (observed on
    the call stack): the model maps the caller to one of its report sites (site_of_caller) or the check fails -
    a report site that is not in the model"""
    reps, sites = ob.get("reports") or [], ob.get("sites") or []
    out = []
    for k, (_, tx, rx, acc) in enumerate(reps):
        fn = sites[k] if k < len(sites) else "?"
        out.append("WR %s %d %d %d %s" % (cstr(fn), st["slot"], tx, rx, "true" if acc else "false"))
    return out


def modelled_callers():
    """the callers model/C15_Sites.v knows (site_of_caller), read from the model's source"""
    import re
    try:
        src = open(_os.path.join(common.VERIF, "coq", "model", "C15_Sites.v")).read()
        body = src.split("Definition site_of_caller", 1)[1].split("\n\n", 1)[0]
        return set(re.findall(r'"([^"]+)"', body))
    except Exception:
        return set()


def unmodelled_sites(o):
    known = modelled_callers()
    out = set()
    for ob in o.get("obs") or []:
        for fn in ob.get("sites") or []:
            if known and fn not in known:
                out.add(fn)
    return sorted(out)


def e2e_term(c, o):
    """the observed run as a list of server events for the world model of model/C15_Sites.v"""
    obs = o.get("obs") or []
    if len(obs) != len(c["steps"]) or any(str(ob.get("result", "")).startswith("error") for ob in obs):
        return None
    sec = c["secret"]
    G = lambda path: "wrq %s \"GET\" %s \"\" None" % (cstr(sec), cstr(path))
    terms = []
    for st, ob in zip(c["steps"], obs):
        a, res = st["a"], ob["result"]
        if a == "pendauth":
            # replayed in the auth handler's atomic steps, each with the notifications recorded for that connection
            pend = ob.get("pend") or []
            if res != "ok" or len(pend) != len(st["conns"]) or not all(p.get("entered") for p in pend):
                return None
            nt = lambda ns: "[" + ";".join("(%d,%s)" % (x[0], "true" if x[1] else "false") for x in ns) + "]"
            for pc in st["conns"]:
                terms.append("WE (EAuthBegin %d) WUnit" % pc["id"])
            for pc in st["conns"]:
                if pc["fault"] == "close" and pc["when"] == "pending":
                    terms.append("WE (EClientClose %d) WUnit" % pc["slot"])
            for j in st["order"]:
                pc, po = st["conns"][j], pend[j]
                terms.append("WE (EAuthDecide %d %s) WUnit" % (pc["slot"], "true" if pc["decide"] == "ok" else "false"))
                if pc["fault"] == "close" and pc["when"] == "decided":
                    terms.append("WE (EClientClose %d) WUnit" % pc["slot"])
                ups = [x for x in po.get("notes") or [] if x[1]]
                downs = [x for x in po.get("notes") or [] if not x[1]]
                if pc["decide"] == "ok" or ups:
                    terms.append("WN (EAnnounce %d) %s" % (pc["slot"], nt(ups)))
                if pc["fault"] == "close" or downs:
                    terms.append("WN (EHandlerReturn %d) %s" % (pc["slot"], nt(downs)))
        elif a == "rawauth":
            # one connection whatever the number of accepted requests: the first to enter the handler authenticates,
            # every other request answered StatusAuthOK found the connection authenticated
            okst = st["proto"]["status"]
            if res == "ok":
                terms.append("WE (EAuth %d) WUnit" % st["id"])
                for _ in range(sum(1 for x in ob.get("auths") or [] if x == okst) - 1):
                    terms.append("WE (EAuthAgain %d %d) WUnit" % (st["slot"], st["id"]))
        else:
            for i in ob.get("ups") or []:
                terms.append("WE (EAuth %d) WUnit" % i)
        if a == "close" and res == "ok":
            terms.append("WE (EClientClose %d) WUnit" % st["slot"])
        elif a == "kick":
            terms.append("WE (wrq %s \"POST\" \"/kick\" \"\" (Some [%d])) (WHttp 200 BEmpty)" % (cstr(sec), st["id"]))
        elif a == "hang" and res == "ok":
            # the datagram of a hung UDP session is reported on receipt; the dials are request goroutines of the
            # connection that stay in flight (model/C15_Pending.v)
            terms += report_terms(st, ob)
            terms.append("WReq %d %d" % (st["slot"], st["n"] if st["kind"] == "tcp" else 1))
        elif a == "release" and res == "ok":
            terms.append("WRel %d" % st["slot"])
            if ob.get("alive") is not None:
                terms.append("WAlive %d %s" % (st["slot"], "true" if ob["alive"] else "false"))
        elif a in ("tcp", "udp") and res in ("ok", "refused"):
            terms += report_terms(st, ob)
            if ob.get("alive") is not None:
                terms.append("WAlive %d %s" % (st["slot"], "true" if ob["alive"] else "false"))
        for _ in (ob.get("downs") or []) if a != "pendauth" else []:
            terms.append("WE (EHandlerReturn %d) WUnit" % st.get("slot", 0))
        terms.append("WE (%s) (WHttp 200 (BOnline [%s]))" % (G("/online"), ";".join("(%d,(%d)%%Z)" % (m[0], m[1]) for m in ob.get("online") or [])))
    terms.append("WE (%s) (WHttp 200 (BStats [%s]))" % (G("/traffic"), ";".join("(%d,(%d,%d))" % (m[0], m[1], m[2]) for m in o.get("final") or [])))
    return "CWorld %s [\n %s]" % (cstr(sec), ";\n ".join(terms))


def e2e_refusal_sites(c, o):
    out = set()
    for st, ob in zip(c["steps"], o.get("obs") or []):
        if ob.get("result") == "refused":
            out.add("%s-%s" % (st["a"], st["dir"]) + ("-last-chunk%s" % ("-data+EOF-remote" if st.get("mem") else "") if st.get("fin") else "") +
                    ("-hooked" + ("-putback" if st.get("putback") else "") if st.get("hooked") else ""))
    return sorted(out)


def gen(rng, tier):
    scale = 1 if tier == "quick" else 10
    cases = gen_seq_directed(rng)
    for _ in range(1 if tier == "quick" else 3):
        cases += gen_e2e_directed(rng)
        cases += gen_e2e_multi_auth(rng)
        cases += gen_e2e_pending(rng)
        cases += gen_e2e_hang(rng)
        cases += gen_e2e_eos(rng)
        cases += gen_e2e_hook(rng)
    for _ in range(10 if tier == "quick" else 60):
        cases.append(gen_e2e(rng))
    for _ in range(160 * scale):
        cases.append(gen_seq(rng))
    for _ in range(140 * scale):
        cases.append(gen_lin(rng))
    for s in range(3 * (1 if tier == "quick" else 6)):
        cases.append({"k": "stress", "secret": "s3cret", "ids": ["alice", "bob", "carol"][:1 + s % 3], "g": 8,
                      "n": 20000 if tier == "quick" else 60000, "pollers": 1 + s % 3, "kickers": s % 2,
                      "seed": rng.randrange(2**31)})
    return cases


# ---------------------------------------------------------------- Coq terms

def cstr(s):
    for ch in s:
        if not (32 <= ord(ch) < 127):
            raise ValueError("non-ASCII string in a Coq case: %r" % s)
    return '"' + s.replace('"', '""') + '"'


def nlist(xs):
    return "[" + ";".join(str(x) for x in xs) + "]"


def call_term(op):
    if op["o"] == "log":
        return "(CLog %d %d %d)" % (op["id"], op["tx"], op["rx"])
    if op["o"] == "online":
        return "(COnline %d %s)" % (op["id"], "true" if op["b"] else "false")
    body = "None" if op["ids"] is None else "(Some %s)" % nlist(op["ids"])
    return "(rq %s %s %s %s %s)" % (cstr(op["auth"] if op["hasauth"] else ""), cstr(op["method"]), cstr(op["path"]),
                                    cstr(op["clear"] if op["hasclear"] else ""), body)


def res_term(op, r):
    if op["o"] == "log":
        return "(XBool %s)" % ("true" if r.get("b") else "false")
    if op["o"] == "online":
        return "XUnit"
    kind = r.get("kind", "")
    st = r.get("st", 0)
    if kind == "err":
        b = "BError"
    elif kind == "index":
        b = "BIndex"
    elif kind == "empty":
        b = "BEmpty"
    elif kind == "streams":
        b = "BStreams"
    elif kind == "stats":
        b = "(BStats [" + ";".join("(%d,(%d,%d))" % (m[0], m[1], m[2]) for m in r.get("m") or []) + "])"
    elif kind == "online":
        b = "(BOnline [" + ";".join("(%d,(%d)%%Z)" % (m[0], m[1]) for m in r.get("on") or []) + "])"
    else:
        # malformed response: a status the model never produces, so the case is a mismatch
        st, b = 999, "BError"
    return "(XHttp %d %s)" % (st, b)


def to_coq(c, o):
    if c["k"] == "seq":
        rs = o.get("rs") or []
        if len(rs) != len(c["ops"]):
            return None
        return "CSeq %s [\n %s]" % (cstr(c["secret"]), ";\n ".join("(%s,%s)" % (call_term(op), res_term(op, r)) for op, r in zip(c["ops"], rs)))
    if c["k"] == "e2e":
        return e2e_term(c, o)
    if c["k"] == "lin":
        evs = o.get("events") or []
        terms = []
        for e in evs:
            op = c["epilogue"][e["j"]] if e["t"] == len(c["threads"]) else c["threads"][e["t"]][e["j"]]
            terms.append("ev %s %s %d %d" % (call_term(op), res_term(op, e.get("r") or {}), e["call"], e["ret"]))
        return "CLin %s [\n %s]" % (cstr(c["secret"]), ";\n ".join(terms))
    return None


def klass(c, o):
    if c["k"] == "seq":
        return "seq:" + ("refusal" if o.get("refused", 0) > 0 else "no-refusal") + ("+snapshots" if o.get("snaps", 0) >= 2 else "")
    if c["k"] == "lin":
        ov = o.get("overlap", 0)
        return "lin:overlap=" + ("0" if ov == 0 else "1-5" if ov <= 5 else "6-20" if ov <= 20 else ">20")
    if c["k"] == "e2e":
        sites = e2e_refusal_sites(c, o)
        multi = any(st["a"] == "rawauth" and st["conc"] and st["reqs"].count("ok") > 1 for st in c["steps"])
        pend = any(st["a"] == "pendauth" for st in c["steps"])
        hang = sorted({st["kind"] for st in c["steps"] if st["a"] == "hang"})
        hook = any(st.get("hooked") for st in c["steps"])
        unmod = unmodelled_sites(o)
        return ("e2e:" + ("hook+logger:" if hook else "") + ("REPORT-SITE-NOT-IN-THE-MODEL(%s):" % ",".join(unmod) if unmod else "") + ("refusal@" + "+".join(sites) if sites else "no-refusal") + ("+concurrent-auths-on-one-conn" if multi else "") +
                ("+fault-while-auth-pending" if pend else "") + ("+conn-ends-with-pending-%s-dials" % "/".join(hang) if hang else ""))
    return "stress:clears=%s,refused=%s" % ("0" if not o.get("clears") else ">0", "0" if not o.get("refused") else ">0")


def nontrivial(c, o):
    if c["k"] == "seq":
        return o.get("refused", 0) > 0 and o.get("snaps", 0) >= 2
    if c["k"] == "lin":
        return o.get("overlap", 0) > 0
    if c["k"] == "e2e":
        return any(ob.get("result") == "refused" for ob in o.get("obs") or []) or any(st["a"] == "hang" for st in c["steps"])
    return bool(o.get("clears"))


def fingerprint(c, o):
    """stable name of the violated clause (one VIOLATION line per clause and case kind)"""
    why = o.get("why") or ""
    for key, name in (("unpaired", "online-pairing"), ("not disconnected", "kick-disconnects"), ("API secret", "unauthorized-request-served"), ("conservation broken", "conservation"), ("final snapshot", "conservation"), ("proxied", "kick-exactly-once"), ("could not proxy", "kick-exactly-once"), ("not errDisconnect", "kick-disconnects"), ("the copy went on", "kick-exactly-once"), ("errDisconnect although", "kick-exactly-once"), ("LogTraffic(", "kick-exactly-once"), ("kicked", "kick-exactly-once"),
                      ("refused", "kick-exactly-once"), ("online", "online-count"), ("panic", "panic"), ("malformed", "malformed-response")):
        if key in why:
            return "C15-%s-%s" % (c["k"], name)
    return None


def search(ctx, disagreeing):
    """Property-directed search on the implementation alone (no model): more seeds; concurrent cases are re-run
    (their schedule is not reproducible, so the replay of a failing one is the recorded history itself)."""
    found = []
    for s in range(3):
        rng = random.Random(ctx.seed * 1000 + s + 17)
        cases = list(disagreeing) + gen(rng, "quick")
        ok, outs, _, log = common.run_go_cases(ctx, GO, cases, tag="search%d" % s)
        for c, o in zip(cases, outs):
            if o.get("ok") is False:
                found.append({"what": "%s: %s" % (c["k"], o.get("why")), "replay": {"case": c, "impl": o},
                              "fingerprint": fingerprint(c, o), "found_input": True})
        if found:
            break
    return found[:5]


# ---------------------------------------------------------------- the relay loop on scripted Reads

COPY_N = [0, 0, 1, 5, 100, 4096, 32768]     # 32768 = the loop's buffer: a Read never returns more
COPY_ERR = ["nil", "nil", "nil", "eof", "eof", "fail"]


def copy_step(rng, n=None, err=None, ok=None, wok=None):
    return {"n": rng.choice(COPY_N) if n is None else n, "err": rng.choice(COPY_ERR) if err is None else err,
            "ok": (rng.random() < 0.8) if ok is None else ok, "wok": (rng.random() < 0.9) if wok is None else wok}


def gen_copy(rng, tier):
    """scripts of Read results for copyBufferLog (alone and as either direction of copyTwoWayEx).  Directed: a refused
    report at position 0..3 of the stream, the Read having returned the bytes with nil / io.EOF / a failure, with and
    without iterations that read nothing in between and with anything after it; streams that end accepted (data+EOF,
    EOF alone), write failures, read failures, scripts that leave the loop blocked.  Random: 1-6 iterations."""
    cases = []
    for two in ("", "up", "down"):
        for pos in range(4):
            for err in ("nil", "eof", "fail"):
                pre = []
                for _ in range(pos):
                    if rng.random() < 0.25:
                        pre.append(copy_step(rng, n=0, err="nil"))
                    pre.append(copy_step(rng, n=rng.choice(COPY_N[2:]), err="nil", ok=True, wok=True))
                refused = copy_step(rng, n=rng.choice(COPY_N[2:]), err=err, ok=False)
                post = [copy_step(rng) for _ in range(rng.choice([0, 0, 1, 2]))]
                cases.append({"k": "copy", "two": two, "steps": pre + [refused] + post})
        P = lambda n, e="nil": copy_step(rng, n=n, err=e, ok=True, wok=True)
        cases += [{"k": "copy", "two": two, "steps": st} for st in (
            [P(100), P(5, "eof")], [P(100), P(0, "eof")], [P(0, "eof")], [P(7, "fail")], [P(7), P(0, "fail")],
            [P(7), copy_step(rng, n=9, err="eof", ok=True, wok=False)], [copy_step(rng, n=9, err="nil", ok=True, wok=False), P(3)],
            [P(32768), P(32768), P(1, "eof")], [P(3), P(0), P(4)], [])]
    for _ in range(150 if tier == "quick" else 1500):
        cases.append({"k": "copy", "two": rng.choice(["", "", "up", "down"]),
                      "steps": [copy_step(rng) for _ in range(rng.randint(1, 6))]})
    return cases


COPY_RES = {"nil": "CNil", "disconnect": "CDisconnect", "werr": "CWriteErr", "rerr": "CReadErr", "blocked": "CBlocked"}
COPY_ERRC = {"nil": "RNil", "eof": "REOF", "fail": "RFail"}


def copy_to_coq(c, o):
    B = lambda b: "true" if b else "false"
    if o.get("res") not in COPY_RES:
        return "CCopy [] CNil [] false"      # an error the model does not have: never equal to the model's run
    steps = ";".join("mkRs %d %s %s %s" % (st["n"], COPY_ERRC[st["err"]], B(st["ok"]), B(st["wok"])) for st in c["steps"])
    acts = ";".join("%s %d %s" % ("AWrite" if a[0] else "ALog", a[1], B(a[2])) for a in o.get("acts") or [])
    return "CCopy [%s] %s [%s] %s" % (steps, COPY_RES[o["res"]], acts, B(o.get("closed")))


def copy_go(ctx):
    rng = random.Random(ctx.seed * 131 + 9)
    cases = gen_copy(rng, ctx.tier)
    ok, outs, _, log = common.run_go_cases(ctx, GO_COPY, cases, tag="copy")
    return ok, cases, outs, log


def copy_stage(ctx, go_result):
    """returns None when the stage passed, else (what, replay, found_input)"""
    ok, cases, outs, log = go_result
    if not ok:
        return ("tie broken: the copy-loop harness did not build/run against the current tree (%s)" % log.strip()[-400:],
                {"broken": "go harness (core/server)", "log": log[-4000:]}, False)
    for c, o in zip(cases, outs):
        if o.get("ok") is False:
            return ("copy: %s" % o.get("why"), {"case": c, "impl": o, "how": "copyBufferLog" if not c["two"] else "copyTwoWayEx, direction " + c["two"]}, True)
    terms = [copy_to_coq(c, o) for c, o in zip(cases, outs)]
    eok, mm, err = common.eval_cases(ctx, "copycases", HEADER, terms, 400)
    if not eok:
        return ("correspondence evaluation of the copy-loop cases failed: " + err[:300], {"broken": "coq evaluation", "err": err[-3000:]}, False)
    if mm:
        return ("copyBufferLog and model/C15_Copy.v copy_loop disagree on %d scripted stream(s)" % len(mm),
                {"disagreeing_cases": [{"case": cases[i], "impl": outs[i]} for i in mm[:10]]}, False)
    return None


def race_stage(ctx):
    """The concurrent cases again under the Go race detector: conservation under concurrency is a property of the
    lock discipline, and an access to the three maps outside the right lock is exactly what the detector reports
    (a lost update needs real parallelism to show up in the results; the detector does not)."""
    rng = random.Random(ctx.seed * 77 + 5)
    quick = ctx.tier == "quick"
    cases = [gen_lin(rng) for _ in range(40 if quick else 400)]
    if not quick:
        cases += [gen_e2e(rng) for _ in range(4)]
    for s in range(1 if quick else 4):
        cases.append({"k": "stress", "secret": "s3cret", "ids": ["alice", "bob", "carol"][:1 + s % 3], "g": 6,
                      "n": 1500 if quick else 8000, "pollers": 2 + s % 2, "kickers": 1, "seed": rng.randrange(2**31)})
    ok, outs, _, log = common.run_go_cases(ctx, GO, cases, tag="race", race=True, timeout=1500)
    bad = [(c, o) for c, o in zip(cases, outs) if o.get("ok") is False]
    return ok and not bad, cases, outs, bad, log


def run(ctx):
    import threading
    copy_res = {}
    th = threading.Thread(target=lambda: copy_res.update(r=copy_go(ctx)))
    th.start()                       # the core/server harness builds and runs next to the main one
    rc = common.run_case_check(ctx, sys.modules[__name__])
    t0 = __import__("time").time()
    th.join()
    outs_main = common.read_jsonl(ctx.path("out_main.jsonl")) if _os.path.exists(ctx.path("out_main.jsonl")) else []
    unmod = sorted({fn for o in outs_main if o.get("k") == "e2e" for fn in unmodelled_sites(o)})
    if unmod:
        print("  note: REPORT SITE NOT IN THE MODEL: LogTraffic was called from core/server.%s - coq/model/C15_Sites.v (site_of_caller) "
              "knows the relay (copyTwoWayEx) and udpIOImpl.ReceiveMessage / SendMessage only; what a refusal does there is not modelled"
              % ", core/server.".join(unmod), flush=True)
    bad = copy_stage(ctx, copy_res.get("r") or (False, [], [], "copy harness did not run"))
    if bad is None:
        ncopy = len((copy_res.get("r") or (0, []))[1])
        note_evidence(ctx, None, 0, key="copy_stage", text2="copyBufferLog / copyTwoWayEx on %d scripted streams (refusal at every position, data+EOF): as the model, no violation" % ncopy)
        print("C15 %s: copy-loop stage: %d scripted streams, as the model, no violation (%.1fs)" % (ctx.tier, ncopy, __import__("time").time() - t0), flush=True)
    else:
        what, rep, found = bad
        rp = common.write_replay(ctx, {"property": ctx.pid, "what": what, "seed": ctx.seed, "tier": ctx.tier, "replay": rep})
        print("VIOLATION property=%s replay=%s%s" % (ctx.pid, rp, "" if found else " no-failing-input-found"), flush=True)
        print("  what: %s" % what, flush=True)
        note_evidence(ctx, None, 1, key="copy_stage", text2=what)
        return 1
    t0 = __import__("time").time()
    ok, cases, outs, bad, log = race_stage(ctx)
    dt = __import__("time").time() - t0
    if ok:
        note_evidence(ctx, "go test -race on %d concurrent cases: no data race, no violation" % len(cases), 0)
        print("C15 %s: race-detector stage: %d concurrent cases, no data race, no violation (%.1fs); exit %d" % (ctx.tier, len(cases), dt, rc), flush=True)
        return rc
    racy = "DATA RACE" in log
    what = ("data race reported by the Go race detector in the traffic stats server: " + race_summary(log) if racy else
            ("%s: %s" % (bad[0][0]["k"], bad[0][1].get("why")) if bad else "race-detector run of the harness failed: " + log.strip()[-300:]))
    rp = common.write_replay(ctx, {"property": ctx.pid, "what": what, "seed": ctx.seed, "tier": ctx.tier,
                                   "replay": {"case": bad[0][0], "impl": bad[0][1]} if bad else
                                   {"cases_file": ctx.path("in_race.jsonl"), "how": "go test -race on the concurrent cases", "log": log[-6000:]}})
    print("VIOLATION property=%s replay=%s%s" % (ctx.pid, rp, "" if bad or racy else " no-failing-input-found"), flush=True)
    print("  what: %s" % what, flush=True)
    note_evidence(ctx, what, 1)
    return 1


def note_evidence(ctx, text, nviol, key="race_stage", text2=None):
    evp = getattr(ctx, "evidence_path", None) or _os.path.join(common.VERIF, "evidence", ctx.pid + ".json")
    try:
        ev = json.load(open(evp))
        ev["violations"] = ev.get("violations", 0) + nviol
        ev["coverage"][key] = text if text2 is None else text2
        ev["wall_s"] = round(__import__("time").time() - ctx.t0, 1)
        json.dump(ev, open(evp, "w"), indent=1)
    except Exception:
        pass


def race_summary(log):
    """first racing access pair, source positions only"""
    import re
    m = re.search(r"WARNING: DATA RACE(.*?)(?:Goroutine \d+|==================)", log, re.S)
    if not m:
        return ""
    locs = re.findall(r"(\S+\.go:\d+)", m.group(1))
    locs = [l for l in locs if "trafficlogger" in l or "zz_verif" in l][:4]
    return " / ".join(locs)


def replay(ctx, path):
    r = json.load(open(path))
    c = (r.get("replay") or {}).get("case")
    if not c:
        print("replay file names a broken obligation/correspondence, no concrete input:", r["what"])
        return 1
    bad = 0
    runs = 1 if c["k"] in ("seq", "copy") else 20  # concurrent cases: the schedule is not part of the input
    for _ in range(runs):
        ok, outs, _, log = common.run_go_cases(ctx, GO_COPY if c["k"] == "copy" else GO, [c], tag="replay")
        if not outs or not outs[0].get("ok"):
            bad += 1
            print(json.dumps(outs, indent=1)[:4000])
            break
    print("replay: %s" % ("property violated" if bad else "no violation in %d run(s)" % runs))
    return 1 if bad else 0


LEVEL_TEXT = ("Machine-checked Coq theorems over a Gallina model of trafficStatsServerImpl as an atomic object (one operation per mutex critical "
              "section): for every operation sequence - hence for every interleaving of LogTraffic, LogOnlineState, GET /traffic with or without "
              "clear, POST /kick, GET /online - cleared snapshots + final snapshot = accepted bytes per user and direction (mod 2^64, and exactly "
              "below 2^64), a report is refused iff a kick of that user is pending and the refusal consumes it, the online listing shows exactly "
              "the live connection count and never a non-positive entry; and over a world model of core/server's connections and its four traffic-report "
              "sites: a refused report at any site closes exactly that QUIC connection, the listing follows the connections for every event sequence, "
              "a pending kick disconnects the user at its next report wherever it is made, the online/offline notifications are paired per connection and per user "
              "(also when a connection dies while its auth is pending at a slow authenticator); and over a model of the relay loop copyBufferLog as a loop over Read results: "
              "a refused report ends the copy with errDisconnect - and handleTCPRequest closes the connection - at every position of the stream, the chunk that arrives "
              "together with io.EOF included, nothing being written after it (the variant that tests the Read error first is refuted). The model is tied to /repo on every run by a call-by-call differential "
              "run of the real handler and by recorded concurrent histories checked for linearizability in the Coq kernel (lib/Lin.v, soundness proved).")
LEVEL_NOTE = ("Trusted: Coq kernel + vm_compute; hand-written model; sync.RWMutex; encoding/json, net/http. No axioms. Linearizability of the Go object "
              "is sampled, not proved. The pairing of online/offline notifications by core/server and the disconnect on a refused report are modelled (C15_Sites.v) and observed end to end; quic-go's close semantics are trusted.")
TECHNIQUE = "Coq proof (induction over operation sequences of an atomic-object model) + differential and linearizability correspondence checks in vm_compute"
DESIGN_REF = "DESIGN.md section 4 C15"
