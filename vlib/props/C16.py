"""C16 - Reconnecting client: one live connection, reconnect on loss, Close is final (DESIGN.md section 4, C16)."""
import json

from vlib import common

GO = dict(module="core", pkg="client", pkgname="client",
          files={"zz_verif_c16_test.go": "c16/c16_test.go"}, run="TestVerifC16")
PARAMS_NAME = "ParamsC16"
HEADER = ("From Hy Require Import model.C16_Reconnect corr.C16_Corr.\nFrom Coq Require Import List.\nImport ListNotations.\n")
RULE = ("seeded generator of fault histories run on the real NewReconnectableClient against a real hysteria server on loopback "
        "(one server per history, counting ConnFactory with a kill switch): scripted scenarios (loss + reconnect, two goroutines on the "
        "same dead client, stale second locked section after another goroutine already reconnected, Close with calls parked inside the "
        "server's dial, Close twice, every failing reconnect kind: config error / factory error / TLS failure / auth rejection, eager and "
        "lazy start incl. failing eager start, stream-limit exhaustion, UDP-disabled DialError on a dead connection, concurrent bursts on "
        "nil/dead/closed clients, a reconnect HELD inside configFunc / ConnFactory.New / before the handshake while further callers and "
        "Close arrive and the holds are opened in a chosen order, a failed connection attempt of every kind - first use or reconnect after a loss, one "
        "or two failures in a row - followed directly by TCP() / UDP() / Close() on the same client; EVERY WAY A CONNECTION CAN DIE x what happens next: "
        "local socket read failure, local socket closed under the transport, disconnect by the server (application CONNECTION_CLOSE), silent path (idle timeout), "
        "server restart on the same address with the same stateless reset key (stateless reset), each under client configurations with and without the Chrome "
        "fingerprint (zero-length / non-empty connection ids) and with a short or the default idle timeout, followed by TCP() / UDP() / a parked call / a burst / a second "
        "loss of another kind / a failing reconnect / Close; handshake-level failures that come from the peer: version negotiation failure, a peer that never answers) plus random scripts of calls from goroutines 0-3, kills (local socket failure or server-initiated "
        "disconnect), fault queues, Close at any point. Non-trivial = the history contains a second successful connect, a failing "
        "reconnect, or a Close. Distinct = distinct JSON script. Every call of a history (constructor, TCP, UDP, Close, the kick stream) runs under recover: "
        "a panicking call is a failing verdict with the history as replay (and a CPanic case = a disagreement with the model by construction); if "
        "the test process dies all the same, the histories that were in flight are run again one at a time to name the one that kills it. "
        "Loss verdict on the implementation alone: a call that runs alone and finds the client whose connection the harness killed returns ClosedError or makes a "
        "connection attempt itself (never anything else), the socket of that client is closed at the next quiescent point, and the call after a ClosedError return - "
        "server up, nothing made to fail - succeeds on a fresh connection (at most one failing call per loss). Every error VALUE met (returned by TCP()/UDP(), the close "
        "reason quic-go gives for a killed connection, the error inside ConnectError) is reported by kind of a finite enum (model/C16_Loss.v errkind = c16Kinds); the class case "
        "carries the table wrapIfConnectionClosed x kind of the working tree and fails if a terminal kind is classified recoverable.")
ASSUMPTIONS = [
    "quic-go reports a lost connection (OpenStream / stream I/O fail with a permanent error) once the connection context is done; how fast it notices a silent peer is not modelled",
    "the error values that reach wrapIfConnectionClosed or end a connection attempt are of one of the kinds of model/C16_Loss.v errkind (read off the pinned quic-go; every value the harness meets is checked against the enum, an unknown type breaks the tie); remote / local TransportError, HandshakeTimeoutError and net.ErrClosed are classified on constructed values only (no history on loopback produces them on an established connection)",
    "clientImpl.Close closes the PacketConn it got from the factory exactly once per call (part of the model as read; checked by the harness census on every history)",
    "configFunc / connectedFunc / ConnFactory are called back on the goroutine that holds rc.m (true of the code as read; the harness attributes boundary events to goroutines that way)",
]
TRUSTED = ["modelled rather than verified: core/client/reconnect.go, the cleanup paths of connect() and wrapIfConnectionClosed in core/client/client.go (hand transcription in coq/model/C16_Reconnect.v); the python/Go recording of the raw log. The cut of the raw log into locked sections (coq/corr/C16_Corr.v group) is proved to only regroup (C16_group_only_regroups). The log acceptor itself (coq/corr/C16_Corr.v accepts, searches the hidden sections in a normal form) is proved SOUND for the LTS (C16_accepted_log_is_weak_trace / _is_run / _quiet_point / _log_monitors); its completeness is tested exhaustively on bounded runs (C16_acceptor_complete_bounded), not proved"]
PER_SHARD = 400
EXTRA_TARGETS = ["corr/C16_Corr.vo"]
NG = 4


def call(g, mode="ok", kind="tcp"):
    return {"op": "call", "g": g, "kind": kind, "mode": mode}


def kill(how="sock"):
    return {"op": "kill", "how": how}


def H(steps, lazy=True, udp=True, init=None):
    c = {"k": "hist", "lazy": lazy, "udp": udp, "steps": steps}
    if not lazy:
        c["init"] = init or "ok"
    return c


def scripted(rng):
    cs = []
    for how in ("sock", "srv"):
        for lazy in (True, False):
            cs.append(H([call(0), kill(how), call(0), call(0), call(1, "err"), call(0)], lazy=lazy))
    # two goroutines parked on the same client when it dies
    cs.append(H([call(0, "gate"), call(1, "gate"), kill("srv"), {"op": "await", "g": 0}, {"op": "await", "g": 1}, call(2), call(0)], lazy=False))
    cs.append(H([call(0, "gate"), call(1, "gate"), kill("sock"), call(2), {"op": "await", "g": 1}, {"op": "await", "g": 0}, call(3)]))
    # stale second locked section: g0 is parked on c1; g1 notices the loss and reconnects; g0 comes back late
    cs.append(H([call(0, "gate"), kill("sock"), call(1), call(1), {"op": "await", "g": 0}, call(2), call(0)]))
    cs.append(H([call(0, "gate"), kill("srv"), call(1), call(1, "gate"), {"op": "await", "g": 0}, {"op": "release", "g": 1, "how": "ok"}, call(0)], lazy=False))
    # Close with parked calls, Close twice, calls after Close
    cs.append(H([call(0, "gate"), {"op": "close"}, {"op": "await", "g": 0}, call(1), call(0, kind="udp")]))
    cs.append(H([call(0), {"op": "close"}, {"op": "close"}, call(0), {"op": "burst", "n": 3, "kind": "tcp", "mode": "ok"}], lazy=False))
    cs.append(H([{"op": "close"}, call(0), call(1, kind="udp")]))
    cs.append(H([call(0, "gate"), call(1, "gate"), kill("sock"), {"op": "close"}, {"op": "await", "g": 0}, {"op": "await", "g": 1}, call(2)]))
    cs.append(H([call(0), kill("sock"), {"op": "close"}, call(0)]))
    # failing reconnects of every kind
    cs.append(H([{"op": "fault", "f": ["cfgerr", "newerr", "hsconn", "hsauth"]}, call(0), call(0), call(1), call(1), call(2), call(2, "err")]))
    cs.append(H([call(0), kill("srv"), {"op": "fault", "f": ["hsauth", "cfgerr"]}, call(0), call(0), call(0), call(0), {"op": "close"}, call(0)], lazy=False))
    for f in ("cfgerr", "newerr", "hsconn", "hsauth"):
        cs.append(H([call(0)], lazy=False, init=f))
    # stream limit
    cs.append(H([call(0), {"op": "fill"}, call(0), call(1), call(0, kind="udp")], lazy=False))
    cs.append(H([call(0, "gate"), {"op": "fill"}, call(1), {"op": "release", "g": 0, "how": "ok"}, call(0)]))
    # UDP disabled: DialError even on a dead connection
    cs.append(H([call(0), call(0, kind="udp"), kill("sock"), call(0, kind="udp"), call(0), call(0)], udp=False))
    cs.append(H([call(0, kind="udp"), kill("srv"), call(0, kind="udp"), call(1, kind="udp"), call(0)], udp=True))
    # bursts
    cs.append(H([{"op": "burst", "n": 3, "kind": "tcp", "mode": "ok"}, kill("sock"), {"op": "burst", "n": 4, "kind": "tcp", "mode": "ok"},
                 {"op": "burst", "n": 3, "kind": "tcp", "mode": "err"}]))
    cs.append(H([{"op": "fault", "f": ["cfgerr", "hsauth"]}, {"op": "burst", "n": 4, "kind": "tcp", "mode": "ok"}, kill("srv"),
                 {"op": "fault", "f": ["newerr"]}, {"op": "burst", "n": 3, "kind": "udp", "mode": "ok"}, call(0)], lazy=False))
    return cs


def hcall(g, hold, mode="ok", kind="tcp"):
    c = call(g, mode, kind)
    c["hold"] = list(hold)
    return c


def opn(g):
    return {"op": "open", "g": g}


CLOSE = {"op": "close"}
STAGES = ("cfg", "new", "hs")   # inside configFunc / inside ConnFactory.New before the socket exists / after it exists (before the handshake)


def scripted_held(rng):
    """A call is held inside a callback of its reconnect() while other goroutines call TCP()/UDP() and Close; the holds are
    opened in a chosen order.  reconnect.go keeps rc.m across reconnect(): everybody else has to queue up behind it."""
    cs = []
    # second and third caller arrive during the (slow) config evaluation of the first use
    cs.append(H([hcall(0, ["cfg"]), call(1), call(2, kind="udp"), opn(0), {"op": "await", "g": 1}, call(3), CLOSE, call(0)]))
    # Close arrives during the config evaluation / inside the factory / before the handshake
    cs.append(H([hcall(0, ["cfg"]), CLOSE, opn(0), call(1)]))
    cs.append(H([hcall(0, ["new"]), call(1), CLOSE, opn(0), call(2)]))
    cs.append(H([call(0), kill("sock"), call(0), hcall(0, ["hs"]), CLOSE, call(1), opn(0)], lazy=False))
    # after a loss: reconnect held twice, two more callers (one parks in the server's dial), opened one by one
    cs.append(H([call(0), kill("srv"), call(1), hcall(0, ["cfg", "hs"]), call(1), call(2, "gate"), opn(0), opn(0),
                 {"op": "release", "g": 2, "how": "ok"}, call(3), CLOSE], lazy=False))
    # two callers that both ask for a hold in configFunc, opened in the reverse order
    cs.append(H([hcall(0, ["cfg"]), hcall(1, ["cfg"]), opn(1), opn(0), call(2)]))
    cs.append(H([hcall(1, ["cfg", "new"]), hcall(0, ["cfg", "new"]), hcall(2, ["hs"]), opn(0), opn(1), opn(2), opn(1), opn(0), call(3), CLOSE]))
    # held reconnects that fail: the next caller in the queue reconnects on its own
    cs.append(H([{"op": "fault", "f": ["hsauth"]}, hcall(0, ["cfg"]), call(1), opn(0), call(0)]))
    cs.append(H([{"op": "fault", "f": ["cfgerr", "newerr"]}, hcall(0, ["cfg"]), hcall(1, ["new"]), call(2), opn(0), opn(1), call(0)]))
    return cs


def random_held(rng):
    steps = []
    lazy = rng.random() < 0.6
    if not lazy or rng.random() < 0.4:
        # a lost connection that has been noticed: no live client
        steps += [call(0), kill(rng.choice(["sock", "srv"])), call(rng.randrange(NG))]
    if rng.random() < 0.3:
        steps.append({"op": "fault", "f": [rng.choice(["cfgerr", "newerr", "hsconn", "hsauth", "ok"]) for _ in range(rng.randint(1, 2))]})
    gs = list(range(NG))
    rng.shuffle(gs)
    gs = gs[:rng.randint(2, NG)]
    holds = {}
    body = []
    for i, g in enumerate(gs):
        hs = []
        if i == 0 or rng.random() < 0.5:
            hs = [x for x in STAGES if rng.random() < 0.5] or [rng.choice(STAGES)]
        holds[g] = hs
        body.append(hcall(g, hs, mode=rng.choice(["ok", "ok", "err", "gate"]) if i else "ok", kind="udp" if rng.random() < 0.15 else "tcp"))
    if rng.random() < 0.5:
        body.insert(rng.randint(1, len(body)), CLOSE)
    steps += body
    opens = [g for g in gs for _ in holds[g]]
    rng.shuffle(opens)
    if rng.random() < 0.3 and opens:
        # something else arrives between two opens
        unused = [g for g in range(NG) if g not in gs]
        if CLOSE not in body:
            opens.insert(rng.randrange(len(opens)), CLOSE)
        elif unused:
            opens.insert(rng.randrange(len(opens)), call(unused[0], "ok"))
    steps += [x if isinstance(x, dict) else opn(x) for x in opens]
    for _ in range(rng.randint(0, 3)):
        r = rng.random()
        if r < 0.5:
            steps.append(call(rng.randrange(NG), rng.choice(["ok", "err"])))
        elif r < 0.75:
            steps.append(CLOSE)
        else:
            steps.append(kill(rng.choice(["sock", "srv"])))
    return H(steps, lazy=lazy, udp=rng.random() < 0.8)


def random_hist(rng, long=False):
    steps = []
    n = rng.randint(6, 22 if long else 14)
    parked = set()
    closed = False
    for _ in range(n):
        r = rng.random()
        if r < 0.40:
            idle = [g for g in range(NG) if g not in parked]
            if not idle:
                g = rng.choice(sorted(parked))
                steps.append({"op": "release", "g": g, "how": rng.choice(["ok", "err"])})
                parked.discard(g)
                continue
            g = rng.choice(idle)
            kind = "udp" if rng.random() < 0.15 else "tcp"
            mode = rng.choice(["ok", "ok", "err", "gate", "gate"]) if len(parked) < 3 else rng.choice(["ok", "err"])
            steps.append(call(g, mode, kind))
            if mode == "gate" and kind == "tcp":
                parked.add(g)
        elif r < 0.58:
            steps.append(kill(rng.choice(["sock", "srv"])))
        elif r < 0.70 and parked:
            g = rng.choice(sorted(parked))
            steps.append({"op": rng.choice(["release", "await"]), "g": g, "how": rng.choice(["ok", "err"])})
            parked.discard(g)
        elif r < 0.80:
            steps.append({"op": "fault", "f": [rng.choice(["cfgerr", "newerr", "hsconn", "hsauth", "ok"]) for _ in range(rng.randint(1, 2))]})
        elif r < 0.86 and not parked:
            steps.append({"op": "burst", "n": rng.randint(2, 4), "kind": "tcp", "mode": rng.choice(["ok", "ok", "err"])})
        elif r < 0.91 and len(steps) * 2 >= n and (not closed or rng.random() < 0.3):
            steps.append({"op": "close"})
            closed = True
        elif r < 0.94:
            steps.append({"op": "fill"})
        else:
            steps.append(call(rng.randrange(NG), "ok"))
    lazy = rng.random() < 0.5
    return H(steps, lazy=lazy, udp=rng.random() < 0.8, init=rng.choice(["ok", "ok", "ok", "ok", "hsauth"]))


FAILS = ("cfgerr", "newerr", "hsconn", "hsauth")   # configFunc error / ConnFactory.New error / TLS failure / auth rejection


def scripted_after_failure(rng):
    """A connection attempt fails (every kind: config error, dial error, handshake error, auth failure); the NEXT thing that
    happens to the same reconnectable client is a TCP() / a UDP() / a Close().  reconnect.go: a failed attempt leaves no client
    behind, so the next call makes an attempt of its own (which may succeed: count goes on from where it was) and Close after a
    failed attempt has nothing to close.  The attempt that fails is the first use of a lazy client or the reconnect after a loss
    that has been noticed (eager start, kill, a call that returns ClosedError); one or two failures in a row."""
    cs = []
    for f in FAILS:
        for nxt in ("tcp", "udp", "close"):
            step = CLOSE if nxt == "close" else call(0, kind=nxt)
            twice = rng.random() < 0.4
            pre = []
            lazy = rng.random() < 0.5
            if not lazy:
                pre = [call(0), kill(rng.choice(["sock", "srv"])), call(0)]
            fl = [f, rng.choice(FAILS)] if twice else [f]
            steps = pre + [{"op": "fault", "f": fl}] + [call(0, kind=rng.choice(["tcp", "udp"])) for _ in fl[:-1]] + [call(0), step]
            # ... and afterwards: another goroutine, the other kind of call, Close (again)
            steps += [call(1, kind="udp" if nxt == "tcp" else "tcp"), call(0), CLOSE, call(rng.randrange(NG), kind=rng.choice(["tcp", "udp"]))]
            cs.append(H(steps, lazy=lazy, udp=True))
    # the failing attempt is the last thing before Close, on a client that never had a connection, and Close twice
    cs.append(H([{"op": "fault", "f": [rng.choice(FAILS[1:])]}, call(0, kind="udp"), CLOSE, CLOSE, call(1)]))
    return cs


# ---------------------------------------------------------------- the ways a connection can die
# how the harness kills the connection / what quic-go then reports (model/C16_Loss.v errkind):
#   sock       reading from the local socket fails            -> transport closed
#   sockclose  the local socket is closed under the transport -> transport closed
#   srv        the server disconnects the client              -> application error (remote)
#   idle       the path goes silent                           -> idle timeout
#   reset      the server restarts (same address, same stateless reset key, no memory of its connections)
#                                                             -> stateless reset (or idle timeout if the reset is not recognised)
# (how, noparrot, idle seconds): the client configuration decides how a loss shows up: with DisableChromeParrot the
# connection ids are non-empty; the idle timeout is the minimum of both ends
LOSSES = (("sock", False, 0), ("sockclose", False, 0), ("srv", False, 0), ("srv", True, 0), ("idle", False, 4), ("idle", True, 4),
          ("reset", True, 0), ("reset", False, 4), ("reset", True, 4), ("sock", True, 0), ("sockclose", True, 4))
FAST_LOSSES = tuple(x for x in LOSSES if x[0] not in ("idle",))
HS_FAILS = ("hsvn", "hsblack")      # the peer offers no QUIC version we speak / the peer never answers


def HL(steps, loss, **kw):
    c = H(steps, **kw)
    c["noparrot"] = bool(loss[1])
    c["idle"] = int(loss[2])
    return c


def scripted_losses(rng, tier):
    """Every way a connection can die x what happens on the reconnectable client next.  After a loss the next call reports it
    (ClosedError) or repairs it, the dead client's socket is closed, at most one socket is open afterwards, and the FOLLOWING
    call succeeds on a fresh connection: the number of failing calls after a loss is bounded."""
    cs = []
    slow = [x for x in LOSSES if x[0] == "idle"]
    fast = list(FAST_LOSSES)
    # the slow ones (an idle timeout takes seconds) are thinned out in the quick tier
    losses = fast + (slow if tier != "quick" else [rng.choice(slow)])
    for loss in losses:
        how = loss[0]
        lazy = rng.random() < 0.5
        # loss, the call that reports it, the call that reconnects, ... on another goroutine, a refused dial, again
        cs.append(HL([call(0), kill(how), call(0), call(0), call(1, "err"), call(1)], loss, lazy=lazy))
    for loss in losses:
        how = loss[0]
        v = rng.randrange(5)
        if v == 0:
            # UDP() is the first to meet the dead connection
            cs.append(HL([call(0), kill(how), call(0, kind="udp"), call(0), call(1, kind="udp")], loss, udp=True))
        elif v == 1:
            # a call is parked inside the server's dial when the connection dies
            cs.append(HL([call(0, "gate"), kill(how), {"op": "await", "g": 0}, call(1), call(1)], loss, lazy=rng.random() < 0.5))
        elif v == 2:
            # two losses in a row, the second one of another kind
            other = rng.choice([x for x in FAST_LOSSES if x[1] == loss[1] and x[2] in (0, loss[2])] or [loss])
            cs.append(HL([call(0), kill(how), call(0), call(1), kill(other[0]), call(1), call(0), call(0)], loss))
        elif v == 3:
            # the reconnect after the loss fails first (every kind of failing attempt, incl. the handshake-level ones)
            f = rng.choice(FAILS + HS_FAILS[:1])
            cs.append(HL([call(0), kill(how), call(0), {"op": "fault", "f": [f]}, call(0), call(0), call(1)], loss, lazy=False))
        else:
            # Close meets the dead client: before / after the loss was reported
            if rng.random() < 0.5:
                cs.append(HL([call(0), kill(how), CLOSE, call(0), call(1, kind="udp")], loss))
            else:
                cs.append(HL([call(0), kill(how), call(0), CLOSE, call(0)], loss, lazy=False))
    # the burst that meets a dead connection: everybody reports the loss or lands on the one fresh connection
    loss = rng.choice(fast)
    cs.append(HL([call(0), kill(loss[0]), {"op": "burst", "n": 3, "kind": "tcp", "mode": "ok"}, call(0), call(1)], loss))
    # handshake-level failures that come from the peer, on first use and after a loss
    cs.append(HL([{"op": "fault", "f": ["hsvn"]}, call(0), call(0), call(1, kind="udp")], ("", rng.random() < 0.5, 0)))
    loss = rng.choice(fast)
    cs.append(HL([call(0), kill(loss[0]), call(1), {"op": "fault", "f": ["hsvn", "hsconn"]}, call(1), call(0), call(0)], loss, lazy=False))
    cs.append(H([call(0)], lazy=False, init="hsvn"))
    if tier != "quick" or rng.random() < 0.5:
        cs.append(HL([{"op": "fault", "f": ["hsblack"]}, call(0), call(0)], ("", rng.random() < 0.5, 0)))
    return cs


def random_loss(rng):
    """random script over one client configuration: calls from goroutines 0-3, losses of every (fast) kind that configuration
    can show, failing reconnects, Close near the end"""
    np = rng.random() < 0.5
    idle = rng.choice([0, 0, 4])
    hows = [x[0] for x in FAST_LOSSES if x[1] == np and x[2] in (0, idle)] + ["sock", "srv", "sockclose"]
    if np:
        hows += ["reset", "reset"]
    steps = []
    n = rng.randint(6, 12)
    for i in range(n):
        r = rng.random()
        if r < 0.55:
            steps.append(call(rng.randrange(NG), rng.choice(["ok", "ok", "ok", "err"]), "udp" if rng.random() < 0.15 else "tcp"))
        elif r < 0.85:
            steps.append(kill(rng.choice(hows)))
        elif r < 0.93:
            steps.append({"op": "fault", "f": [rng.choice(FAILS + HS_FAILS[:1] + ("ok",))]})
        elif i * 2 >= n:
            steps.append(CLOSE)
        else:
            steps.append({"op": "burst", "n": rng.randint(2, 3), "kind": "tcp", "mode": "ok"})
    return HL(steps, ("", np, idle), lazy=rng.random() < 0.5, udp=rng.random() < 0.8)


def gen(rng, tier):
    cases = [{"k": "class"}] + scripted(rng)
    nrand = 10 if tier == "quick" else 700
    for _ in range(nrand):
        cases.append(random_hist(rng, long=(tier != "quick")))
    # appended after the existing stream so that the histories above stay what they were for a given seed
    cases += scripted_held(rng)
    for _ in range(8 if tier == "quick" else 300):
        cases.append(random_held(rng))
    # (again appended last: the stream above is unchanged for a given seed)
    cases += scripted_after_failure(rng)
    # (again appended last) the ways a connection can die
    cases += scripted_losses(rng, tier)
    for _ in range(6 if tier == "quick" else 250):
        cases.append(random_loss(rng))
    return cases


# ---------------------------------------------------------------- log -> Coq observation list

RET = {"ok": "TOk", "recov": "TRecov", "closed": "TClosed", "cfgerr": "TCfgErr", "newerr": "TNewErr", "hserr": "THsErr"}
SECTION = ("cfg", "new", "newerr", "sockclose", "connected")


def ev_term(e):
    k = e["e"]
    if k == "cfg":
        return "ECfg %s" % ("true" if e.get("ok") else "false")
    if k == "new":
        return "ENew %d" % e.get("sid", 0)
    if k == "newerr":
        return "ENewErr"
    if k == "sockclose":
        return "ESockClose %d" % e.get("sid", 0)
    if k == "connected":
        return "EConnected %d" % e.get("n", 0)
    raise ValueError(k)


def obs_list(o):
    """The log in log order as Coq terms of type robs: boundary events of locked sections one by one, tagged with the goroutine
    that emitted them (99 = not a calling goroutine, i.e. the caller of rc.Close()); cutting them into sections (and rejecting
    overlapping sections) is done by corr/C16_Corr.v `group`."""
    evs = o["evs"]
    out = []
    assert evs[0]["e"] == "init"
    lazy = bool(evs[0].get("ok"))
    init_evs = []
    i = 1
    while evs[i]["e"] != "initend":
        init_evs.append(evs[i])
        i += 1
    if evs[i].get("r") == "panic":
        # the constructor panicked: nothing the model could say about this log
        return out
    okinit = evs[i].get("r") == "ok"
    i += 1
    out.append("RO (OInit %s [%s] %s)" % ("true" if lazy else "false", "; ".join(ev_term(e) for e in init_evs), "true" if okinit else "false"))
    rest = evs[i:]
    inflight = {}
    for j, e in enumerate(rest):
        k = e["e"]
        by = e.get("by", -1)
        if e.get("r") == "panic":
            # a call (TCP / UDP / Close) ended in a panic: the log is cut here (to_coq wraps it in CPanic)
            break
        if k in SECTION:
            out.append("RE %d (%s)" % (by if by >= 0 else 99, ev_term(e)))
        elif k == "start":
            inflight[e.get("g", 0)] = e.get("n", 0)
            # pruning hint for the acceptor: what this call will return (checked again at its ORet)
            nxt = next((x for x in rest[j + 1:] if x["e"] == "ret" and x.get("g", 0) == e.get("g", 0)), None)
            out.append("RO (OStart %d %s)" % (e.get("g", 0), RET.get(nxt["r"], "TOk") if nxt else "TOk"))
        elif k == "req":
            # logged by the server's goroutine: it can trail the return of a call whose connection was closed under it
            # (Close racing with a request in flight); only a request seen while the call is in flight orders anything
            if inflight.get(e.get("g", 0)) == e.get("n", 0):
                out.append("RO (OReq %d)" % e.get("g", 0))
        elif k == "ret":
            inflight.pop(e.get("g", 0), None)
            out.append("RO (ORet %d %s)" % (e.get("g", 0), RET[e["r"]]))
        elif k == "kill":
            out.append("RO (OKill %d)" % e.get("sid", 0))
        elif k == "closebegin":
            out.append("RO OCloseBegin")
        elif k == "closeend":
            out.append("RO OCloseEnd")
        elif k == "quiet":
            out.append("RO (OQuiet [%s])" % "; ".join(str(x) for x in e.get("o") or []))
        # "hold" / "open" (a call parked inside a callback of its reconnect) are harness-internal
    return out


def to_coq(c, o):
    if c["k"] == "class":
        return "CClass"
    if o.get("skipped"):
        return None
    if o.get("died"):
        # the process died under this history: there is no log (the LTS has no action that ends the process)
        return "CPanic []"
    if not o.get("evs"):
        return "CRaw []"
    if o.get("panicked") or any(e.get("r") == "panic" for e in o["evs"]):
        # every call of the LTS ends in a Ret with one of the six return classes: a call that panics matches no run
        return "CPanic [" + "; ".join(obs_list(o)) + "]"
    if o.get("kinds"):
        return "CRawK [" + "; ".join(obs_list(o)) + "] [" + "; ".join(kind_term(k) for k in o["kinds"]) + "]"
    return "CRaw [" + "; ".join(obs_list(o)) + "]"


# the enum of error kinds, in the order of model/C16_Loss.v all_kinds and of c16Kinds in the Go harness
KINDS = ("streamlimit", "idle", "hstimeout", "appremote", "applocal", "trremote", "trlocal", "crypto", "vneg", "reset",
         "trclosed", "netclosed", "streamreset", "eof", "deadline")


def kind_term(k):
    """(site, kind id, wrapped as ClosedError); an error value of none of the kinds gets the id 99 = no kind of the enum"""
    kid = KINDS.index(k["kind"]) if k.get("kind") in KINDS else 99
    return "(%d, %d, %s)" % (0 if k.get("site") == "wrap" else 1, kid, "true" if k.get("closed") else "false")


def features(c, o):
    evs = o.get("evs") or []
    f = set()
    nconn = sum(1 for e in evs if e["e"] == "connected")
    if nconn >= 2:
        f.add("reconnect")
    if any(e["e"] == "kill" for e in evs):
        f.add("kill")
    if any(e["e"] == "ret" and e.get("r") in ("cfgerr", "newerr", "hserr") for e in evs) or o.get("gone"):
        f.add("failed-connect")
    if any(e["e"] == "closebegin" for e in evs):
        f.add("close")
    if any(e["e"] == "ret" and e.get("r") == "recov" for e in evs):
        f.add("recoverable")
    if any(s.get("op") == "burst" for s in c.get("steps", [])):
        f.add("burst")
    if any(s.get("op") == "fill" for s in c.get("steps", [])):
        f.add("streamlimit")
    if any(s.get("mode") == "gate" for s in c.get("steps", [])):
        f.add("parked")
    if any(e["e"] == "hold" for e in evs):
        f.add("held")
    if o.get("panicked") or o.get("died"):
        f.add("panicked")
    # the ways the connections of this history died, as quic-go reported them
    for e in evs:
        if e["e"] == "lost":
            f.add("lost-" + (e.get("k") or "?").split(":")[0])
    if any(k.get("site") == "connect" for k in o.get("kinds") or []):
        f.add("hs-" + "-".join(sorted({k.get("kind", "?").split(":")[0] for k in o["kinds"] if k.get("site") == "connect"})))
    # the class of scripted_after_failure, recognised in what really happened: a call came back with the error of a failed
    # connection attempt and the next thing started on the client is a TCP() / UDP() / Close()
    failed = False
    for e in evs:
        if e["e"] == "start":
            if failed:
                f.add("fail-then-" + (e.get("k") or "tcp"))
            failed = False
        elif e["e"] == "closebegin":
            if failed:
                f.add("fail-then-close")
            failed = False
        elif e["e"] == "ret" and e.get("r") in ("cfgerr", "newerr", "hserr"):
            failed = True
    return f


def klass(c, o):
    if c["k"] == "class":
        return "classification"
    f = features(c, o)
    return ("lazy" if c.get("lazy") else "eager") + ":" + ("+".join(sorted(f)) if f else "plain")


def nontrivial(c, o):
    if c["k"] == "class":
        return False
    f = features(c, o)
    return bool(f & {"reconnect", "failed-connect", "close"})


def fingerprint(c, o):
    why = o.get("why") or ""
    if "stream limit reached on a live connection was reported as ClosedError" in why:
        return "stream-limit-classified-closed"
    if "harness" in why or "call panicked" in why:
        return None
    if "reconnect on loss:" in why:
        # the table of the class case and the histories are two findings: one names the error type, the other is a history
        return "terminal-error-classified-recoverable" if c.get("k") == "class" else "loss-not-reported-or-repaired"
    if "census:" in why:
        return "socket-census"
    if "after Close" in why:
        return "close-not-final"
    if "one connect per lost connection" in why:
        return "connect-count"
    if "connectedFunc reported count" in why:
        return "connect-count"
    if "evaluated configFunc" in why or "never lost" in why:
        return "reconnect-policy"
    if "was closed" in why and "times with" in why:
        return "socket-closed-more-than-1+nClose"
    return None


def search(ctx, disagreeing):
    """Property-directed search on the implementation alone (no model): more seeds."""
    import random
    found = []
    for s in range(2):
        rng = random.Random(ctx.seed * 1000 + s + 17)
        cases = gen(rng, "quick")
        ok, outs, _, log = common.run_go_cases(ctx, GO, cases, tag="search%d" % s)
        for c, o in zip(cases, outs):
            if o.get("ok") is False:
                found.append({"what": "%s: %s" % (c["k"], o.get("why")), "replay": {"case": c, "impl": o},
                              "fingerprint": fingerprint(c, o), "found_input": True})
        if found:
            break
    return found


# ---------------------------------------------------------------- crash-safe run of the Go harness

def _panic_line(log):
    import re
    m = re.search(r"^(panic: .*|fatal error: .*|SIGSEGV.*|signal: .*)$", log or "", re.M)
    if m:
        return m.group(1).strip()[:300]
    return "TIMEOUT" if (log or "").startswith("TIMEOUT") else "go test died without a panic line"


def _crashsafe(orig):
    """common.run_go_cases for the C16 harness.  The harness writes one record per history as soon as the history is finished
    (any order, each carrying its case index `i`) and appends the index of a history to <out>.started before it starts.  Every
    call of a history runs under recover() there, so a panicking call is an ordinary record with ok=false.  If the test process
    dies all the same (a panic on a goroutine of the code under test, a fatal error, a deadlock that runs into the go test
    timeout) the records are incomplete: the histories that were in flight are then run again in a process of their own with
    ONE worker, so that the history under which the process dies is named by the marker file, and each named history is
    confirmed by a run on its own.  It becomes a failing record (`died`, why = 'harness process died: <first panic line>') = a
    concrete replay.  What had not started yet is run normally again.  The number of extra go test runs is bounded; histories
    left over when the bound is hit (the tree is failing with concrete replays by then) are marked `skipped`."""
    import os

    def batch(ctx, gospec, cases, idxs, tag, timeout, race, workers=None):
        mark = ctx.path("out_%s.jsonl.started" % tag)
        if os.path.exists(mark):
            os.remove(mark)
        old = os.environ.get("VERIF_C16_WORKERS")
        if workers is not None:
            os.environ["VERIF_C16_WORKERS"] = str(workers)
        try:
            ok, outs, params, log = orig(ctx, gospec, [cases[i] for i in idxs], tag=tag, timeout=timeout, race=race)
        finally:
            if workers is not None:
                if old is None:
                    os.environ.pop("VERIF_C16_WORKERS", None)
                else:
                    os.environ["VERIF_C16_WORKERS"] = old
        done = {}
        for o in outs:
            j = o.get("i", -1)
            if isinstance(j, int) and 0 <= j < len(idxs):
                o = dict(o)
                o["i"] = idxs[j]
                done[idxs[j]] = o
        started = []
        if os.path.exists(mark):
            for ln in open(mark).read().split():
                if ln.isdigit() and int(ln) < len(idxs):
                    started.append(idxs[int(ln)])
        inflight = [i for i in started if i not in done]
        rest = [i for i in idxs if i not in done and i not in inflight]
        # "died": the test binary was built and got as far as the cases (params are written first), and records are missing
        built = params is not None and "[build failed]" not in log and "[setup failed]" not in log
        died = built and len(done) < len(idxs)
        return {"ok": ok, "done": done, "inflight": inflight, "rest": rest, "died": died, "params": params, "log": log}

    def f(ctx, gospec, cases, tag="main", timeout=900, race=False):
        n = len(cases)
        full, crashed, skipped = {}, {}, []
        budget = [14 if ctx.tier == "quick" else 60]   # extra go test runs
        one_timeout = 150 if not race else 400

        def run(idxs, t, to, workers=None, extra=True):
            if extra:
                budget[0] -= 1
            return batch(ctx, gospec, cases, idxs, t, to, race, workers)

        first = run(list(range(n)), tag, timeout, extra=False)
        params, log = first["params"], first["log"]
        full.update(first["done"])
        if first["died"] and (log.startswith("TIMEOUT") or "panic: test timed out" in log):
            # a hang is not located here (every history has its own watchdogs): reported as a broken run
            return False, [], params, log
        if not first["died"]:
            if first["ok"]:
                return True, [full[i] for i in range(n)], params, log
            return False, ([full[i] for i in range(n)] if len(full) == n else []), params, log
        ctx.say("C16 harness process died (%s) with %d of %d records written; %d histories in flight: locating the one that kills it"
                % (_panic_line(log), len(first["done"]), n, len(first["inflight"])))
        r = first
        rnd = 0
        while True:
            # 1. the histories that were in flight, one at a time in one process: the marker names the one under which it dies
            seq = list(r["inflight"])
            if not seq:
                return False, [], params, log       # nothing was in flight: no history to name (tie broken, no concrete input)
            while seq and budget[0] > 0:
                q = run(seq, "%s_seq%d" % (tag, rnd), one_timeout * 2, workers=1)
                rnd += 1
                full.update(q["done"])
                if not q["died"]:
                    if len(q["done"]) < len(seq):
                        return False, [], params, q["log"]
                    seq = []
                    break
                if not q["inflight"]:
                    return False, [], params, q["log"]
                # 2. confirm on its own (a goroutine left behind by the history before it could have been the one)
                j = q["inflight"][0]
                pos = seq.index(j)
                hit = None
                for t in [j] + ([seq[pos - 1]] if pos > 0 else []):
                    if budget[0] <= 0:
                        break
                    c1 = run([t], "%s_one%d" % (tag, rnd), one_timeout, workers=1)
                    rnd += 1
                    if c1["died"]:
                        hit = (t, c1["log"])
                        break
                    full.update(c1["done"])
                if hit is None:
                    # dies in company only: the history in flight is the best that can be named
                    hit = (j, q["log"])
                    ctx.say("history %d kills the process only in sequence with its predecessors" % j)
                crashed[hit[0]] = hit[1]
                full.pop(hit[0], None)
                seq = [i for i in seq if i not in full and i not in crashed]
            if not crashed:
                return False, [], params, log
            later = [i for i in seq + r["rest"] if i not in full and i not in crashed]
            if not later:
                break
            if budget[0] <= 0:
                skipped = later
                break
            # 3. what had not started yet: a normal run again
            r = run(later, "%s_rest%d" % (tag, rnd), timeout)
            rnd += 1
            full.update(r["done"])
            if not r["died"]:
                if len(r["done"]) < len(later):
                    return False, [], params, r["log"]
                break
        for i in skipped:
            if i not in full:
                full[i] = {"i": i, "ok": True, "why": "", "skipped": True, "evs": []}
        for i, lg in crashed.items():
            full[i] = {"i": i, "ok": False, "died": True, "evs": [], "why": "harness process died: " + _panic_line(lg),
                       "crash_log": lg[-2500:]}
        if len(full) < n:
            return False, [], params, log
        ctx.say("process death located: histories %s; %d histories not run again" % (sorted(crashed), len(skipped)))
        return True, [full[i] for i in range(n)], params, log
    return f


def run(ctx):
    import sys
    orig = common.run_go_cases
    common.run_go_cases = _crashsafe(orig)
    try:
        return _run(ctx, sys.modules[__name__])
    finally:
        common.run_go_cases = orig


def _run(ctx, mod):
    import random
    if ctx.tier != "thorough":
        return common.run_case_check(ctx, mod)
    # thorough: additionally run the quick histories (incl. the free-running bursts) under the race detector
    cases = gen(random.Random(ctx.seed), "quick")
    ok, outs, _, log = common.run_go_cases(ctx, GO, cases, tag="race", timeout=1500, race=True)
    extra = []
    if not ok or "DATA RACE" in log:
        extra.append({"what": "go test -race on the reconnecting-client histories failed: " + log.strip()[-600:],
                      "replay": {"broken": "race pass", "log": log[-6000:]}, "fingerprint": None, "found_input": False})
    for c, o in zip(cases, outs):
        if o.get("ok") is False:
            extra.append({"what": "%s (race build): %s" % (c["k"], o.get("why")), "replay": {"case": c, "impl": o},
                          "fingerprint": fingerprint(c, o), "found_input": True})
    ctx.say("race pass: %d histories, ok=%s" % (len(outs), ok and not extra))
    orig = common.finish

    def fin(ctx2, pinfo, cov, violations, assumptions, **kw):
        cov = dict(cov)
        cov["race_pass"] = {"histories": len(outs), "clean": not extra}
        return orig(ctx2, pinfo, cov, list(violations) + extra, assumptions, **kw)
    common.finish = fin
    try:
        return common.run_case_check(ctx, mod)
    finally:
        common.finish = orig


def replay(ctx, path):
    r = json.load(open(path))
    c = r["replay"].get("case")
    if not c:
        print("replay file names a broken obligation/correspondence, no concrete input:", r["what"])
        return 1
    ok, outs, _, log = _crashsafe(common.run_go_cases)(ctx, GO, [c], tag="replay")
    print(json.dumps(outs, indent=1))
    if not outs:
        print(log[-3000:])
    return 0 if outs and outs[0].get("ok") else 1


LEVEL_TEXT = ("Machine-checked Coq theorems over a labelled transition system transcribed from reconnect.go (actions = the atomic sections "
              "of clientDo, Close, and the environment's kills and fault choices): for every interleaving of any number of goroutines, kills, "
              "failing reconnects and Close calls, at most one factory socket is open and it belongs to the current client, every superseded "
              "socket is closed, a lost connection makes the observing call return ClosedError and the next call re-evaluates the config and "
              "reports count+1 - for every kind of terminal connection error of a finite enum (idle timeout, application / transport close from either side, TLS alert, version negotiation, stateless reset, transport or socket closed), the classification being an oracle read off the tree on every run, total over the enum, with the stream limit as the only recoverable kind, and exactly one failing call per loss - recoverable results change nothing, and Close is final; a variant that leaves rc.m while configFunc runs is refuted "
              "(two sockets at a quiescent point, a socket created after Close), which is why a whole reconnect() is one action. The model is tied to /repo on every run by replaying "
              "the boundary logs of real client/server histories against the LTS in the kernel (vm_compute) and by a regenerated "
              "classification table. The acceptor used for that replay is proved sound: every accepted log is the visible projection of a strict run of the LTS from a start state, "
              "so it inherits the census and close-final theorems (stated as log monitors).")
LEVEL_NOTE = ("Trusted: Coq kernel + vm_compute; hand-written model; the log acceptor is proved sound, its completeness is only tested on all bounded runs (tie is sampled: ~50 histories quick; the acceptor cuts the raw log into locked sections itself and rejects overlapping sections); python/Go glue. "
              "No axioms. Not proved: quic-go's loss detection latency; that clientImpl.Close closes its PacketConn (census-checked).")
TECHNIQUE = "Coq proof (invariant over all interleavings of an atomic-section LTS) + replay of recorded boundary logs against the LTS in vm_compute"
DESIGN_REF = "DESIGN.md section 4 C16"
