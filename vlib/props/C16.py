"""C16 - Reconnecting client: one live connection, reconnect on loss, Close is final (DESIGN.md section 4, C16)."""
import json

from vlib import common

GO = dict(module="core", pkg="client", pkgname="client",
          files={"zz_verif_c16_test.go": "c16/c16_test.go"}, run="TestVerifC16")
PARAMS_NAME = "ParamsC16"
HEADER = ("From Hy Require Import model.C16_Reconnect corr.C16_Corr.\nFrom Coq Require Import List.\nImport ListNotations.\n")
RULE = ("seeded generator of fault histories run on the real NewReconnectableClient against a real hysteria server on loopback "
        "(one server per history, counting ConnFactory with a kill switch): scripted scenarios (loss + reconnect, two goroutines on the "
        "same dead client, stale second locked section after another goroutine already reconnected, Close with calls parked inside the "
        "server's dial, Close twice, every failing reconnect kind: config error / factory error / TLS failure / auth rejection, eager and "
        "lazy start incl. failing eager start, stream-limit exhaustion, UDP-disabled DialError on a dead connection, concurrent bursts on "
        "nil/dead/closed clients) plus random scripts of calls from goroutines 0-3, kills (local socket failure or server-initiated "
        "disconnect), fault queues, Close at any point. Non-trivial = the history contains a second successful connect, a failing "
        "reconnect, or a Close. Distinct = distinct JSON script.")
ASSUMPTIONS = [
    "quic-go reports a lost connection (OpenStream / stream I/O fail with a permanent error) once the connection context is done; how fast it notices a silent peer is not modelled",
    "clientImpl.Close closes the PacketConn it got from the factory exactly once per call (part of the model as read; checked by the harness census on every history)",
    "configFunc / connectedFunc / ConnFactory are called back on the goroutine that holds rc.m (true of the code as read; the harness attributes boundary events to goroutines that way)",
]
TRUSTED = ["modelled rather than verified: core/client/reconnect.go, the cleanup paths of connect() and wrapIfConnectionClosed in core/client/client.go (hand transcription in coq/model/C16_Reconnect.v); the log acceptor in coq/corr/C16_Corr.v (searches the hidden sections)"]
PER_SHARD = 400
EXTRA_TARGETS = ["corr/C16_Corr.vo"]
NG = 4


def call(g, mode="ok", kind="tcp"):
    return {"op": "call", "g": g, "kind": kind, "mode": mode}


def kill(how="sock"):
    return {"op": "kill", "how": how}


def H(steps, lazy=True, udp=True, init=None):
    c = {"k": "hist", "lazy": lazy, "udp": udp, "steps": steps}
    if not lazy:
        c["init"] = init or "ok"
    return c


def scripted(rng):
    cs = []
    for how in ("sock", "srv"):
        for lazy in (True, False):
            cs.append(H([call(0), kill(how), call(0), call(0), call(1, "err"), call(0)], lazy=lazy))
    # two goroutines parked on the same client when it dies
    cs.append(H([call(0, "gate"), call(1, "gate"), kill("srv"), {"op": "await", "g": 0}, {"op": "await", "g": 1}, call(2), call(0)], lazy=False))
    cs.append(H([call(0, "gate"), call(1, "gate"), kill("sock"), call(2), {"op": "await", "g": 1}, {"op": "await", "g": 0}, call(3)]))
    # stale second locked section: g0 is parked on c1; g1 notices the loss and reconnects; g0 comes back late
    cs.append(H([call(0, "gate"), kill("sock"), call(1), call(1), {"op": "await", "g": 0}, call(2), call(0)]))
    cs.append(H([call(0, "gate"), kill("srv"), call(1), call(1, "gate"), {"op": "await", "g": 0}, {"op": "release", "g": 1, "how": "ok"}, call(0)], lazy=False))
    # Close with parked calls, Close twice, calls after Close
    cs.append(H([call(0, "gate"), {"op": "close"}, {"op": "await", "g": 0}, call(1), call(0, kind="udp")]))
    cs.append(H([call(0), {"op": "close"}, {"op": "close"}, call(0), {"op": "burst", "n": 3, "kind": "tcp", "mode": "ok"}], lazy=False))
    cs.append(H([{"op": "close"}, call(0), call(1, kind="udp")]))
    cs.append(H([call(0, "gate"), call(1, "gate"), kill("sock"), {"op": "close"}, {"op": "await", "g": 0}, {"op": "await", "g": 1}, call(2)]))
    cs.append(H([call(0), kill("sock"), {"op": "close"}, call(0)]))
    # failing reconnects of every kind
    cs.append(H([{"op": "fault", "f": ["cfgerr", "newerr", "hsconn", "hsauth"]}, call(0), call(0), call(1), call(1), call(2), call(2, "err")]))
    cs.append(H([call(0), kill("srv"), {"op": "fault", "f": ["hsauth", "cfgerr"]}, call(0), call(0), call(0), call(0), {"op": "close"}, call(0)], lazy=False))
    for f in ("cfgerr", "newerr", "hsconn", "hsauth"):
        cs.append(H([call(0)], lazy=False, init=f))
    # stream limit
    cs.append(H([call(0), {"op": "fill"}, call(0), call(1), call(0, kind="udp")], lazy=False))
    cs.append(H([call(0, "gate"), {"op": "fill"}, call(1), {"op": "release", "g": 0, "how": "ok"}, call(0)]))
    # UDP disabled: DialError even on a dead connection
    cs.append(H([call(0), call(0, kind="udp"), kill("sock"), call(0, kind="udp"), call(0), call(0)], udp=False))
    cs.append(H([call(0, kind="udp"), kill("srv"), call(0, kind="udp"), call(1, kind="udp"), call(0)], udp=True))
    # bursts
    cs.append(H([{"op": "burst", "n": 3, "kind": "tcp", "mode": "ok"}, kill("sock"), {"op": "burst", "n": 4, "kind": "tcp", "mode": "ok"},
                 {"op": "burst", "n": 3, "kind": "tcp", "mode": "err"}]))
    cs.append(H([{"op": "fault", "f": ["cfgerr", "hsauth"]}, {"op": "burst", "n": 4, "kind": "tcp", "mode": "ok"}, kill("srv"),
                 {"op": "fault", "f": ["newerr"]}, {"op": "burst", "n": 3, "kind": "udp", "mode": "ok"}, call(0)], lazy=False))
    return cs


def random_hist(rng, long=False):
    steps = []
    n = rng.randint(6, 22 if long else 14)
    parked = set()
    closed = False
    for _ in range(n):
        r = rng.random()
        if r < 0.40:
            idle = [g for g in range(NG) if g not in parked]
            if not idle:
                g = rng.choice(sorted(parked))
                steps.append({"op": "release", "g": g, "how": rng.choice(["ok", "err"])})
                parked.discard(g)
                continue
            g = rng.choice(idle)
            kind = "udp" if rng.random() < 0.15 else "tcp"
            mode = rng.choice(["ok", "ok", "err", "gate", "gate"]) if len(parked) < 3 else rng.choice(["ok", "err"])
            steps.append(call(g, mode, kind))
            if mode == "gate" and kind == "tcp":
                parked.add(g)
        elif r < 0.58:
            steps.append(kill(rng.choice(["sock", "srv"])))
        elif r < 0.70 and parked:
            g = rng.choice(sorted(parked))
            steps.append({"op": rng.choice(["release", "await"]), "g": g, "how": rng.choice(["ok", "err"])})
            parked.discard(g)
        elif r < 0.80:
            steps.append({"op": "fault", "f": [rng.choice(["cfgerr", "newerr", "hsconn", "hsauth", "ok"]) for _ in range(rng.randint(1, 2))]})
        elif r < 0.86 and not parked:
            steps.append({"op": "burst", "n": rng.randint(2, 4), "kind": "tcp", "mode": rng.choice(["ok", "ok", "err"])})
        elif r < 0.91 and len(steps) * 2 >= n and (not closed or rng.random() < 0.3):
            steps.append({"op": "close"})
            closed = True
        elif r < 0.94:
            steps.append({"op": "fill"})
        else:
            steps.append(call(rng.randrange(NG), "ok"))
    lazy = rng.random() < 0.5
    return H(steps, lazy=lazy, udp=rng.random() < 0.8, init=rng.choice(["ok", "ok", "ok", "ok", "hsauth"]))


def gen(rng, tier):
    cases = [{"k": "class"}] + scripted(rng)
    nrand = 10 if tier == "quick" else 700
    for _ in range(nrand):
        cases.append(random_hist(rng, long=(tier != "quick")))
    return cases


# ---------------------------------------------------------------- log -> Coq observation list

RET = {"ok": "TOk", "recov": "TRecov", "closed": "TClosed", "cfgerr": "TCfgErr", "newerr": "TNewErr", "hserr": "THsErr"}
SECTION = ("cfg", "new", "newerr", "sockclose", "connected")


def ev_term(e):
    k = e["e"]
    if k == "cfg":
        return "ECfg %s" % ("true" if e.get("ok") else "false")
    if k == "new":
        return "ENew %d" % e.get("sid", 0)
    if k == "newerr":
        return "ENewErr"
    if k == "sockclose":
        return "ESockClose %d" % e.get("sid", 0)
    if k == "connected":
        return "EConnected %d" % e.get("n", 0)
    raise ValueError(k)


def group_continues(grp, e):
    """grammar of the boundary events of one reconnect(): cfg(ok) (newerr | new s (sockclose s | connected))"""
    if not grp:
        return False
    first, last = grp[0], grp[-1]
    if first["e"] != "cfg" or not first.get("ok"):
        return False
    if last["e"] == "cfg":
        return e["e"] in ("new", "newerr")
    if last["e"] == "new" and len(grp) == 2:
        return e["e"] == "connected" or (e["e"] == "sockclose" and e.get("sid", 0) == last.get("sid", 0))
    return False


def obs_list(o):
    """Returns a list of Coq terms of type obs."""
    evs = o["evs"]
    out = []          # entries: str or ["sec", who, [events]] / ["closesec", [events]]
    i = 0
    assert evs[0]["e"] == "init"
    lazy = bool(evs[0].get("ok"))
    init_evs = []
    i = 1
    while evs[i]["e"] != "initend":
        init_evs.append(evs[i])
        i += 1
    okinit = evs[i].get("r") == "ok"
    i += 1
    out.append("OInit %s [%s] %s" % ("true" if lazy else "false", "; ".join(ev_term(e) for e in init_evs), "true" if okinit else "false"))
    openg = {}
    in_close = False
    rest = evs[i:]
    for j, e in enumerate(rest):
        k = e["e"]
        by = e.get("by", -1)
        if k in SECTION:
            if by < 0:
                if in_close:
                    g = openg.get(-1)
                    if g is None:
                        g = ["closesec", []]
                        openg[-1] = g
                        out.append(g)
                    g[1].append(e)
                else:
                    out.append(["sec", 99, [e]])      # nobody should be closing here: will be rejected
                continue
            g = openg.get(by)
            if g is not None and group_continues(g[2], e):
                g[2].append(e)
            else:
                g = ["sec", by, [e]]
                openg[by] = g
                out.append(g)
            continue
        if k == "start":
            openg.pop(e.get("g", 0), None)
            # pruning hint for the acceptor: what this call will return (checked again at its ORet)
            nxt = next((x for x in rest[j + 1:] if x["e"] == "ret" and x.get("g", 0) == e.get("g", 0)), None)
            out.append("OStart %d %s" % (e.get("g", 0), RET[nxt["r"]] if nxt else "TOk"))
        elif k == "req":
            out.append("OReq %d" % e.get("g", 0))
        elif k == "ret":
            openg.pop(e.get("g", 0), None)
            out.append("ORet %d %s" % (e.get("g", 0), RET[e["r"]]))
        elif k == "kill":
            out.append("OKill %d" % e.get("sid", 0))
        elif k == "closebegin":
            in_close = True
            openg.pop(-1, None)
            out.append("OCloseBegin")
        elif k == "closeend":
            in_close = False
            openg.pop(-1, None)
            out.append("OCloseEnd")
        elif k == "quiet":
            out.append("OQuiet [%s]" % "; ".join(str(x) for x in e.get("o") or []))
    terms = []
    for x in out:
        if isinstance(x, str):
            terms.append(x)
        elif x[0] == "sec":
            terms.append("OSec %d [%s]" % (x[1], "; ".join(ev_term(e) for e in x[2])))
        else:
            terms.append("OCloseSec [%s]" % "; ".join(ev_term(e) for e in x[1]))
    return terms


def to_coq(c, o):
    if c["k"] == "class":
        return "CClass"
    if not o.get("evs"):
        return "CHist []"
    return "CHist [" + "; ".join(obs_list(o)) + "]"


def features(c, o):
    evs = o.get("evs") or []
    f = set()
    nconn = sum(1 for e in evs if e["e"] == "connected")
    if nconn >= 2:
        f.add("reconnect")
    if any(e["e"] == "kill" for e in evs):
        f.add("kill")
    if any(e["e"] == "ret" and e.get("r") in ("cfgerr", "newerr", "hserr") for e in evs) or o.get("gone"):
        f.add("failed-connect")
    if any(e["e"] == "closebegin" for e in evs):
        f.add("close")
    if any(e["e"] == "ret" and e.get("r") == "recov" for e in evs):
        f.add("recoverable")
    if any(s.get("op") == "burst" for s in c.get("steps", [])):
        f.add("burst")
    if any(s.get("op") == "fill" for s in c.get("steps", [])):
        f.add("streamlimit")
    if any(s.get("mode") == "gate" for s in c.get("steps", [])):
        f.add("parked")
    return f


def klass(c, o):
    if c["k"] == "class":
        return "classification"
    f = features(c, o)
    return ("lazy" if c.get("lazy") else "eager") + ":" + ("+".join(sorted(f)) if f else "plain")


def nontrivial(c, o):
    if c["k"] == "class":
        return False
    f = features(c, o)
    return bool(f & {"reconnect", "failed-connect", "close"})


def fingerprint(c, o):
    why = o.get("why") or ""
    if "stream limit reached on a live connection was reported as ClosedError" in why:
        return "stream-limit-classified-closed"
    if "harness" in why:
        return None
    if "census:" in why:
        return "socket-census"
    if "after Close" in why:
        return "close-not-final"
    if "connectedFunc reported count" in why:
        return "connect-count"
    if "evaluated configFunc" in why or "never lost" in why:
        return "reconnect-policy"
    if "was closed" in why and "times with" in why:
        return "socket-closed-more-than-1+nClose"
    return None


def search(ctx, disagreeing):
    """Property-directed search on the implementation alone (no model): more seeds."""
    import random
    found = []
    for s in range(2):
        rng = random.Random(ctx.seed * 1000 + s + 17)
        cases = gen(rng, "quick")
        ok, outs, _, log = common.run_go_cases(ctx, GO, cases, tag="search%d" % s)
        for c, o in zip(cases, outs):
            if o.get("ok") is False:
                found.append({"what": "%s: %s" % (c["k"], o.get("why")), "replay": {"case": c, "impl": o},
                              "fingerprint": fingerprint(c, o), "found_input": True})
        if found:
            break
    return found


def run(ctx):
    import random
    import sys
    mod = sys.modules[__name__]
    if ctx.tier != "thorough":
        return common.run_case_check(ctx, mod)
    # thorough: additionally run the quick histories (incl. the free-running bursts) under the race detector
    cases = gen(random.Random(ctx.seed), "quick")
    ok, outs, _, log = common.run_go_cases(ctx, GO, cases, tag="race", timeout=1500, race=True)
    extra = []
    if not ok or "DATA RACE" in log:
        extra.append({"what": "go test -race on the reconnecting-client histories failed: " + log.strip()[-600:],
                      "replay": {"broken": "race pass", "log": log[-6000:]}, "fingerprint": None, "found_input": False})
    for c, o in zip(cases, outs):
        if o.get("ok") is False:
            extra.append({"what": "%s (race build): %s" % (c["k"], o.get("why")), "replay": {"case": c, "impl": o},
                          "fingerprint": fingerprint(c, o), "found_input": True})
    ctx.say("race pass: %d histories, ok=%s" % (len(outs), ok and not extra))
    orig = common.finish

    def fin(ctx2, pinfo, cov, violations, assumptions, **kw):
        cov = dict(cov)
        cov["race_pass"] = {"histories": len(outs), "clean": not extra}
        return orig(ctx2, pinfo, cov, list(violations) + extra, assumptions, **kw)
    common.finish = fin
    try:
        return common.run_case_check(ctx, mod)
    finally:
        common.finish = orig


def replay(ctx, path):
    r = json.load(open(path))
    c = r["replay"].get("case")
    if not c:
        print("replay file names a broken obligation/correspondence, no concrete input:", r["what"])
        return 1
    ok, outs, _, log = common.run_go_cases(ctx, GO, [c], tag="replay")
    print(json.dumps(outs, indent=1))
    return 0 if outs and outs[0].get("ok") else 1


LEVEL_TEXT = ("Machine-checked Coq theorems over a labelled transition system transcribed from reconnect.go (actions = the atomic sections "
              "of clientDo, Close, and the environment's kills and fault choices): for every interleaving of any number of goroutines, kills, "
              "failing reconnects and Close calls, at most one factory socket is open and it belongs to the current client, every superseded "
              "socket is closed, a lost connection makes the observing call return ClosedError and the next call re-evaluates the config and "
              "reports count+1, recoverable results change nothing, and Close is final. The model is tied to /repo on every run by replaying "
              "the boundary logs of real client/server histories against the LTS in the kernel (vm_compute) and by a regenerated "
              "classification table.")
LEVEL_NOTE = ("Trusted: Coq kernel + vm_compute; hand-written model and log acceptor (tie is sampled: ~40 histories quick); python/Go glue. "
              "No axioms. Not proved: quic-go's loss detection latency; that clientImpl.Close closes its PacketConn (census-checked).")
TECHNIQUE = "Coq proof (invariant over all interleavings of an atomic-section LTS) + replay of recorded boundary logs against the LTS in vm_compute"
DESIGN_REF = "DESIGN.md section 4 C16"
