"""C17 - Sniffing is transparent to the proxied flow (DESIGN.md section 4, C17)."""
import base64
import itertools
import os
import re
import struct

from vlib import common

GO = dict(module="extras", pkg="sniff", pkgname="sniff",
          files={"zz_verif_c17_test.go": "c17/c17_test.go"}, run="TestVerifC17")
GO_SRV = dict(module="core", pkg="internal/integration_tests", pkgname="integration_tests",
              files={"zz_verif_c17s_test.go": "c17/c17_server_test.go"}, run="TestVerifC17Server")
GO_ALL = [GO, GO_SRV]
PARAMS_NAME = "ParamsC17"
BASE_HEADER = ("From Hy Require Import lib.Harness model.C17_Sniff corr.C17_Corr.\nFrom Coq Require Import ZArith.\n"
               "Local Open Scope N_scope.\n")
HEADER = BASE_HEADER          # gen() appends the stream table (Definition S<i> : list byte := ...)
RULE = ("seeded generator. TCP: ~30 byte streams (HTTP requests with/without Host, host:port and IPv6 Hosts, absolute-URI, 5000-byte header "
        "line, 300 KB header block beyond the 256 KiB limit, malformed/lower-case/3-letter-only requests; TLS ClientHellos with/without SNI, "
        "record length field shortened/lengthened/zero, 0x17 records, two records, the suite's own capture; garbage, 0/1/2-byte streams) x "
        "scripts (whole, all 2-way splits of the first 64 bytes and all 3-way splits of the first 13 (thorough: 64) bytes for five streams, a "
        "deadline/EOF/reset error at every position of the first 48 (thorough: 64) bytes with and without accompanying data, zero-length reads, 150 consecutive empty reads, random chunkings); "
        "LONG first flights: TLS records (ClientHello with/without server name filled by a padding extension, 0x17 records, a lying length field) with bodies of 1023..65535 bytes "
        "and HTTP header blocks of 4094..262147 bytes (around bufio's 4096, 32 KiB, 64 KiB, the 256 KiB limit; Host first or last), aperiodic contents, cut by a deadline/EOF/reset "
        "just before, at and just after every multiple of 1024 (TLS body) / 4096 (HTTP), in the middle of a step, at the last byte of the record / block and behind it, delivered whole or in segments "
        "x request addresses (v4, [v6], domain, without port) and a failing SetReadDeadline. TCP histories of 2..12 hooked streams on one Sniffer "
        "(every ordered pair of flow kinds TLS/HTTP/unrecognised/short: A sniffed, then B, then A's replay looked at; random interleavings of "
        "sniff and look-at events; concurrent sniffing, thorough tier also under -race): every stream's replay ++ unread = sent when looked at "
        "after the other sniffs. UDP: QUIC v1/v2 Initials sealed by the harness's "
        "own RFC 9001 implementation (1-4 byte packet numbers, tokens, 0..20-byte connection IDs, CRYPTO frames in order/reversed/overlapping/"
        "gapped/duplicated/>12 frames, a ClientHello cut into 2..7 frames with a hole of 1..40 bytes in the client random / session id / "
        "server name / padding / extension headers behind the lowest-offset frame or a later one, missing head, missing tail, PING/PADDING, lying frame lengths, wrong keys, Length field too short/long, coalesced trailing bytes, "
        "odd first bytes, unsupported versions), every truncation of a valid packet, bit flips, the suite's capture, garbage, empty. Check: "
        "address shapes (v4, [v6], zone, domain, '@', no port, signed/oversized/non-numeric ports, bracket errors) x RewriteDomain x port "
        "filters x tcp/udp. Non-trivial = the sniffer got past the 3-byte probe or the script has >1 entry (TCP), a CRYPTO payload was "
        "recovered (UDP), the address splits (Check). SERVER side (kind srv, core/internal/integration_tests): a real client and server over loopback QUIC with a RequestHook that "
        "takes put = 0..270 KiB off the stream and hands it back (sizes around the 32 KiB copy buffer, 64 KiB+5, 256 KiB), x rest of the stream x TrafficLogger on/off x fast open on/off x "
        "client write sizes x address rewrite x slow dial x data flowing down; the client finishes first, judged when the server has closed the target connection: the target holds exactly "
        "what the client wrote, was dialled at the hook's address, StreamStats.Tx = bytes delivered, LogTraffic totals between delivered - put and delivered. Distinct = distinct JSON case.")
ASSUMPTIONS = [
    "bufio.Reader + http.ReadRequest, utls.UnmarshalClientHello, AES/AES-GCM/HKDF, net.ParseIP and strconv.Atoi are oracles: any read "
    "pattern / any answer is covered by the theorems, but that the Host/SNI they report is really the one in the bytes is their specification",
    "the consumer's first read asks for at least 3 bytes (bufio's buffer is 4096): with a 1- or 2-byte first read teeReader.Buffer() "
    "would return Pre-rest ++ buf out of order (C17_tcp_small_first_read_refuted); unreachable with bufio",
    "HyStream.Read returns at most len(p) bytes (io.Reader contract); a fired deadline keeps failing until it is reset",
    "sort.Slice returns a permutation of its input (the never-panics theorem needs nothing more; the executable model uses a stable "
    "insertion sort, which is what sort.Slice does for <= 12 frames or distinct offsets)",
    "server side: the target connection's Write keeps the io.Writer contract and the direct write of the putback reports no error (the code drops "
    "that error: C17_server_putback_write_error_is_dropped); the hook hands back exactly what it took off the stream (the sniffer theorems)",
]
TRUSTED = ["modelled rather than verified: extras/sniff/sniff.go and extras/sniff/internal/quic/{header,payload,packet_protector}.go "
           "(hand transcription in coq/model/C17_Sniff.v); net.SplitHostPort/JoinHostPort are transcribed and tied by the Check cases",
           "core/server/server.go handleTCPRequest (hooked path) in coq/model/C17_Putback.v on top of C06's relay LTS (coq/model/C06_Relay.v, buffer size from gen/ParamsC06.v); "
           "tied by replaying the observed Write sizes / LogTraffic arguments / StreamStats of real client+server runs"]
PER_SHARD = 400
EXTRA_TARGETS = ["corr/C17_Corr.vo"]

V1 = 1
V2 = 0x6b3343cf
STREAMS = []          # (bytes, coq expression or None)


def hx(s):
    if isinstance(s, str):
        s = s.encode("latin-1")
    return bytes(s).hex()


def u16(n):
    return struct.pack(">H", n)


def client_hello(rng, sni, pad=0, alpn=False):
    exts = b""
    if sni is not None:
        name = sni.encode("latin-1") if isinstance(sni, str) else sni
        sn = b"\x00" + u16(len(name)) + name
        lst = u16(len(sn)) + sn
        exts += u16(0) + u16(len(lst)) + lst
    exts += u16(10) + u16(4) + u16(2) + u16(0x1d)
    exts += u16(13) + u16(4) + u16(2) + u16(0x0403)
    exts += u16(43) + u16(3) + b"\x02\x03\x04"
    if alpn:
        exts += u16(16) + u16(5) + u16(3) + b"\x02h3"
    if pad:
        exts += u16(21) + u16(pad) + bytes(pad)
    body = (b"\x03\x03" + bytes(rng.randrange(256) for _ in range(32)) + b"\x20" + bytes(rng.randrange(256) for _ in range(32))
            + u16(4) + b"\x13\x01\x13\x02" + b"\x01\x00" + u16(len(exts)) + exts)
    return b"\x01" + struct.pack(">I", len(body))[1:] + body


def record(hs, typ=0x16, ver=b"\x03\x01", cl=None):
    return bytes([typ]) + ver + u16(len(hs) if cl is None else cl) + hs


def suite_samples():
    """the TLS and QUIC captures of /repo/extras/sniff/sniff_test.go (optional)."""
    try:
        src = open(os.path.join(common.REPO, "extras/sniff/sniff_test.go")).read()
        b64 = re.findall(r'DecodeString\("([A-Za-z0-9+/=]+)"\)', src)
        return [base64.b64decode(x) for x in b64]
    except Exception:
        return []


def add_stream(b, expr=None, parts=None):
    STREAMS.append((bytes(b), expr, parts))
    return len(STREAMS) - 1


def sent_bytes(c):
    """the bytes of a tcp case's stream: given as hex ("sent") or as pieces ("sentp", long streams)."""
    if "sent" in c:
        return bytes.fromhex(c["sent"])
    out = b""
    for q in c["sentp"]:
        if q[0] == "l":
            out += bytes.fromhex(q[1])
        elif q[0] == "gd":
            out += common.gen_data(q[1], q[2], q[3])
        else:
            out += bytes([q[1]]) * q[2]
    return out


def tcp(sid, evs, addr="1.2.3.4:80", dlfail=False):
    c = {"k": "tcp", "sid": sid, "evs": [list(e) for e in evs], "addr": hx(addr), "dlfail": dlfail, "sn": len(STREAMS[sid][0])}
    if STREAMS[sid][2] is not None:
        c["sentp"] = STREAMS[sid][2]
    else:
        c["sent"] = STREAMS[sid][0].hex()
    return c


def splits(n, cuts):
    cuts = [0] + list(cuts) + [n]
    return [[cuts[i + 1] - cuts[i], 0] for i in range(len(cuts) - 1)]


def gen_tcp(rng, tier):
    thorough = tier != "quick"
    cases = []
    S = {}
    ch1 = client_hello(rng, "example.org")
    ch_nosni = client_hello(rng, None)
    defs = {
        "h1": b"GET / HTTP/1.1\r\nHost: example.com\r\nUser-Agent: x\r\n\r\n",
        "h2": b"POST /hello HTTP/1.1\r\nHost: example.com:8080\r\nContent-Length: 11\r\n\r\nhello=world",
        "h_nohost": b"GET / HTTP/1.0\r\n\r\ntrailing",
        "h_abs": b"GET http://other.example/x HTTP/1.1\r\nHost: example.com\r\n\r\n",
        "h_v6": b"GET / HTTP/1.1\r\nHost: [2001:db8::1]:8080\r\n\r\n",
        "h_v6np": b"GET / HTTP/1.1\r\nHost: [2001:db8::1]\r\n\r\n",
        "h_porthost": b"GET / HTTP/1.1\r\nHost: :8080\r\n\r\n",
        "h_brk": b"GET / HTTP/1.1\r\nHost: a]b\r\n\r\n",
        "h_long": b"GET / HTTP/1.1\r\nX-Fill: " + b"a" * 5000 + b"\r\nHost: long.example\r\n\r\nbody",
        "h_4095": b"GET / HTTP/1.1\r\nX: " + b"b" * (4096 - 16 - 5 - 2) + b"\r\nHost: edge.example\r\n\r\n",
        "h_bad": b"GET\r\n\r\nrest of it",
        "h_abc": b"abc",
        "h_pri": b"PRI * HTTP/2.0\r\n\r\nSM\r\n\r\n\x00\x00\x12\x04",
        "h_lower": b"get / http/1.1\r\nHost: lower.example\r\n\r\n",
        "h_two": b"GET /a HTTP/1.1\r\nHost: one.example\r\n\r\nGET /b HTTP/1.1\r\nHost: two.example\r\n\r\n",
        "h_partial": b"GET / HTTP/1.1\r\nHost: example.com\r\nUser-Ag",
        "t1": record(ch1),
        "t_nosni": record(ch_nosni),
        "t_short": record(ch1, cl=len(ch1) - 10),
        "t_long_eof": record(ch1, cl=len(ch1) + 20),
        "t_long_more": record(ch1, cl=len(ch1) + 20) + record(b"\x14" * 40, typ=0x17),
        "t_zero": b"\x16\x03\x01\x00\x00" + b"more bytes follow",
        "t_app": record(ch1, typ=0x17, ver=b"\x03\x03"),
        "t_ver10": record(ch1, ver=b"\x03\x0a"),
        "t_colon": record(client_hello(rng, "a:b")),
        "t_trail": record(ch1) + record(b"\x01", typ=0x14, ver=b"\x03\x03") + b"appdata",
        "t_hdr4": b"\x16\x03\x01\x01",
        "g_rand": bytes(rng.randrange(256) for _ in range(40)),
        "g_123": b"\x01\x02\x03\x04\x05\x06\x07\x08\x09\x0a",
        "g_1": b"G",
        "g_2": b"GE",
        "g_0": b"",
        "g_text": b"Wait It's All Ohio? Always Has Been.",
    }
    sm = suite_samples()
    if sm:
        defs["t_suite"] = sm[0]
    for k, v in defs.items():
        S[k] = add_stream(v)
    SIDS.clear()
    SIDS.update(S)
    big = b"GET / HTTP/1.1\r\nX-Big: " + b"a" * 300000 + b"\r\nHost: big.example\r\n\r\n"
    S["h_big"] = add_stream(big, "(%s ++ repeat x61 (N.to_nat 300000) ++ %s)" % (common.coq_bytes(b"GET / HTTP/1.1\r\nX-Big: "),
                                                                        common.coq_bytes(b"\r\nHost: big.example\r\n\r\n")))
    names = [k for k in S if k != "h_big"]

    def addr_for(k):
        return "1.2.3.4:443" if k.startswith("t") else "1.2.3.4:80"

    def ln(k):
        return len(STREAMS[S[k]][0])

    # whole / whole+eof / dlfail / address shapes
    for k in names:
        n = ln(k)
        for a in (addr_for(k), "[::1]:8443", "example.net:8080", "noport", "[::1]", "1.2.3.4:"):
            cases.append(tcp(S[k], [[n, 0]], a))
        cases.append(tcp(S[k], [[n, 1]], addr_for(k)))
        cases.append(tcp(S[k], [[n, 0]], addr_for(k), dlfail=True))
        cases.append(tcp(S[k], [[n, 0], [0, 2]], addr_for(k)))
        cases.append(tcp(S[k], [[0, 0]] * 3 + [[n, 0]] + [[0, 0]] * 2, addr_for(k)))
        cases.append(tcp(S[k], [[1, 0]] * n, addr_for(k)) if n <= 400 else tcp(S[k], [[1, 0]] * 64 + [[n - 64, 0]], addr_for(k)))
    # an error at every position of the first bytes: with the data, after the data, and data continuing afterwards
    for k in names:
        n = ln(k)
        lim = min(n, 64) if thorough else min(n, 48) if k in ("h1", "t1", "t_short") else min(n, 9)
        for pos in range(lim + 1):
            for e in (1, 2, 3):
                if e != 2 and not (thorough or pos <= 6):
                    continue
                cases.append(tcp(S[k], [[pos, e], [n - pos, 0]], addr_for(k)))
                cases.append(tcp(S[k], [[pos, 0], [0, e], [n - pos, 0]], addr_for(k)))
    # exhaustive 2-way and 3-way splits
    for k in ("h1", "h2", "t1", "t_short", "g_rand"):
        n = ln(k)
        m2 = min(64, n - 1)
        for c in range(1, m2 + 1):
            cases.append(tcp(S[k], splits(n, [c]), addr_for(k)))
        m3 = min(64 if thorough else 13, n - 1)
        for c1, c2 in itertools.combinations(range(1, m3 + 1), 2):
            cases.append(tcp(S[k], splits(n, [c1, c2]), addr_for(k)))
    # 150 consecutive empty reads (bufio gives up after 100)
    for k in ("h1", "t1"):
        n = ln(k)
        cases.append(tcp(S[k], [[4, 0]] + [[0, 0]] * 150 + [[n - 4, 0]], addr_for(k)))
        cases.append(tcp(S[k], [[2, 0]] + [[0, 0]] * 150 + [[n - 2, 0]], addr_for(k)))
    # the 256 KiB limit
    nb = len(big)
    cases.append(tcp(S["h_big"], [[nb, 0]]))
    cases.append(tcp(S["h_big"], [[1000, 0], [200000, 0], [nb - 201000, 0]]))
    cases.append(tcp(S["h_big"], [[100000, 2], [nb - 100000, 0]]))
    if thorough:
        cases.append(tcp(S["h_big"], [[7, 0]] + [[50000, 0]] * 5 + [[nb - 250007, 1]]))
    # random chunkings with zero reads and errors
    for _ in range(300 if not thorough else 20000):
        k = rng.choice(names)
        n = ln(k)
        evs = []
        left = n
        while left > 0:
            c = min(left, rng.choice([1, 1, 2, 3, 4, 5, 7, 16, 40, 100, 1000, 4093, 5000]))
            e = 0
            r = rng.random()
            if r < 0.08:
                e = rng.choice([1, 2, 2, 3])
            evs.append([c, e])
            left -= c
            if rng.random() < 0.1:
                evs.append([0, 0 if rng.random() < 0.7 else 2])
        if rng.random() < 0.2:
            evs.append([0, rng.choice([1, 2])])
        if len(evs) > 300:
            continue
        a = rng.choice([addr_for(k)] * 5 + ["[2001:db8::2]:443", "host.example:80", "bad"])
        cases.append(tcp(S[k], evs, a))
    return cases


def big_stream(parts):
    """a long byte stream given as pieces: bytes (literal), ("gd", a, b, n) = gen_data a b n, ("rep", byte, n).
    Returns the stream id; the Coq side gets an expression, never a long literal."""
    bs, ex, js = b"", [], []
    for q in parts:
        if isinstance(q, (bytes, bytearray)):
            if q:
                bs += bytes(q)
                ex.append(common.coq_bytes(q))
                js.append(["l", bytes(q).hex()])
        elif q[0] == "gd":
            bs += common.gen_data(q[1], q[2], q[3])
            ex.append("gen_data %d %d %d" % (q[1], q[2], q[3]))
            js.append(["gd", q[1], q[2], q[3]])
        else:
            bs += bytes([q[1]]) * q[2]
            ex.append("repeat x%02x (N.to_nat %d)" % (q[1], q[2]))
            js.append(["rep", q[1], q[2]])
    return add_stream(bs, "(" + " ++ ".join(ex or ["[]"]) + ")", js)


def aperiodic(rng, n):
    """n bytes as gen_data pieces of unequal lengths and different multipliers: no shift of the stream by a multiple of a
    power of two maps it onto itself."""
    parts, j = [], 0
    while n > 0:
        m = min(n, 331 + 97 * (j % 7))
        parts.append(("gd", 2 * rng.randrange(1, 120) + 1, rng.randrange(256), m))
        n -= m
        j += 1
    return parts


def big_tls(rng, body_len, kind, trail):
    """a TLS-looking first flight whose record body has exactly body_len bytes: kind 'ch' = ClientHello with a server name and
    a padding extension that fills the record, 'nosni' = the same without server name, 'app' = 0x17 record of arbitrary bytes,
    'lie' = a ClientHello of ordinary size whose record length field says body_len (the bytes behind it belong to the flow too).
    trail: bytes sent after the record."""
    if kind in ("ch", "nosni"):
        sni = None if kind == "nosni" else "big%d.example" % rng.randrange(1000)
        base = len(client_hello(rng, sni, pad=0))
        pad = body_len - base - 4
        if pad < 1:
            return None
        hs = client_hello(rng, sni, pad=pad)
        assert len(hs) == body_len
        head = hs[:len(hs) - pad]
        parts = [record(b"", cl=body_len) + head] + aperiodic(rng, pad)
    elif kind == "app":
        parts = [record(b"", typ=0x17, ver=b"\x03\x03", cl=body_len)] + aperiodic(rng, body_len)
    else:
        hs = client_hello(rng, "lie%d.example" % rng.randrange(1000))
        if body_len <= len(hs):
            return None
        parts = [record(hs, cl=body_len)] + aperiodic(rng, body_len - len(hs))
    if trail:
        parts += [record(b"\x01", typ=0x14, ver=b"\x03\x03")] + aperiodic(rng, trail)
    return big_stream(parts)


def big_http(rng, block_len, host_first, trail):
    """an HTTP request whose header block (request line .. empty line) has exactly block_len bytes, made of header lines of
    unequal lengths, Host in front or at the very end; trail: body bytes behind it."""
    start = b"POST /upload HTTP/1.1\r\n"
    host = b"Host: blk%d.example\r\n" % rng.randrange(1000)
    end = b"\r\n"
    fill = block_len - len(start) - len(host) - len(end)
    if fill < 8:
        return None
    lines, j = [], 0
    while fill > 0:
        m = min(fill, 700 + 131 * (j % 5))
        if fill - m < 8:
            m = fill
        name = b"X-%d: " % j
        lines += [name, ("rep", 0x61 + j % 26, m - len(name) - 2), b"\r\n"]
        fill -= m
        j += 1
    parts = [start] + ([host] + lines if host_first else lines + [host]) + [end]
    if trail:
        parts += aperiodic(rng, trail)
    return big_stream(parts)


def cut_scripts(rng, n, pos, e, shape):
    """scripts in which the stream fails (e: 1 EOF, 2 deadline, 3 reset) when pos of its n bytes have been delivered; the
    remaining bytes are late (never read by the sniffer: they stay on the stream)."""
    pos = max(0, min(pos, n))
    tail = [[n - pos, 0]] if n > pos else []
    if shape == 0:            # the error comes with the last delivered bytes
        return [[pos, e]] + tail
    if shape == 1:            # everything delivered in one piece, then the error alone
        return [[pos, 0], [0, e]] + tail
    evs, left = [], pos       # delivered in segments (one size per script), then the error alone
    seg = rng.choice([1460, 1024, 1000, 512, 4096, 1200, 16384])
    while left > 0:
        c = min(left, seg)
        evs.append([c, 0])
        left -= c
    return evs + [[0, e]] + tail


def gen_tcp_big(rng, tier):
    """first flights LONGER than one read step of any buffering the sniffer might do: TLS records with bodies of
    1023 .. 65535 bytes and HTTP header blocks around bufio's 4096, 32 KiB, 64 KiB and the 256 KiB limit, cut by a deadline /
    EOF / reset just before, at and just after every multiple of 1024 (TLS) / 4096 (HTTP) of the body, in the middle of a
    step, at the last byte of the record / header block and just behind it; delivered whole, in segments, byte-exact."""
    thorough = tier != "quick"
    cases = []
    # ---- TLS
    lens = [1023, 1024, 1025, 1500, 2047, 2048, 2049, 3040, 4096, 4101, 8192, 16384, 16385, 20000, 32768, 32775, 65535]
    streams = []
    for L in lens:
        kinds = ["ch", "nosni", "app", "lie"] if thorough else [rng.choice(["ch", "ch", "nosni", "app", "lie"])]
        if not thorough and L in (1500, 3040):
            kinds = ["ch", "app"]
        for kind in kinds:
            trail = rng.choice([0, 0, 1, 300, 2000])
            sid = big_tls(rng, L, kind, trail)
            if sid is not None:
                streams.append((sid, L, 5))
    for sid, L, h in streams:
        n = len(STREAMS[sid][0])
        cases.append(tcp(sid, [[n, 0]], "1.2.3.4:443"))
        cases.append(tcp(sid, cut_scripts(rng, n, n, 0, 2)[:-1] or [[n, 0]], "1.2.3.4:443"))
        pts = set()
        for k in range(0, L // 1024 + 2):
            for d in (-1, 0, 1):
                pts.add(h + 1024 * k + d)
            pts.add(h + 1024 * k + rng.randrange(2, 1023))
        for d in (-2, -1, 0, 1):
            pts.add(h + L + d)
        pts.update([3, 4, 5, 6, n - 1, n])
        pts = sorted(q for q in pts if 0 <= q <= n)
        body = [q for q in pts if h + 1024 < q < h + L]          # at least one full KiB of the body delivered, record incomplete
        if thorough:
            chosen = pts if L <= 8192 else sorted(set(rng.sample(pts, 48) + body[:4] + body[-4:]))
            combos = [(q, e, rng.choice([0, 1, 2])) for q in chosen for e in (1, 2, 3)] + [(q, 2, rng.choice([0, 1, 2])) for q in chosen]
        else:
            chosen = rng.sample(pts, min(len(pts), 5)) + (rng.sample(body, min(len(body), 4)) if body else [])
            combos = [(q, rng.choice([2, 2, 2, 1, 3]), rng.choice([0, 1, 2])) for q in chosen]
        for q, e, sh in combos:
            cases.append(tcp(sid, cut_scripts(rng, n, q, e, sh), rng.choice(["1.2.3.4:443"] * 4 + ["[::1]:8443", "noport"])))
    # ---- HTTP
    blocks = [4094, 4096, 4097, 4099, 8192, 8195, 12290, 32768, 32771, 65536, 65541, 131072]
    near_limit = [262143, 262144, 262145, 262147] if thorough else [rng.choice([262143, 262144]), rng.choice([262145, 262147])]
    hstreams = []
    for B in blocks + near_limit:
        for host_first in ((True, False) if thorough else (rng.random() < 0.5,)):
            sid = big_http(rng, B, host_first, rng.choice([0, 11, 5000]))
            if sid is not None:
                hstreams.append((sid, B))
    for sid, B in hstreams:
        n = len(STREAMS[sid][0])
        cases.append(tcp(sid, [[n, 0]], "1.2.3.4:80"))
        pts = set()
        for k in range(0, min(B, 262144) // 4096 + 2):
            for d in (-1, 0, 1):
                pts.add(4096 * k + d)
            pts.add(4096 * k + rng.randrange(2, 4095))
        for d in (-5, -4, -3, -2, -1, 0, 1):
            pts.add(B + d)
        pts.update([n - 1, n, 262144 - 1, 262144, 262144 + 1])
        pts = sorted(q for q in pts if 0 <= q <= n)
        if thorough:
            chosen = pts if B <= 12290 else rng.sample(pts, min(len(pts), 30))
            combos = [(q, e, rng.choice([0, 1, 2])) for q in chosen for e in (1, 2, 3)] + [(q, 2, rng.choice([0, 1, 2])) for q in chosen]
        else:
            chosen = rng.sample(pts, min(len(pts), 5 if B < 200000 else 3))
            combos = [(q, rng.choice([2, 2, 1, 3]), rng.choice([0, 1, 2])) for q in chosen]
        for q, e, sh in combos:
            cases.append(tcp(sid, cut_scripts(rng, n, q, e, sh), rng.choice(["1.2.3.4:80"] * 4 + ["web.example:8080", "noport"])))
    return cases


def gen_srv(rng, tier):
    """the SERVER side of the clause (core/server handleTCPRequest + copy.go): a hook that takes `put` bytes off the stream
    and hands them back, put = 0 .. beyond the sniffer's 256 KiB HTTP limit with the sizes around the 32 KiB copy buffer,
    64 KiB (+5: a full TLS record) and 256 KiB, x rest of the stream (nothing, 1 byte, less / more than a copy buffer) x
    traffic logger on/off x fast open on/off x client write sizes x address rewrite x slow dial x data flowing down."""
    thorough = tier != "quick"
    puts = [0, 1, 5, 517, 4096, 16384, 32767, 32768, 32769, 40000, 65535, 65536, 65541, 70000, 98304, 131073, 262144, 262144 + 4096]
    rests = [0, 1, 1000, 32768, 50000]
    combos = []
    for put in puts:
        for logger in (True, False):
            for fo in (False, True):
                if thorough:
                    for rest in rests:
                        combos.append((put, rest, logger, fo))
                else:
                    combos.append((put, rng.choice(rests), logger, fo))
    if not thorough:
        # every putback size with a logger (2 of the 4 combinations), a sample of the others
        keep = [x for x in combos if x[2] and (x[3] or rng.random() < 0.5)]
        others = [x for x in combos if x not in keep]
        rng.shuffle(others)
        combos = keep + others[:10]
    for _ in range(8 if not thorough else 200):
        combos.append((rng.randrange(0, 300000), rng.randrange(0, 70000), rng.random() < 0.6, rng.random() < 0.5))
    cases = []
    for put, rest, logger, fo in combos:
        if put + rest == 0:
            rest = 1
        parts = [["gd", q[1], q[2], q[3]] for q in aperiodic(rng, put + rest)]
        cases.append({"k": "srv", "logger": logger, "fastopen": fo, "put": put, "sn": put + rest, "sentp": parts,
                      "chunk": rng.choice([0, 0, 1200, 4096, 16384, 65536, 100000]), "rw": rng.random() < 0.5,
                      "dial_delay": rng.choice([0, 0, 0, 30]), "down": rng.choice([0, 0, 0, 700, 40000])})
    return cases


SIDS = {}             # name -> stream id of gen_tcp's byte streams (filled by gen_tcp)


def gen_tcpseq(rng, tier):
    """histories of SEVERAL hooked streams on one Sniffer: stream A is sniffed, then B (and C ...) BEFORE A's replay is
    looked at - core/server logs and dials the target between Sniffer.TCP's return and the write of the putback, so
    other streams are sniffed in that window.  Every stream's replay ++ unread must still be what it sent."""
    thorough = tier != "quick"
    S = SIDS
    cases = []
    kinds = {"tls": ["t1", "t_nosni", "t_trail", "t_colon"], "http": ["h1", "h2", "h_two", "h_v6", "h_4095"],
             "other": ["g_rand", "g_text", "g_123", "t_zero"], "short": ["g_2", "g_1", "h_partial", "t_hdr4", "t_long_eof"]}

    def ln(k):
        return len(STREAMS[S[k]][0])

    def addr_for(k):
        return "1.2.3.4:443" if k.startswith("t") else "1.2.3.4:80"

    def item(k, mode):
        n = ln(k)
        if mode == 0 or n < 2:
            evs = [[n, 0]]
        elif mode == 1:
            evs = [[n, 1]]
        else:
            evs, left = [], n
            while left > 0:
                c = min(left, rng.choice([1, 2, 3, 5, 16, 100, 4093]))
                evs.append([c, rng.choice([0] * 12 + [1, 2, 3])])
                left -= c
                if rng.random() < 0.1:
                    evs.append([0, 0])
        return tcp(S[k], evs, rng.choice([addr_for(k)] * 4 + ["[::1]:8443", "noport"]))

    def seq(items, hist=None, conc=False):
        cases.append({"k": "tcpseq", "items": items, "hist": hist or [], "conc": conc})

    def all_then_look(n, order=None):
        return [[0, i] for i in range(n)] + [[1, i] for i in (order or range(n))]

    # every ordered pair of flow kinds: A sniffed, B sniffed, then A's replay is looked at (and B's)
    for ka in kinds:
        for kb in kinds:
            for _ in range(1 if not thorough else 6):
                a, b = rng.choice(kinds[ka]), rng.choice(kinds[kb])
                seq([item(a, 0), item(b, rng.choice([0, 0, 2]))], all_then_look(2))
    # the same stream kind three times in a row, looked at in reverse order
    for k in ("t1", "h1", "g_rand", "h_4095"):
        seq([item(k, 0), item(rng.choice(kinds[rng.choice(list(kinds))]), 0), item(k, 2)], all_then_look(3, [2, 0, 1]))
    # random histories: 2..6 streams, any interleaving in which a stream is sniffed before it is looked at
    allk = [k for v in kinds.values() for k in v]
    for _ in range(24 if not thorough else 1500):
        n = rng.randint(2, 6)
        items = [item(rng.choice(allk), rng.choice([0, 0, 1, 2, 2])) for _ in range(n)]
        evs = [[0, i] for i in range(n)] + [[1, i] for i in range(n)]
        rng.shuffle(evs)
        hist, seen, pending = [], set(), []
        for e in evs:
            if e[0] == 0:
                hist.append(e)
                seen.add(e[1])
                hist += [x for x in pending if x[1] == e[1]]
                pending = [x for x in pending if x[1] != e[1]]
            elif e[1] in seen:
                hist.append(e)
            else:
                pending.append(e)
        seq(items, hist)
    # concurrent sniffing of 3..12 streams
    for _ in range(6 if not thorough else 300):
        n = rng.randint(3, 12)
        seq([item(rng.choice(allk), rng.choice([0, 0, 2])) for _ in range(n)], conc=True)
    return cases


def ch_frames(rng, hs, mode):
    """CRYPTO-frame layouts for the handshake bytes hs."""
    n = len(hs)
    if mode == "one":
        return [["c", 0, hs.hex()], ["p", 40]]
    a, b = n // 3, 2 * n // 3
    parts = [(0, hs[:a]), (a, hs[a:b]), (b, hs[b:])]
    if mode == "split":
        fr = [["c", o, d.hex()] for o, d in parts]
        return [fr[0], ["g"], fr[1], ["p", 3], fr[2], ["p", 20]]
    if mode == "reversed":
        return [["p", 2]] + [["c", o, d.hex()] for o, d in reversed(parts)] + [["p", 20]]
    if mode == "shuffled":
        rng.shuffle(parts)
        return [["c", o, d.hex()] for o, d in parts] + [["p", 20]]
    if mode == "gap":
        return [["c", 0, hs[:a].hex()], ["c", b, hs[b:].hex()], ["p", 20]]
    if mode == "overlap":
        return [["c", 0, hs[:b].hex()], ["c", a, hs[a:].hex()], ["p", 20]]
    if mode == "offset1":
        return [["c", 5, hs.hex()], ["p", 20]]
    if mode == "many":
        step = max(1, n // 20)
        ps = [(o, hs[o:o + step]) for o in range(0, n, step)]
        rng.shuffle(ps)
        return [["c", o, d.hex()] for o, d in ps] + [["p", 10]]
    if mode == "empties":
        return [["c", 0, ""], ["c", 0, hs.hex()], ["p", 20]]
    if mode == "empties_rev":
        return [["c", 0, hs.hex()], ["c", 0, ""], ["p", 20]]
    if mode == "empty_tail":
        return [["c", 0, hs.hex()], ["c", n, ""], ["p", 20]]
    if mode == "badtype":
        return [["c", 0, hs.hex()], ["r", "02"], ["p", 20]]
    if mode == "lying":
        return [["cl", 0, n + 500, hs.hex()]]
    if mode == "toolarge":
        return [["cl", 0, 300000, hs.hex()], ["p", 20]]
    if mode == "faroffset":
        return [["c", 0, hs[:a].hex()], ["c", 262144, hs[a:].hex()], ["p", 20]]
    if mode == "hugeoffset":
        return [["c", str(2 ** 62 - 1), hs.hex()], ["p", 20]]
    if mode == "hugeoffset2":
        return [["c", str(2 ** 62 - 1 - a), hs[:a].hex()], ["c", str(2 ** 62 - 1), hs[a:].hex()], ["p", 20]]
    if mode == "nocrypto":
        return [["g"], ["p", 60]]
    if mode == "tiny":
        return [["c", 0, hs[:2].hex()], ["p", 30]]
    if mode == "notch":
        return [["c", 0, (b"\x02" + hs[1:]).hex()], ["p", 30]]
    raise ValueError(mode)


def hole_frames(rng, hs, hpos, hsize, before, after, order):
    n = len(hs)
    hpos = max(1, min(hpos, n - 2))
    hsize = max(1, min(hsize, n - hpos - 1))
    lo = sorted(rng.sample(range(1, hpos), min(before, hpos - 1))) if hpos > 1 else []
    hi = sorted(rng.sample(range(hpos + hsize + 1, n), min(after, max(0, n - hpos - hsize - 1)))) if n - hpos - hsize - 1 > 0 else []
    cuts = [0] + lo + [hpos]
    parts = [(cuts[i], hs[cuts[i]:cuts[i + 1]]) for i in range(len(cuts) - 1)]
    cuts2 = [hpos + hsize] + hi + [n]
    parts += [(cuts2[i], hs[cuts2[i]:cuts2[i + 1]]) for i in range(len(cuts2) - 1)]
    if order == "rev":
        parts.reverse()
    elif order == "shuf":
        rng.shuffle(parts)
    return [["c", o, d.hex()] for o, d in parts] + [["p", 12]]


MODES = ["one", "split", "reversed", "shuffled", "gap", "overlap", "offset1", "many", "empties", "empties_rev", "empty_tail",
         "badtype", "lying", "toolarge", "faroffset", "hugeoffset", "hugeoffset2", "nocrypto", "tiny", "notch"]


def rid(rng, n):
    return bytes(rng.randrange(256) for _ in range(n)).hex()


def gen_udp(rng, tier):
    thorough = tier != "quick"
    cases = []

    def mk(build=None, hexs=None, mut=(), addr="9.9.9.9:443"):
        c = {"k": "udp", "addr": hx(addr), "mut": [[str(x) for x in m] for m in mut]}
        if build is not None:
            c["build"] = build
        else:
            c["hex"] = hexs
        return c

    def build(ver=V1, sni="quic.example", mode="one", pnlen=2, pn=1, dl=8, sl=0, tok=0, **kw):
        hs = client_hello(rng, sni, alpn=True)
        b = {"ver": ver, "dcid": rid(rng, dl), "scid": rid(rng, sl), "token": rid(rng, tok), "pnlen": pnlen, "pn": pn,
             "frames": ch_frames(rng, hs, mode), "sni": sni}
        b.update(kw)
        return b

    def build_holes(ver, sni, hpos, hsize, before, after, order, pad=24):
        """a ClientHello spread over several CRYPTO frames of which this datagram misses the bytes [hpos, hpos+hsize):
        `before` cuts below the hole (0: the hole is right behind the lowest-offset frame), `after` cuts above it."""
        hs = client_hello(rng, sni, pad=pad, alpn=True)
        b = {"ver": ver, "dcid": rid(rng, 8), "scid": "", "token": "", "pnlen": rng.randint(1, 4), "pn": rng.choice([0, 1, 2]),
             "frames": hole_frames(rng, hs, hpos, hsize, before, after, order), "sni": sni}
        return b

    for ver in (V1, V2):
        for mode in MODES:
            cases.append(mk(build(ver, mode=mode)))
        for pnlen in (1, 2, 3, 4):
            for pn in (0, 1, 2, 3, 130, 255, 256, 70000):
                cases.append(mk(build(ver, pnlen=pnlen, pn=pn)))
        for dl in (0, 1, 8, 20, 255):
            for sl in (0, 5, 20):
                cases.append(mk(build(ver, dl=dl, sl=sl, tok=rng.choice([0, 0, 16, 70]))))
        for lw in (1, 2, 4, 8):
            cases.append(mk(build(ver, mode="tiny" if lw == 1 else "one", lenw=lw, sni="w%d.example" % lw)))
        cases.append(mk(build(ver, sni=None)))
        cases.append(mk(build(ver, sni="a:b")))
        cases.append(mk(build(ver), addr="[::1]:443"))
        cases.append(mk(build(ver), addr="noport"))
        cases.append(mk(build(ver, sni=None), addr="noport"))
        cases.append(mk(build(ver, keyver=V2 if ver == V1 else V1)))
        for la in (-5, -1, 1, 5, 3000):
            cases.append(mk(build(ver, lenadd=la)))
            cases.append(mk(build(ver, lenadd=la), mut=[["app", rid(rng, 30)]]))
        cases.append(mk(build(ver), mut=[["app", rid(rng, 50)]]))
        for first in (0x40, 0x80, 0x00, 0xd0 if ver == V1 else 0xc0, 0xe0, 0xf0, 0x50, 0x60):
            cases.append(mk(build(ver, first=first)))
            cases.append(mk(build(ver, first=first, notok=True)))
    # holes: the datagram carries only part of the ClientHello (the rest travels in the next Initial). A hole of 1..40 bytes
    # at every kind of place that leaves the zero-filled remainder parseable (client random, session id, inside the server
    # name, inside the padding extension) or not (extension headers), behind the lowest-offset frame or behind later ones,
    # frames in order / reversed / shuffled, 2..7 frames; plus a missing head and a missing tail
    name = "holes-%d.example" % rng.randrange(1000)
    nlen = len(name)
    places = [8, 30, 45, 70, 90 + 1, 90 + nlen // 2, 90 + nlen - 1, 90 + nlen + 2, 90 + nlen + 20, 90 + nlen + 40, 90 + nlen + 50]
    hole_cases = []
    for ver in (V1, V2):
        for hpos in places:
            for before in (0, 1, 2, 4):
                hole_cases.append(mk(build_holes(ver, name, hpos, rng.choice([1, 1, 2, 3, 8, 40]), before, rng.choice([0, 0, 1, 2]),
                                                 rng.choice(["fwd", "rev", "shuf"])), addr=rng.choice(["9.9.9.9:443", "[2001:db8::9]:8443"])))
    if not thorough:
        keep = [c for i, c in enumerate(hole_cases) if c["build"]["frames"][0][1] == 0 and len(c["build"]["frames"]) == 3]
        rng.shuffle(hole_cases)
        hole_cases = keep[:8] + hole_cases[:56]
    cases += hole_cases
    for ver in (V1, V2):
        hs0 = client_hello(rng, name, pad=24, alpn=True)
        for frames in ([["c", 7, hs0[7:60].hex()], ["c", 60, hs0[60:].hex()], ["p", 9]],          # head missing
                       [["c", 0, hs0[:60].hex()], ["c", 60, hs0[60:len(hs0) - 9].hex()], ["p", 9]],  # tail missing
                       [["c", 0, hs0[:60].hex()], ["c", 61, hs0[61:].hex()], ["c", 0, hs0[:60].hex()], ["p", 9]]):  # duplicate + hole
            cases.append(mk({"ver": ver, "dcid": rid(rng, 8), "scid": "", "token": "", "pnlen": 2, "pn": 1, "frames": frames, "sni": name}))
    for ver in (0, 0xff00001d, 2, 0x6b3343ce):
        cases.append(mk(build(ver)))
    # every truncation of a valid packet, bit flips
    base = build(V1, mode="one")
    base2 = build(V2, mode="split", tok=5)
    for n in range(0, 48 if not thorough else 400):
        cases.append(mk(base, mut=[["trunc", n]]))
        if n < 30 or thorough:
            cases.append(mk(base2, mut=[["trunc", n]]))
    for _ in range(60 if not thorough else 3000):
        b = rng.choice([base, base2])
        cases.append(mk(b, mut=[["flip", rng.randrange(0, rng.choice([20, 60, 400])), 1 << rng.randrange(8)]]))
    # raw datagrams
    raws = ["", "40", "4000000001000000 01aa".replace(" ", ""), "c000000001", "c00000000108", "c0000000010800", "c000000001000005",
            "c00000000100000040", "c0000000010000004014", "c00000000100000041", "c000000001000000c0", "c0000000010000ff",
            "c0000000010000" + "00" + "01" + "aa" * 30, "c0000000010000" + "00" + "19" + "aa" * 25, "c0000000010000" + "00" + "18" + "aa" * 24,
            "c0000000010000" + "00" + "15" + "aa" * 21, "c0000000010000" + "00" + "14" + "aa" * 20, "c0000000010000" + "00" + "13" + "aa" * 19,
            "400000000100000013" + "aa" * 19, "400000000100000014" + "aa" * 20, "400000000100000015" + "aa" * 21,
            "c0000000010000" + "00" + "00" + "aa" * 30, "c0000000010000" + "7f" + "aa" * 30,
            "c0000000010000" + "00" + "c000000000000000" + "aa" * 30, "c0000000010000" + "00" + "ffffffffffffffff" + "aa" * 30,
            hx("oh my sweet summer child")]
    # short packets whose first byte has the long-header bit clear (the case the length check of
    # UnProtect must cover) and Length fields around the 20-byte minimum
    for first in ("40", "43", "4f", "c0", "c3"):
        for ln_ in range(1, 24):
            raws.append(first + "00000001" + "00" + "00" + "00" + "%02x" % ln_ + "5a" * ln_)
    for r in raws:
        cases.append(mk(hexs=r))
    sm = suite_samples()
    if len(sm) > 1:
        cases.append(mk(hexs=sm[1].hex(), addr="2.3.4.5:443"))
        cases.append(mk(hexs=sm[1].hex(), mut=[["flip", 700, 1]], addr="2.3.4.5:443"))
    for _ in range(40 if not thorough else 2000):
        n = rng.choice([1, 5, 7, 8, 9, 20, 30, 60])
        b = bytearray(rng.randrange(256) for _ in range(n))
        if n > 5 and rng.random() < 0.8:
            b[0] = rng.choice([0xc0, 0xc3, 0x40, 0xd0, 0xff])
            b[1:5] = struct.pack(">I", rng.choice([V1, V1, V2, 0]))
            if n > 6:
                b[5] = rng.choice([0, 0, 1, 3, n])
        cases.append(mk(hexs=bytes(b).hex()))
    for _ in range(60 if not thorough else 3000):
        ver = rng.choice([V1, V2])
        b = build(ver, sni=rng.choice(["r%d.example" % rng.randrange(1000), None, "x"]), mode=rng.choice(MODES),
                  pnlen=rng.randint(1, 4), pn=rng.choice([0, 1, 2, 3, rng.randrange(2 ** 16)]), dl=rng.choice([0, 4, 8, 18, 20]),
                  sl=rng.choice([0, 8]), tok=rng.choice([0, 0, 8, 100]))
        cases.append(mk(b, addr=rng.choice(["9.9.9.9:443", "[2001:db8::9]:8443", "q.example:443"])))
    return cases


def gen_check(rng, tier):
    addrs = ["1.1.1.1:80", "example.com:443", "example.com:80", "[::1]:443", "[::1%eth0]:53", "[fe80::1]:80", "@speedtest", "@:80", "@1.1.1.1:80",
             "", ":", ":80", "noport", "1.2.3.4", "1.2.3.4:", "1.2.3.4:http", "1.2.3.4:+80", "1.2.3.4:-1", "1.2.3.4:-65456", "1.2.3.4:65616",
             "1.2.3.4:65535", "1.2.3.4:65536", "1.2.3.4:080", "1.2.3.4:0", "a:b:80", "[a]b:80", "[::1]", "[::1]:", "::1:80", "[1.2.3.4]:80",
             "host:80:", "1.2.3.4:99999999999999999999", "[::1]]:80", "[[::1]:80", "[::1]:[80", "[::1]:8]0", "a]b:80", "a[b:80", "[]:80", "[:80",
             "]:80", "[::1]x:80", "1.2.3.4:8_0", "1.2.3.4: 80", "1.2.3.4:0x50", "010.1.1.1:443", "1.2.3.4:443", "[::ffff:1.2.3.4]:443"]
    filters = [None, [], [[80, 80]], [[443, 443]], [[0, 65535]], [[1000, 2000], [80, 80]], [[65535, 65535]], [[0, 0]], [[53, 53], [443, 443]]]
    cases = []
    for a in addrs:
        for rw in (False, True):
            for f in filters:
                for isudp in (False, True):
                    g = rng.choice(filters)
                    cases.append({"k": "check", "addr": hx(a), "rw": rw, "tcp": f if not isudp else g, "udp": g if not isudp else f, "isudp": isudp})
    if tier == "quick":
        rng.shuffle(cases)
        cases = cases[:300]
    for _ in range(100 if tier == "quick" else 5000):
        host = rng.choice(["1.2.3.4", "h.example", "[::1]", "[2001:db8::1]", "::1", "a:b", ""])
        port = rng.choice(["80", "443", str(rng.randrange(-70000, 140000)), "+%d" % rng.randrange(70000), "x", ""])
        sep = rng.choice([":", ":", ":", "", "::"])
        cases.append({"k": "check", "addr": hx(host + sep + port), "rw": rng.random() < 0.5, "tcp": rng.choice(filters), "udp": rng.choice(filters),
                      "isudp": rng.random() < 0.5})
    return cases


def gen(rng, tier):
    global HEADER
    del STREAMS[:]
    cases = gen_tcp(rng, tier) + gen_tcp_big(rng, tier) + gen_udp(rng, tier) + gen_check(rng, tier) + gen_tcpseq(rng, tier) + gen_srv(rng, tier)
    defs = []
    for i, (b, expr, _) in enumerate(STREAMS):
        defs.append("Definition S%d : list byte := %s." % (i, expr if expr else common.coq_bytes(b)))
    HEADER = BASE_HEADER + "\n".join(defs) + "\n"
    return cases


# ---------------------------------------------------------------- Coq terms

def cb(b):
    return common.coq_bytes(b)


def ob(x):
    return "None" if x is None else "(Some %s)" % cb(bytes.fromhex(x))


def bl(x):
    return "true" if x else "false"


def to_coq(c, o):
    k = c["k"]
    if k == "tcpseq":
        its = o.get("items") or []
        if len(its) != len(c["items"]):
            return None
        return "CSeq [%s]" % ";".join(to_coq(ci, oi) for ci, oi in zip(c["items"], its))
    if k == "srv":
        if o.get("skip") or o.get("panic") or not o.get("torn") or "gotdg" not in o:
            return None
        sent = "(" + " ++ ".join("gen_data %d %d %d" % (q[1], q[2], q[3]) for q in c["sentp"]) + ")"
        nl = lambda l: "[" + ";".join(str(x) for x in (l or [])) + "]"
        return "CSrv %s %s %d %s %s %d %d %s" % (bl(c["logger"]), sent, c["put"], nl(o.get("writes")), nl(o.get("uplogs")),
                                                 o.get("stx", 0), o["got"], "None" if o.get("gotpfx") else "(Some %d)" % o["gotdg"])
    if k == "tcp":
        s = "S%d" % c["sid"]
        n = c["sn"]
        evs = "[" + ";".join("(%d,%d)" % (l, e) for l, e in c["evs"]) + "]"
        if o.get("panic"):
            return "CTcp %s %s %s %s [] None None true [] [] [] false" % (s, evs, cb(bytes.fromhex(c["addr"])), bl(c["dlfail"]))
        replay = "(sub %s 0 %d)" % (s, o["rn"]) if o["rprefix"] else cb(bytes.fromhex(o["replay"]))
        rem = []
        if o["remsuffix"]:
            off = n - o["remn"]
            for l, e in o["rem"]:
                rem.append("(sub %s %d %d,%d)" % (s, off, l, e))
                off += l
        else:
            rb = bytes.fromhex(o["remx"])
            off = 0
            for l, e in o["rem"]:
                rem.append("(%s,%d)" % (cb(rb[off:off + l]), e))
                off += l
        sizes = "[" + ";".join(str(x) for x in (o["sizes"] or [])) + "]"
        return "CTcp %s %s %s %s %s %s %s false %s [%s] %s %s" % (
            s, evs, cb(bytes.fromhex(c["addr"])), bl(c["dlfail"]), sizes, ob(o.get("hhost")), ob(o.get("sni")),
            replay, ";".join(rem), cb(bytes.fromhex(o["addr2"])), bl(o["err"]))
    if k == "udp":
        data = bytes.fromhex(o["data"])
        qhp = "None"
        if "q_sample" in o:
            qhp = "(Some (%d,%s,%s,%s))" % (o["q_ver"], cb(bytes.fromhex(o["q_dcid"])), cb(bytes.fromhex(o["q_sample"])), cb(bytes.fromhex(o["a_mask"])))
        qa = "None"
        if "q_pn" in o:
            qa = "(Some ((%d)%%Z,%s,%d,%d,%s,%s))" % (o["q_pn"], cb(bytes.fromhex(o["q_ad"])), o["q_ctn"], o["q_ctdg"], bl(o["a_ok"]),
                                                         cb(bytes.fromhex(o["a_out"])))
        if o.get("hdr_panic"):
            eh = "None"
        elif o.get("hdr_err"):
            eh = "(Some None)"
        else:
            h = o["hdr"]
            eh = "(Some (Some (%d,%s,%s,%s,%d,%d)))" % (h["ver"], cb(bytes.fromhex(h["dcid"])), cb(bytes.fromhex(h["scid"])),
                                                       cb(bytes.fromhex(h["token"])), h["len"], h["off"])
        if o.get("pl_panic"):
            ep = "None"
        elif o.get("pl_err"):
            ep = "(Some None)"
        else:
            ep = "(Some (Some %s))" % cb(bytes.fromhex(o["pl"]))
        after = "None" if o.get("same", True) else "(Some %s)" % cb(bytes.fromhex(o["after"]))
        return "CUdp %s %s %s %s %s %s %s %s %s %s %s" % (
            cb(data), cb(bytes.fromhex(c["addr"])), qhp, qa, ob(o.get("sni")), eh, ep, bl(o.get("panic")), after,
            cb(bytes.fromhex(o.get("addr2", c["addr"]))), bl(o.get("err", False)))
    if k == "check":
        if o.get("panic"):
            return None

        def pu(x):
            return "None" if x is None else "(Some [%s])" % ";".join("(%d,%d)" % (a, b) for a, b in x)
        if o.get("split_err"):
            sp = "None"
        else:
            sp = "(Some (%s,%s,%s))" % (cb(bytes.fromhex(o["host"])), cb(bytes.fromhex(o["port"])), cb(bytes.fromhex(o["join"])))
        at = "None" if "atoi" not in o else "(Some (%s)%%Z)" % o["atoi"]
        return "CCheck %s %s %s %s %s %s %s %s %s" % (cb(bytes.fromhex(c["addr"])), bl(c["rw"]), pu(c["tcp"]), pu(c["udp"]), bl(c["isudp"]),
                                                     sp, bl(o.get("isip", False)), at, bl(o["res"]))
    return None


def proto(c):
    b = (bytes.fromhex(c["sentp"][0][1]) if "sentp" in c and c["sentp"] and c["sentp"][0][0] == "l" else sent_bytes(c))[:3]
    if len(b) < 3:
        return "short"
    if all((65 <= x <= 90) or (97 <= x <= 122) for x in b):
        return "http"
    if b[0] in (0x16, 0x17) and b[1] == 3 and b[2] <= 9:
        return "tls"
    return "other"


def klass(c, o):
    k = c["k"]
    if o.get("panic") or o.get("pl_panic") or o.get("hdr_panic"):
        return k + ":panic"
    if k == "srv":
        size = "none" if c["put"] == 0 else "<=copybuf" if c["put"] <= 32768 else "<=64K+5" if c["put"] <= 65541 else ">64K"
        return "srv:%s:%s:putback-%s%s" % ("logger" if c["logger"] else "fastpath", "fastopen" if c["fastopen"] else "eager", size,
                                          ":skipped" if o.get("skip") else "")
    if k == "tcpseq":
        n = len(c["items"])
        return "tcpseq:%s:%s" % ("concurrent" if c["conc"] else "interleaved", "2" if n == 2 else "3+")
    if k == "tcp":
        out = "err" if o["err"] else "rewrite" if o["addr2"] != c["addr"] else "same"
        errs = "+err-events" if any(e for _, e in c["evs"]) else ""
        part = "partial" if o["remn"] > 0 else "all-read"
        return "tcp:%s:%s:%s%s" % (proto(c), out, part, errs)
    if k == "udp":
        if o.get("hdr_err"):
            return "udp:hdr-err"
        if o.get("pl_err"):
            return "udp:payload-err" + (":auth-ok" if o.get("a_ok") else ":auth-fail" if "a_ok" in o else "")
        return "udp:payload-ok:" + ("err" if o["err"] else "rewrite" if o["addr2"] != c["addr"] else "same")
    return "check:" + ("true" if o["res"] else "false-split-err" if o.get("split_err") else "false")


def nontrivial(c, o):
    k = c["k"]
    if k == "srv":
        return bool(o.get("torn")) and not o.get("skip") and c["put"] > 0
    if k == "tcpseq":
        return sum(1 for oi in (o.get("items") or []) if not oi.get("panic") and oi.get("rn", 0) >= 3) >= 2
    if k == "tcp":
        return not o.get("panic") and (o.get("rn", 0) > 3 or len(c["evs"]) > 1)
    if k == "udp":
        return "pl" in o
    return not o.get("split_err")


def fingerprint(c, o):
    why = o.get("why") or ""
    if c["k"] == "udp" and "modified the datagram" in why:
        return "quic-sniff-decrypts-in-place"
    if c["k"] == "udp" and "panic" in why and "slice bounds" in why:
        return "quic-unprotect-short-packet-panic"
    return None


def search(ctx, disagreeing):
    """Property-directed search on the implementation alone (no model): more seeds."""
    import random
    found = []
    for s in range(2):
        rng = random.Random(ctx.seed * 1000 + s + 17)
        cases = gen(rng, "quick")
        ok, outs, _, log = run_go_routed(ctx, GO, cases, tag="search%d" % s)
        for c, o in zip(cases, outs):
            if o.get("ok") is False:
                cc = dict(c)
                found.append({"what": "%s: %s" % (c["k"], o.get("why")), "replay": {"case": cc, "impl": o},
                              "fingerprint": fingerprint(c, o), "found_input": True})
        if found:
            break
    return found


def run_go_routed(ctx, gospec, cases, tag="main", timeout=900, race=False, orig=None):
    """cases of kind "srv" go to core/internal/integration_tests (GO_SRV), everything else to extras/sniff (GO); both
    packages run at the same time, outputs are merged back in case order."""
    orig = orig or common.run_go_cases
    if gospec is not GO:
        return orig(ctx, gospec, cases, tag=tag, timeout=timeout, race=race)
    ia = [i for i, c in enumerate(cases) if c.get("k") != "srv"]
    ib = [i for i, c in enumerate(cases) if c.get("k") == "srv"]
    if not ib:
        return orig(ctx, GO, cases, tag=tag, timeout=timeout, race=race)
    import threading
    rb = {}

    def run_b():
        rb["r"] = orig(ctx, GO_SRV, [cases[i] for i in ib], tag=tag + "_srv", timeout=timeout, race=race)
    th = threading.Thread(target=run_b)
    th.start()
    ok1, o1, params, log1 = (True, [], None, "")
    if ia:
        ok1, o1, params, log1 = orig(ctx, GO, [cases[i] for i in ia], tag=tag, timeout=timeout, race=race)
    th.join()
    ok2, o2, _, log2 = rb.get("r", (False, [], None, "server-side harness did not run"))
    outs = [None] * len(cases)
    if len(o1) == len(ia):
        if len(o2) != len(ib):
            # the server-side harness did not finish (reported as a broken tie through ok2): keep the other outputs
            ok2 = False
            o2 = list(o2) + [{"k": "srv", "ok": True, "why": "", "skip": "server-side harness did not finish"}] * (len(ib) - len(o2))
        for i, o in zip(ia, o1):
            outs[i] = o
        for i, o in zip(ib, o2):
            outs[i] = o
    else:
        outs = []
    skipped = [o for o in o2 if o.get("skip")]
    if skipped:
        ctx.say("server side: %d of %d end-to-end cases skipped for infrastructure reasons: %s" % (len(skipped), len(o2), skipped[0]["skip"]))
    return ok1 and ok2, outs, params, log1 + ("\n[core/internal/integration_tests] " + log2[-2500:] if not ok2 else "")


def run(ctx):
    import random
    import sys
    extra = []
    if ctx.tier != "quick":
        # thorough tier: the several-streams histories once more under the race detector (a write to a replay slice
        # that was already handed back races with its reader)
        cases = [c for c in gen(random.Random(ctx.seed), ctx.tier) if c["k"] == "tcpseq"]
        rok, routs, _, rlog = common.run_go_cases(ctx, GO, cases, tag="race", race=True)
        ctx.say("tcpseq histories under -race: %s" % ("ok" if rok else "FAILED"))
        bad = [(c, o) for c, o in zip(cases, routs) if o.get("ok") is False]
        for c, o in bad[:1]:
            extra.append({"what": "tcpseq (-race): %s" % o.get("why"), "replay": {"case": c, "impl": o}, "fingerprint": None, "found_input": True})
        if not rok and not bad:
            extra.append({"what": "C17 harness fails under -race: " + rlog.strip()[-600:], "replay": {"broken": "race", "log": rlog[-4000:]},
                          "fingerprint": None, "found_input": False})
    # common.run_case_check ends in common.finish(ctx, pinfo, cov, violations, ...): hand it the -race findings too
    orig = common.finish

    def fin(ctx_, pinfo, cov, violations, *a, **kw):
        return orig(ctx_, pinfo, cov, list(violations) + extra, *a, **kw)
    common.finish = fin
    orig_go = common.run_go_cases

    def routed(ctx_, gospec, cases, tag="main", timeout=900, race=False):
        return run_go_routed(ctx_, gospec, cases, tag=tag, timeout=timeout, race=race, orig=orig_go)
    common.run_go_cases = routed
    try:
        return common.run_case_check(ctx, sys.modules[__name__])
    finally:
        common.finish = orig
        common.run_go_cases = orig_go


def replay(ctx, path):
    import json
    r = json.load(open(path))
    c = r["replay"].get("case")
    if not c:
        print("replay file names a broken obligation/correspondence, no concrete input:", r["what"])
        return 1
    ok, outs, _, log = common.run_go_cases(ctx, GO_SRV if c.get("k") == "srv" else GO, [c], tag="replay")
    print(json.dumps(outs, indent=1))
    return 0 if outs and outs[0].get("ok") else 1


LEVEL_TEXT = ("Machine-checked Coq theorems over a statement-by-statement Gallina model of Sniffer.TCP/UDP/Check, the teeReader and the QUIC "
              "Initial parsing/unprotecting/CRYPTO-frame code: for every stream script (chunks, zero reads, errors and a deadline at any "
              "position), every consumer read pattern and every library answer, replay ++ unread = sent; the address is the old one or "
              "join(Host/SNI, old port); assembleCryptoFrames returns a single frame's data or the data of frames that follow one another without "
              "hole or overlap (never a zero-filled gap); the caller's datagram buffer is never written; Check's filter; no slice/index/make of the QUIC and "
              "TLS-length code can panic for any byte string; server side: on every run of the hooked path of handleTCPRequest over the relay LTS (all interleavings, any putback length) "
              "the target's stream is the putback followed by a prefix of the client's stream (all of it when Up returns nil), no relay action precedes the putback write, StreamStats.Tx counts the putback. The model is tied to /repo on every run by a differential run of the Go code "
              "against the model on ~4000 cases in the quick tier, ~53000 in the thorough tier (vm_compute in the kernel), the library oracles' answers being computed independently in the harness.")
LEVEL_NOTE = ("Trusted: Coq kernel + vm_compute; hand-written model (tie is sampled differential testing + regenerated Params); python/Go glue. "
              "No axioms. Not proved: the parsers/crypto themselves (oracles); bufio's first read >= 3 bytes is a hypothesis of tcp_transparent.")
TECHNIQUE = "Coq proof (invariants over read scripts and a buffer heap) on a hand-written model + differential correspondence check in vm_compute"
DESIGN_REF = "DESIGN.md section 4 C17"
