"""C18 - Local SOCKS5/HTTP inbounds gate on credentials and relay bytes intact (DESIGN.md section 4, C18).

Three Go packages are exercised (socks5, http, proxymux of module app), so this module has its own run():
the pieces of vlib/common.py, same decision rule as common.run_case_check."""
import base64
import ipaddress
import itertools
import json
import random
import sys
import time
from concurrent.futures import ThreadPoolExecutor

from vlib import common

GO_SOCKS = dict(module="app", pkg="internal/socks5", pkgname="socks5",
                files={"zz_verif_c18_test.go": "c18/c18_socks_test.go", "zz_verif_c18_relay_test.go": "c18/c18_relay_socks_test.go",
                       "zz_verif_c18_relay_common_test.go": "_gen/c18_relay_common_socks5_test.go"}, run="TestVerifC18Socks")
GO_HTTP = dict(module="app", pkg="internal/http", pkgname="http",
               files={"zz_verif_c18_test.go": "c18/c18_http_test.go", "zz_verif_c18_relay_test.go": "c18/c18_relay_http_test.go",
                      "zz_verif_c18_relay_common_test.go": "_gen/c18_relay_common_http_test.go"}, run="TestVerifC18HTTP")
GO_MUX = dict(module="app", pkg="internal/proxymux", pkgname="proxymux",
              files={"zz_verif_c18_test.go": "c18/c18_mux_test.go", "zz_verif_c18_relay_test.go": "c18/c18_relay_mux_test.go",
                     "zz_verif_c18_relay_common_test.go": "_gen/c18_relay_common_proxymux_test.go"}, run="TestVerifC18Mux")
GO_ALL = [GO_SOCKS, GO_HTTP, GO_MUX]
GO = GO_SOCKS
KIND_SPEC = {"socks": 0, "http": 1, "cached": 1, "mux": 2, "onebyte": 2, "muxd1": 2, "muxd2": 2,
             "rsocks": 0, "rhttp": 1, "rmux": 2}
RELAY_KINDS = ("rsocks", "rhttp", "rmux")


def make_relay_common():
    """Instantiate the relay-phase harness shared by the three packages (same mechanism as common.make_util)."""
    import os
    d = os.path.join(common.VERIF, "harness", "go", "_gen")
    os.makedirs(d, exist_ok=True)
    tmpl = open(os.path.join(common.VERIF, "harness", "go", "c18", "c18_relay_common_test.go.tmpl")).read()
    for pkg in ("socks5", "http", "proxymux"):
        p = os.path.join(d, "c18_relay_common_%s_test.go" % pkg)
        text = tmpl.replace("__PKG__", pkg)
        if not os.path.exists(p) or open(p).read() != text:
            with open(p, "w") as f:
                f.write(text)

PARAMS_NAME = "ParamsC18"
HEADER = ("From Hy Require Import lib.Harness model.C18_Inbounds model.C18_Relay corr.C18_Corr.\nFrom Coq Require Import ZArith.\n"
          "Local Open Scope N_scope.\n")
RULE = ("seeded generator. SOCKS5: byte scripts built from greeting / USER-PASS / request messages with valid and invalid versions, "
        "method lists with and without 0x02, right and wrong credentials, zero and lying length bytes, truncation at every message, "
        "all three address types, CONNECT/BIND/UDP/unknown commands, pipelined tails, random byte noise; clients that ignore a refusal "
        "(05 FF, bad version, rejected / malformed USER/PASS) and pipeline a well-formed request at every offset the server can have "
        "consumed; every script under several "
        "chunkings (whole, byte-wise, random, with zero-length reads) and ALL chunkings of a short authenticated prefix. "
        "HTTP: raw request bytes on the connection, net/http decides what they are: EVERY method (GET POST HEAD OPTIONS PUT DELETE CONNECT and an "
        "extension method) x every request-target class - origin-form (/p, /, //host/p), asterisk-form, absolute-form (http / https / other "
        "schemes, with port, empty port, upper case, empty host http:///x, opaque http:x), authority-form with / without port, empty host "
        "(:80, :, the empty target, ?q), userinfo, IPv6 literals (with zone), loopback names, malformed targets - x credential state "
        "(no Proxy-Authorization, wrong, malformed, accepted), x Host field (same, other, absent, empty, IPv6), alone, in front of pipelined "
        "bytes / a pipelined second request, behind an accepted keep-alive request and as third request; HTTP/1.0 and bodies on POST/PUT; "
        "the harness reports what http.ReadRequest made of every request (method, target, form, URL.Scheme, URL.Host, req.Host) and the model "
        "is run on exactly that. Further: requests serialised from structured cases (CONNECT / GET, keep-alive sequences) with ~25 Proxy-Authorization variants "
        "(case, spacing, bad base64, padding, no colon, several colons, U+0130 in the scheme name), pipelined tails and split points "
        "inside / at / behind the header block; CONNECT requests that declare a body (Content-Length 0 / n / more than follows, "
        "Transfer-Encoding: chunked, both) in front of tunnel payload, split at every point. cachedConn / connWithOneByte: random buffers, chunkings and read sizes incl. zero. "
        "Mux: random histories of ListenSOCKS/ListenHTTP/sub-listener Close/Accept/incoming/first byte/read error (each behind 0..n "
        "zero-length reads) on a muxListener in a "
        "synctest bubble, observed at every quiescent point and replayed against the LTS. "
        "Relay phase (handleTCP / handleConnect after the dial; SOCKS5, HTTP CONNECT, and both behind the shared port) on scripted "
        "client and upstream conns that are not kernel sockets, in a synctest bubble: both directions carry (distinct) data; reads of "
        "0, 1, many and more-than-the-copy-buffer bytes; a side's last bytes arriving together with io.EOF / with another error / before a "
        "bare EOF / never followed by anything; payload pipelined in the same read as the SOCKS5 request / CONNECT header (cachedConn) "
        "and behind the mux's detection byte (connWithOneByte); a Write of one direction stalled until the opposite direction has delivered "
        "data while that delivery waits for the Write to be in progress (either direction, both, random event gates); sinks refusing a "
        "Write; the whole log of Read / Write / Close calls is replayed against the relay LTS. Non-trivial = an upstream was opened, or "
        "credentials were rejected, or a connection was handed over / closed by the mux. Distinct = distinct JSON case.")
ASSUMPTIONS = [
    "net/http.ReadRequest, net/url's parser and textproto are not modelled: a request reaches the model as net/http parsed it (method, raw request-target, its form, URL.Scheme, URL.Host, req.Host, raw Proxy-Authorization value, keep-alive condition) - the harness runs http.ReadRequest over the same byte stream independently of the server and reports the result; URL.Hostname/Port, net.SplitHostPort, net.JoinHostPort and the Transport's canonicalAddr ARE modelled and compared on every case (ASCII hosts)",
    "the scripted upstream of a forwarded plain request answers with Connection: close and does not speak TLS (an https:// request fails after its one dial); schemes other than http/https are refused by net/http before any dial",
    "writes to the local client succeed (a failed write only ends the connection earlier, before any upstream open)",
    "the base listener of the shared port fails only after it was closed by the mux itself (a spontaneous base Accept error is outside the property's events)",
    "each lock/unlock pair and each channel operation of mux.go is one atomic section of the LTS (read from the source; supported by -race in the thorough tier)",
    "plain-HTTP forwarding through http.Client/http.Transport is observed only at HyClient.TCP (one dial per request: the scripted upstream answers Connection: close)",
    "relay phase: the two conns are scripted fakes (no ReadFrom / WriteTo fast path, as cachedConn / connWithOneByte / a Hysteria stream have none); a stalled Write reads its argument when it resumes; deadlines are ignored by the fakes",
    "the client's address (conn.RemoteAddr) is varied by the harnesses (loopback, private, link-local, public, v4/v6) but is not an input of the model: the code reads it only for logging",
]
TRUSTED = ["modelled rather than verified: app/internal/socks5/server.go, app/internal/http/server.go, app/internal/proxymux/mux.go and the three "
           "wire readers of txthinking/socks5 (hand transcription in coq/model/C18_Inbounds.v, coq/lib/Base64.v)"]
PER_SHARD = 150
EXTRA_TARGETS = ["corr/C18_Corr.vo"]

USER, PASS = b"user", b"pa:ss"
# the client's address as the inbound sees it (conn.RemoteAddr): the gate must not depend on it
PEERS = ["", "", "127.0.0.1", "10.0.0.7", "192.168.1.5", "172.16.9.9", "169.254.3.3", "203.0.113.9", "::1", "fe80::1", "fd00::5", "2001:db8::9"]


def hx(b):
    return bytes(b).hex()


# ------------------------------------------------------------------ chunkings
def chunkings(rng, data, n):
    """n chunkings of data (lists of byte strings)."""
    outs = [[data], [bytes([b]) for b in data]]
    if n == 1:
        n = 3
        outs = []
    elif n == 2 and rng.random() < 0.5:
        n = 3
        outs = [outs[rng.randrange(2)]]
    for _ in range(max(0, n - 2)):
        k = rng.randint(1, max(1, min(8, len(data))))
        cuts = sorted(rng.sample(range(1, len(data)), min(k, max(0, len(data) - 1)))) if len(data) > 1 else []
        ch = [data[a:b] for a, b in zip([0] + cuts, cuts + [len(data)])]
        if rng.random() < 0.5:
            for _ in range(rng.randint(1, 3)):
                ch.insert(rng.randrange(len(ch) + 1), b"")
        outs.append(ch)
    return outs[:n]


def all_chunkings(data):
    n = len(data)
    for mask in range(1 << (n - 1)):
        ch, cur = [], [data[0]]
        for i in range(1, n):
            if mask >> (i - 1) & 1:
                ch.append(bytes(cur))
                cur = []
            cur.append(data[i])
        ch.append(bytes(cur))
        yield ch


# ------------------------------------------------------------------ SOCKS generator
def s_greet(rng, kind):
    if kind == "none":
        return bytes([5, 1, 0])
    if kind == "up":
        return bytes([5, 1, 2])
    if kind == "both":
        return bytes([5, 2, 0, 2])
    if kind == "both2":
        return bytes([5, 3, 1, 0, 2])
    if kind == "other":
        return bytes([5, 2, 1, 3])
    if kind == "badver":
        return bytes([rng.choice([0, 4, 6, 255]), 1, rng.choice([0, 2])])
    if kind == "zero":
        return bytes([5, 0]) + rng.choice([b"", b"\x02"])
    if kind == "lying":
        return bytes([5, 5, 2, 0])
    if kind == "many":
        n = rng.choice([16, 255])
        ms = [rng.choice([0, 1, 3, 9, 128]) for _ in range(n)]
        if rng.random() < 0.6:
            ms[rng.randrange(n)] = 2
        return bytes([5, n] + ms)
    n = rng.randint(1, 5)
    return bytes([5, n] + [rng.randrange(4) for _ in range(n)])


def s_userpass(rng, kind, user=USER, pw=PASS):
    if kind == "right":
        return bytes([1, len(user)]) + user + bytes([len(pw)]) + pw
    if kind == "wrongpw":
        p = bytes(pw[:-1]) + bytes([pw[-1] ^ 1])
        return bytes([1, len(user)]) + user + bytes([len(p)]) + p
    if kind == "wronguser":
        u = user + b"x"
        return bytes([1, len(u)]) + u + bytes([len(pw)]) + pw
    if kind == "prefix":
        return bytes([1, len(user)]) + user + bytes([len(pw) - 1]) + pw[:-1]
    if kind == "badver":
        return bytes([rng.choice([0, 5, 2]), len(user)]) + user + bytes([len(pw)]) + pw
    if kind == "ulen0":
        return bytes([1, 0, len(pw)]) + pw
    if kind == "plen0":
        return bytes([1, len(user)]) + user + bytes([0])
    if kind == "long":
        u = bytes(rng.randrange(256) for _ in range(255))
        p = bytes(rng.randrange(256) for _ in range(255))
        return bytes([1, 255]) + u + bytes([255]) + p
    u = bytes(rng.randrange(256) for _ in range(rng.randint(1, 6)))
    p = bytes(rng.randrange(256) for _ in range(rng.randint(1, 6)))
    return bytes([1, len(u)]) + u + bytes([len(p)]) + p


def s_request(rng, cmd=1, atyp=None, ver=5):
    atyp = atyp if atyp is not None else rng.choice([1, 3, 4])
    port = bytes([rng.randrange(256), rng.randrange(256)]) if rng.random() < 0.7 else rng.choice([b"\x00\x50", b"\x01\xbb", b"\x00\x00", b"\xff\xff"])
    if atyp == 1:
        a = bytes(rng.randrange(256) for _ in range(4))
    elif atyp == 4:
        r = rng.random()
        if r < 0.3:
            a = bytes(10) + b"\xff\xff" + bytes(rng.randrange(256) for _ in range(4))
        elif r < 0.45:
            a = bytes(15) + b"\x01"
        else:
            a = bytes(rng.randrange(256) for _ in range(16))
    elif atyp == 3:
        r = rng.random()
        if r < 0.6:
            name = rng.choice([b"example.com", b"a.b", b"host-z.internal", b"z", b"z" * 255])
        elif r < 0.8:
            name = b"z" + bytes(rng.choice(b"abc:%[]. \x00\xff") for _ in range(rng.randint(1, 9)))
        else:
            name = b""
        a = bytes([len(name)]) + name
    else:
        a = bytes(rng.randrange(256) for _ in range(rng.randint(0, 5)))
    return bytes([ver, cmd, rng.choice([0, 0, 7]), atyp]) + a + port


def gen_socks(rng, tier):
    scale = 1 if tier == "quick" else 12
    cases = []

    def add(auth, stream, tail, nchunk, dudp=False, dial=True, udp=True):
        for ch in chunkings(rng, stream, nchunk) if stream else [[]]:
            cases.append({"k": "socks", "auth": auth, "user": hx(USER), "pass": hx(PASS), "dudp": dudp, "dial": dial,
                          "udp": udp, "chunks": [hx(c) for c in ch], "tail": tail, "peer": rng.choice(PEERS)})

    greets = ["none", "up", "both", "both2", "other", "badver", "zero", "lying", "many", "rand"]
    ups = ["right", "wrongpw", "wronguser", "prefix", "badver", "ulen0", "plen0", "long", "rand"]
    for _ in range(scale):
        for auth in (True, False):
            for g in greets:
                gr = s_greet(rng, g)
                offers = (2 in gr[2:2 + gr[1]]) if auth else (0 in gr[2:2 + gr[1]])
                upk = ups if (auth and offers and gr[0] == 5 and len(gr) == 2 + gr[1] and gr[1] > 0) else ["right"]
                for u in upk:
                    up = s_userpass(rng, u) if auth else b""
                    cmd = rng.choice([1, 1, 1, 3, 3, 2, 9])
                    req = s_request(rng, cmd=cmd, atyp=rng.choice([1, 3, 4, 4, 3, 2]), ver=rng.choice([5, 5, 5, 5, 4]))
                    tail = bytes(rng.randrange(256) for _ in range(rng.choice([0, 0, 1, 5, 40])))
                    stream = gr + up + req + tail
                    good = (gr[0] == 5 and gr[1] > 0 and len(gr) == 2 + gr[1] and offers and (not auth or u in ("right",))
                            and req[0] == 5 and req[3] in (1, 3, 4) and not (req[3] == 3 and req[4] == 0))
                    toff = len(gr + up + req) if (good and cmd == 1) else -1
                    add(auth, stream, toff, 3 if tier != "quick" else rng.choice([1, 2, 3]), dudp=rng.random() < 0.3,
                        dial=rng.random() < 0.85, udp=rng.random() < 0.85)
        # truncation at every offset of a fully valid authenticated CONNECT
        full = s_greet(rng, "both") + s_userpass(rng, "right") + s_request(rng, 1, 3) + b"tail"
        for cut in range(0, len(full) + 1, 1 if tier != "quick" else 2):
            add(True, full[:cut], -1 if cut < len(full) - 4 else len(full) - 4, 2 if tier != "quick" else 1)
        # the unauthenticated client that simply sends the request (skipping USER/PASS) or noise
        for _ in range(12 if tier != "quick" else 6):
            gr = s_greet(rng, rng.choice(["up", "both"]))
            add(True, gr + s_request(rng, rng.choice([1, 3])) + b"xyz", -1, 2)
            add(True, bytes(rng.choice([5, 5, 1, 0, 2, 3, rng.randrange(256)]) for _ in range(rng.randint(0, 30))), -1, 2)
            add(False, bytes(rng.choice([5, 5, 1, 0, 2, 3, rng.randrange(256)]) for _ in range(rng.randint(0, 30))), -1, 2)
    # The client that does not take no for an answer: wherever the server refuses it (no acceptable method -> 05 FF,
    # bad version, zero methods, USER/PASS rejected or malformed -> 01 01 / nothing) the client ignores the reply, goes on
    # as if it had been accepted and pipelines a WELL-FORMED request.  The request is spliced in at the offsets the
    # server can have consumed when it refuses (end of the greeting, behind the 2-byte headers, every offset of a
    # rejected USER/PASS message), so that a server which wrongly carries on finds a valid request exactly there.
    def good_req():
        cmd, atyp = rng.choice([1, 1, 3]), rng.choice([1, 3, 4])
        while True:
            r = s_request(rng, cmd=cmd, atyp=atyp, ver=5)
            if not (atyp == 3 and r[4] == 0):
                return r

    def offers(gr, want):
        return gr[0] == 5 and gr[1] > 0 and len(gr) == 2 + gr[1] and want in gr[2:]

    def insist(auth, pre, cuts):
        for cut in sorted(set(cuts)):
            stream = pre[:cut] + good_req() + bytes(rng.randrange(256) for _ in range(rng.choice([0, 3, 20])))
            styles = [[stream], [stream[:cut], stream[cut:]], [stream[:cut], b"", stream[cut:cut + 1], stream[cut + 1:]]]
            styles += chunkings(rng, stream, 1)
            if tier == "quick":
                styles = [styles[0], rng.choice(styles[1:])]
            for ch in styles:
                cases.append({"k": "socks", "auth": auth, "user": hx(USER), "pass": hx(PASS), "dudp": rng.random() < 0.2,
                              "dial": rng.random() < 0.9, "udp": rng.random() < 0.9, "chunks": [hx(c) for c in ch], "tail": -1,
                              "peer": rng.choice(PEERS)})

    for _ in range(scale):
        for auth in (True, False):
            want = 2 if auth else 0
            for g in ("none", "up", "other", "many", "rand", "badver", "zero", "lying"):
                for _try in range(20):
                    gr = s_greet(rng, g)
                    if not offers(gr, want):
                        break
                else:
                    continue
                insist(auth, gr, [2, len(gr)] + (list(range(2, len(gr))) if len(gr) <= 8 and tier != "quick" else []))
        for g in ("up", "both", "both2"):
            gr = s_greet(rng, g)
            for u in ("wrongpw", "wronguser", "prefix", "badver", "ulen0", "plen0", "rand"):
                pre = gr + s_userpass(rng, u)
                allc = list(range(len(gr), len(pre) + 1))
                insist(True, pre, allc if tier != "quick" else [len(gr) + 2, len(pre)] + rng.sample(allc, 2))
    # ALL chunkings of the authenticated prefix (greeting + USER/PASS), request in one piece
    pre = bytes([5, 1, 2]) + bytes([1, 1]) + b"u" + bytes([1]) + b"p"
    req = bytes([5, 1, 0, 1, 10, 0, 0, 1, 0x1f, 0x90])
    k = 0
    for ch in all_chunkings(pre):
        k += 1
        if tier == "quick" and k % 4 != 1:
            continue
        good = k % 8 != 5
        cases.append({"k": "socks", "auth": True, "user": hx(b"u"), "pass": hx(b"p" if good else b"q"), "dudp": False, "dial": True,
                      "udp": True, "chunks": [hx(c) for c in ch] + [hx(req + b"PIPE")], "tail": len(pre) + len(req) if good else -1})
    if tier != "quick":
        full = bytes([5, 1, 0]) + req
        for ch in all_chunkings(full):
            cases.append({"k": "socks", "auth": False, "user": "", "pass": "", "dudp": False, "dial": True, "udp": True,
                          "chunks": [hx(c) for c in ch], "tail": len(full)})
    return cases


# ------------------------------------------------------------------ HTTP generator
def b64(b):
    return base64.b64encode(b)


def pauth_variants(rng, user=USER, pw=PASS):
    good = b64(user + b":" + pw)
    v = [
        ("none", None), ("good", b"Basic " + good), ("lower", b"basic " + good), ("upper", b"BASIC " + good),
        ("mixed", b"bAsIc " + good), ("ows", b"  \t Basic " + good + b" \t "),
        ("wrongpw", b"Basic " + b64(user + b":" + pw + b"x")), ("wronguser", b"Basic " + b64(b"x" + user + b":" + pw)),
        ("swapped", b"Basic " + b64(pw + b":" + user)),
        ("nocolon", b"Basic " + b64(user + pw.replace(b":", b""))), ("emptyuser", b"Basic " + b64(b":" + pw)),
        ("emptyboth", b"Basic " + b64(b":")), ("twospaces", b"Basic  " + good), ("nospace", b"Basic" + good),
        ("tab", b"Basic\t" + good), ("bearer", b"Bearer " + good), ("empty", b""), ("basiconly", b"Basic "),
        ("basicnosp", b"Basic"), ("badchar", b"Basic " + good[:3] + b"*" + good[4:]),
        ("nopad", b"Basic " + good.rstrip(b"=")) if good.endswith(b"=") else ("nopad", b"Basic " + b64(b"ab:c")[:-1]),
        ("garbage", b"Basic " + good + b"AAAA" if good.endswith(b"=") else b"Basic " + good + b"=A"),
        ("trailsp", b"Basic " + good + b" x"), ("dotless", b"Bas\xc4\xb0c " + good), ("dotless5", b"Bas\xc4\xb0c" + good),
        ("urlsafe", b"Basic " + base64.urlsafe_b64encode(b"\xfb\xff:" + pw)),
        ("short", b"Bas"), ("pad1", b"Basic " + b64(user + b":" + pw + b"1")), ("pad2", b"Basic " + b64(user + b":" + pw + b"12")),
    ]
    return v


def http_req(rng, connect, host, port, pauth, keepalive, status, cl=None, te=False):
    """returns (serialised bytes, structured dict); cl / te = body-framing fields (Content-Length value,
    Transfer-Encoding: chunked) put on the request"""
    hp = host + (b":" + port if port else b"")
    if connect:
        lines = [b"CONNECT " + hp + b" HTTP/1.1", b"Host: " + hp]
        fr = []
        if cl is not None:
            fr.append(rng.choice([b"Content-Length: ", b"content-length:"]) + str(cl).encode())
        if te:
            fr.append(rng.choice([b"Transfer-Encoding: chunked", b"transfer-encoding:  Chunked"]))
        rng.shuffle(fr)
        for f in fr:
            lines.insert(rng.randrange(1, len(lines) + 1), f)
    else:
        lines = [b"GET http://" + hp + b"/p?q=1 HTTP/1.1", b"Host: " + hp]
        if keepalive:
            lines.append(rng.choice([b"Proxy-Connection: keep-alive", b"Connection: Keep-Alive"]))
    lines.append(b"User-Agent: verif")
    if pauth is not None:
        lines.insert(rng.randrange(1, len(lines) + 1), rng.choice([b"Proxy-Authorization: ", b"proxy-authorization:", b"Proxy-Authorization:   "]) + pauth)
    raw = b"\r\n".join(lines) + b"\r\n\r\n"
    addr = host + b":" + (port if port else b"80")
    return raw, {"connect": connect, "addr": hx(addr), "pauth": None if pauth is None else hx(pauth), "ka": keepalive, "st": status,
                 "cl": cl if connect else None, "te": bool(te and connect)}


def gen_http(rng, tier):
    scale = 1 if tier == "quick" else 10
    cases = []
    hosts = [(b"example.com", b"443"), (b"a.b", b"8080"), (b"10.1.2.3", b"22"), (b"h-1.internal", b""), (b"x.y", b"80")]

    def emit_cuts(auth, reqs, tail, cutsets, dial=True, user=USER, pw=PASS):
        """one case per set of split points of header blocks ++ tail"""
        raws = b"".join(r for r, _ in reqs)
        stream = raws + tail
        h = len(raws)
        for cuts in cutsets:
            cuts = sorted(c for c in set(cuts) if 0 < c < len(stream))
            ch = [stream[a:b] for a, b in zip([0] + cuts, cuts + [len(stream)])]
            cases.append({"k": "http", "auth": auth, "user": hx(user), "pass": hx(pw), "dial": dial,
                          "chunks": [hx(c) for c in ch], "status": [r[1]["st"] for r in reqs if not r[1]["connect"]],
                          "tail": h if reqs[-1][1]["connect"] else -1, "reqs": [r[1] for r in reqs], "h": h})

    def emit(auth, reqs, tail, dial, user=USER, pw=PASS):
        raws = b"".join(r for r, _ in reqs)
        stream = raws + tail
        h = len(raws)
        # split points: random, at the header end, one before / after it
        for mode in (range(3) if tier != "quick" else [rng.randrange(3), 2]):
            cuts = set()
            if mode == 0:
                pass
            elif mode == 1:
                cuts = {h} if tail else {max(1, h - 1)}
                if rng.random() < 0.5:
                    cuts.add(rng.randrange(1, h))
            else:
                for _ in range(rng.randint(1, 5)):
                    cuts.add(rng.randrange(1, len(stream)))
                if rng.random() < 0.4 and tail:
                    cuts.add(h + rng.choice([-1, 1]) if len(tail) > 1 else h)
            cuts = sorted(c for c in cuts if 0 < c < len(stream))
            ch = [stream[a:b] for a, b in zip([0] + cuts, cuts + [len(stream)])]
            if mode == 2 and rng.random() < 0.5:
                ch.insert(rng.randrange(len(ch) + 1), b"")
            lastc = reqs[-1][1]["connect"]
            cases.append({"k": "http", "auth": auth, "user": hx(user), "pass": hx(pw), "dial": dial,
                          "chunks": [hx(c) for c in ch], "status": [r[1]["st"] for r in reqs if not r[1]["connect"]],
                          "tail": h if lastc else -1, "reqs": [r[1] for r in reqs], "h": h, "peer": rng.choice(PEERS)})

    full_done = [0]      # every split point of the whole stream: once per framing (thorough tier)
    for _ in range(scale):
        for name, pa in pauth_variants(rng):
            for connect in (True, False):
                host, port = rng.choice(hosts)
                if connect and not port and rng.random() < 0.5:
                    port = b"443"
                tail = bytes(rng.randrange(256) for _ in range(rng.choice([0, 1, 7, 60]))) if connect else b""
                if tail.startswith(b"GET "):
                    tail = b"x" + tail
                r = http_req(rng, connect, host, port, pa, rng.random() < 0.5, rng.choice([200, 204, 404]))
                emit(True, [r], tail, rng.random() < 0.9)
        # no AuthFunc configured
        for connect in (True, False):
            host, port = rng.choice(hosts)
            r = http_req(rng, connect, host, port or (b"1" if connect else b""), rng.choice([None, b"Basic xx"]), False, 200)
            emit(False, [r], b"pipelined" if connect else b"", True)
        # keep-alive sequences: every request is gated separately
        good = b"Basic " + b64(USER + b":" + PASS)
        bad = b"Basic " + b64(USER + b":nope")
        for second in (good, bad, None):
            for conn2 in (True, False):
                r1 = http_req(rng, False, b"x.y", b"", good, True, 204)
                r2 = http_req(rng, conn2, b"a.b", b"81", second, False, 200)
                emit(True, [r1, r2], b"behind-connect" if conn2 else b"", True)
        r1 = http_req(rng, False, b"x.y", b"", good, True, 200)
        r2 = http_req(rng, False, b"x.y", b"8080", good, True, 404)
        r3 = http_req(rng, True, b"c.d", b"443", good, False, 200)
        emit(True, [r1, r2, r3], b"\x16\x03\x01tls", True)
        # CONNECT whose header block declares a body (Content-Length 0 / n / exactly / more than what follows,
        # Transfer-Encoding: chunked in front of a well-formed chunked body, of a truncated one and of bytes that
        # are no chunked body at all, both fields): req.Body then reads from the reader that holds the pipelined
        # bytes, and whatever follows the blank line is tunnel payload and must reach the upstream - whole stream,
        # byte-wise, and split in two at EVERY point (quick: every point from just before the blank line on, and
        # a few inside the header block)
        good = b"Basic " + b64(USER + b":" + PASS)
        nraw = rng.randint(6, 14) if tier != "quick" else rng.randint(5, 8)
        rawtail = bytes(rng.randrange(256) for _ in range(nraw))
        chunk = bytes(rng.randrange(256) for _ in range(rng.randint(1, 5)))
        chunked = b"%x\r\n" % len(chunk) + chunk + b"\r\n0\r\n\r\n"
        more = bytes(rng.randrange(256) for _ in range(rng.randint(1, 6)))
        framings = [(0, False, rawtail), (rng.randint(1, nraw - 1), False, rawtail), (nraw, False, rawtail),
                    (nraw + rng.randint(1, 9), False, rawtail), (1 << rng.choice([12, 20, 40]), False, rawtail),
                    (rng.randint(1, nraw), False, b""),
                    (None, True, chunked + more), (None, True, chunked), (None, True, chunked[:-rng.randint(1, 4)]),
                    (None, True, rawtail), (None, True, b"zz\r\n" + rawtail), (rng.randint(0, nraw), True, chunked + more)]
        if tier == "quick":
            # one of each kind: length 0 / short / over-long / huge-or-exact, chunked (well-formed / not), both
            framings = [framings[0], framings[1], framings[rng.choice([3, 4])], framings[rng.choice([2, 5])],
                        framings[rng.choice([6, 7, 8])], framings[rng.choice([9, 10])], framings[11]]
        for cl, te, tail in framings:
            host, port = rng.choice(hosts)
            auth = rng.random() < 0.8
            r = http_req(rng, True, host, port or b"443", good if auth or rng.random() < 0.5 else None, False, 200, cl=cl, te=te)
            h, n = len(r[0]), len(r[0]) + len(tail)
            if tier != "quick" and full_done[0] < len(framings):
                full_done[0] += 1
                pts = list(range(1, n))
            else:
                pts = sorted(set(range(h - 2, n)) | set(rng.sample(range(1, h - 2), 2)))
            cutsets = [[], list(range(1, n))] + [[p] for p in pts] + ([[h, p] for p in pts[::3] if p > h] if tier != "quick" else [])
            emit_cuts(auth, [r], tail, cutsets, dial=True)
        # the same behind a keep-alive plain request
        r1 = http_req(rng, False, b"x.y", b"", good, True, 204)
        r2 = http_req(rng, True, b"a.b", b"81", good, False, 200, cl=rng.randint(1, 5), te=rng.random() < 0.3)
        hh = len(r1[0]) + len(r2[0])
        emit_cuts(True, [r1, r2], b"behind-connect", [[], [hh], [hh - 1], [hh + 2], [len(r1[0]), hh + 1]])
        # credentials with other shapes
        for user, pw in ((b"u", b"p"), (b"", b"p"), (b"u", b""), (b"a:b", b"c"), (b"\xc3\xa9", b"\x00\xff")):
            pa = b"Basic " + b64(user + b":" + pw)
            r = http_req(rng, True, b"a.b", b"443", pa, False, 200)
            emit(True, [r], b"zz", True, user=user, pw=pw)
    return cases


# ------------------------------------------------------------------ HTTP: request-target classes
METHODS = [b"GET", b"POST", b"HEAD", b"OPTIONS", b"PUT", b"DELETE", b"CONNECT", b"BREW"]
# (class the client intends, request-target as sent).  What net/http makes of it (form, URL.Scheme, URL.Host,
# req.Host) is reported by the harness; several of these do not parse at all for some methods.
TARGETS = [
    ("origin", b"/p/a?q=1"), ("origin", b"/"), ("origin", b"//h.example/p"), ("origin", b"/http://h.example/"),
    ("asterisk", b"*"),
    ("absolute", b"http://h.example/p?q=1"), ("absolute", b"http://h.example:8080/"), ("absolute", b"http://h.example:80/x"),
    ("absolute", b"http://h.example:/"), ("absolute", b"HTTP://H.Example/"), ("absolute", b"https://h.example/"),
    ("absolute", b"https://h.example:8443/p"), ("absolute", b"ftp://h.example/f"), ("absolute", b"ws://h.example/s"),
    ("absolute-nohost", b"http:///x"), ("absolute-nohost", b"http:opaque"), ("absolute-nohost", b"https:///"),
    ("absolute-nohost", b"mailto:a@h.example"),
    ("authority", b"h.example:443"), ("authority", b"h.example"), ("authority", b"h.example:80"), ("authority", b"h.example:"),
    ("authority", b"10.1.2.3:22"),
    ("emptyhost", b":80"), ("emptyhost", b":"), ("emptyhost", b""), ("emptyhost", b"?q=1"),
    ("userinfo", b"http://user:pw@h.example/"), ("userinfo", b"user@h.example:443"), ("userinfo", b"http://user@:81/"),
    ("ipv6", b"[::1]:443"), ("ipv6", b"http://[::1]:8080/"), ("ipv6", b"[fe80::1%25eth0]:80"), ("ipv6", b"http://[::1]:80/"),
    ("ipv6", b"[::1]"), ("ipv6", b"http://[2001:db8::2]/"),
    ("loopback", b"localhost:8080"), ("loopback", b"http://127.0.0.1/"), ("loopback", b"http://localhost:80/"),
    ("malformed", b"h.example:http"), ("malformed", b"http://h.example:x/"), ("malformed", b"http://[::1/"),
    ("malformed", b"/%zz"), ("malformed", b"http://h ex/"),
]
HOST_HEADERS = [b"h.example", b"other.example:8081", None, b"[::2]:80", b"h.example:80", b"h.example:443", b""]


def raw_req(rng, method, target, cred, host="auto", ka=None, proto=b"HTTP/1.1", st=None, body=None):
    """one request head (+ body) as raw bytes; cred in none / wrong / malformed / good (or a raw header value)"""
    good = b"Basic " + b64(USER + b":" + PASS)
    if cred == "none":
        pa = None
    elif cred == "good":
        pa = good
    elif cred == "wrong":
        pa = rng.choice([b"Basic " + b64(USER + b":nope"), b"Basic " + b64(b"root:" + PASS), b"basic " + b64(PASS + b":" + USER)])
    elif cred == "malformed":
        pa = rng.choice([b"Basic", b"Basic ", b"Bearer " + good[6:], b"Basic !" + good[7:], b"Basic " + b64(USER + PASS.replace(b":", b"")),
                         good[6:], b"", b"Basic " + good[6:] + b" x", b"Digest username=\"user\""])
    else:
        pa = cred
    if host == "auto":
        host = rng.choice(HOST_HEADERS)
    lines = [method + b" " + target + b" " + proto]
    if host is not None:
        lines.append(b"Host: " + host)
    if ka is None:
        ka = rng.random() < 0.3
    if ka:
        lines.append(rng.choice([b"Proxy-Connection: keep-alive", b"Connection: Keep-Alive"]))
    if st is None:
        st = rng.choice([200, 204, 404])
    lines.append(b"X-Verif-Status: %d" % st)
    if body is None and method in (b"POST", b"PUT") and rng.random() < 0.6:
        body = bytes(rng.choice(b"abcxyz=&") for _ in range(rng.randint(1, 9)))
    if body is not None:
        lines.append(b"Content-Length: %d" % len(body))
    if pa is not None:
        lines.insert(rng.randrange(1, len(lines) + 1), rng.choice([b"Proxy-Authorization: ", b"proxy-authorization:"]) + pa)
    raw = b"\r\n".join(lines) + b"\r\n\r\n" + (body or b"")
    return raw, {"pauth": None if pa is None else hx(pa), "cl": None, "te": False}


def gen_http_forms(rng, tier):
    """every method x every request-target class x every credential state, as raw bytes on the connection
    (net/http decides what the target is), alone, in front of pipelined bytes, and behind an accepted
    keep-alive request"""
    cases = []

    def emit(auth, parts, tail, dial=True, cls=""):
        raws = b"".join(r for r, _ in parts)
        stream = raws + tail
        mode = rng.randrange(4)
        if mode == 0 or len(stream) < 3:
            ch = [stream]
        elif mode == 1:
            cut = rng.randrange(1, len(stream))
            ch = [stream[:cut], stream[cut:]]
        elif mode == 2 and tail:
            ch = [raws, tail]
        else:
            ch = chunkings(rng, stream, 1)[0]
        cases.append({"k": "http", "auth": auth, "user": hx(USER), "pass": hx(PASS), "dial": dial, "chunks": [hx(c) for c in ch],
                      "status": [], "tail": -1, "reqs": [g for _, g in parts], "h": 0, "cls": cls, "peer": rng.choice(PEERS)})

    def tail_for(method):
        r = rng.random()
        if method == b"CONNECT":
            return rng.choice([b"", b"\x16\x03\x01\x00\x05hello", b"GET / HTTP/1.1\r\n\r\n", bytes(rng.randrange(256) for _ in range(rng.randint(1, 30)))])
        if r < 0.4:
            return b""
        if r < 0.6:
            return b"\x00\xffjunk"
        # a second request the client pipelines without waiting: never to be looked at unless the first one
        # was accepted and kept the connection alive - and then gated on its own (it carries no credentials)
        return raw_req(rng, rng.choice([b"CONNECT", b"GET"]), rng.choice([b"h.example:443", b"http://h.example/2", b"/x"]), "none")[0] + b"tunnel"

    creds = ["none", "wrong", "malformed", "good"]
    rounds = 1 if tier == "quick" else 4
    for rnd in range(rounds):
        for ti, (cls, tgt) in enumerate(TARGETS):
            for mi, method in enumerate(METHODS):
                if tier == "quick" and method != b"CONNECT":
                    # every method without credentials; accepted credentials with two of the methods, wrong and
                    # malformed ones with one each (rotating over the targets)
                    k = (mi + ti + rnd) % 7
                    todo = ["none"] + (["good"] if k in (0, 4) else []) + (["wrong"] if k == 1 else []) + (["malformed"] if k == 3 else [])
                else:
                    todo = creds
                for cred in todo:
                    r = raw_req(rng, method, tgt, cred, proto=b"HTTP/1.0" if rng.random() < 0.08 else b"HTTP/1.1")
                    emit(True, [r], tail_for(method), dial=rng.random() < 0.9, cls="%s/%s/%s" % (method.decode(), cls, cred))
            # no AuthFunc configured: the same targets go straight through
            r = raw_req(rng, rng.choice(METHODS), tgt, rng.choice(["none", "wrong"]))
            emit(False, [r], b"", cls="noauth/" + cls)
        # several requests on one connection: behind an accepted keep-alive request (upstream answered,
        # connection kept) every class again with no / wrong / malformed credentials - each request is
        # gated on its own - and with accepted ones
        for cls, tgt in TARGETS:
            ms = [b"CONNECT", rng.choice(METHODS[:6] + METHODS[7:])] if tier == "quick" else METHODS
            for method in ms:
                for cred in (["none", rng.choice(["wrong", "malformed", "good"])] if tier == "quick" else creds):
                    r1 = raw_req(rng, rng.choice([b"GET", b"POST", b"HEAD"]), rng.choice([b"http://h.example/1", b"http://k.example:8080/k"]),
                                 "good", host=b"h.example", ka=True)
                    r2 = raw_req(rng, method, tgt, cred)
                    emit(True, [r1, r2], tail_for(method), cls="2nd/%s/%s/%s" % (method.decode(), cls, cred))
        # three requests: accepted, accepted (hostless / non-proxy form: 400, connection closed), anything
        for cls, tgt in rng.sample(TARGETS, 6 if tier == "quick" else len(TARGETS)):
            r1 = raw_req(rng, b"GET", b"http://h.example/1", "good", host=b"h.example", ka=True)
            r2 = raw_req(rng, rng.choice(METHODS[:6]), rng.choice([b"/", b"*", b"/p"]), "good", ka=True)
            r3 = raw_req(rng, rng.choice(METHODS), tgt, rng.choice(creds))
            emit(True, [r1, r2, r3], b"", cls="3rd/" + cls)
    return cases


def gen_reads(rng, tier, kind):
    n = 25 if tier == "quick" else 600
    cases = []
    for _ in range(n):
        buf = bytes(rng.randrange(256) for _ in range(1 if kind == "onebyte" else rng.choice([1, 2, 5, 40])))
        chunks = [bytes(rng.randrange(256) for _ in range(rng.choice([0, 0, 1, 2, 3, 9]))) for _ in range(rng.randint(0, 5))]
        sizes = [rng.choice([0, 0, 1, 1, 2, 3, 8, 64]) for _ in range(rng.randint(1, 14))] + [64] * 8
        cases.append({"k": kind, "buf": hx(buf), "chunks": [hx(c) for c in chunks], "sizes": sizes})
    return cases


# ------------------------------------------------------------------ mux histories
def gen_mux(rng, tier):
    n = 60 if tier == "quick" else 1500
    cases = []
    for ci in range(n):
        ops = []
        # light simulation of the quiescent semantics, only to keep bursts out of the shutdown window
        slot = {"ls": None, "lh": None}
        closed = []
        dead = False
        nconn = 0

        def quiesce():
            nonlocal dead
            seen = False
            for k in ("ls", "lh"):
                if slot[k] is not None and closed[slot[k]]:
                    slot[k] = None
                    seen = True
            if seen and slot["ls"] is None and slot["lh"] is None:
                dead = True

        def listen(k):
            if slot[k] is not None and not closed[slot[k]]:
                return
            if dead:
                return
            closed.append(False)
            slot[k] = len(closed) - 1

        length = rng.randint(3, 16)
        if rng.random() < 0.8:
            first = rng.choice(["ls", "lh"])
            ops.append({"op": first, "w": True})
            listen(first)
        for _ in range(length):
            r = rng.random()
            if r < 0.13:
                k = rng.choice(["ls", "lh"])
                ops.append({"op": k, "w": True})
                listen(k)
            elif r < 0.22 and closed:
                a = rng.randrange(len(closed))
                other_live = any(slot[k] is not None and slot[k] != a and not closed[slot[k]] for k in slot)
                kind = next((k for k in slot if slot[k] == a), None)
                if other_live and kind and not closed[a] and rng.random() < 0.6:
                    # burst: close and immediately re-register the same protocol (pending-closed replacement)
                    ops.append({"op": "sc", "a": a, "w": False})
                    closed[a] = True
                    ops.append({"op": kind, "w": True})
                    listen(kind)
                else:
                    ops.append({"op": "sc", "a": a, "w": True})
                    closed[a] = True
                quiesce()
            elif r < 0.45:
                ops.append({"op": "in", "w": True})
                nconn += 1
            elif r < 0.72:
                b = rng.choice([5, 5, 5, 0x47, 0x43, 0x16, 4, 0, 255])
                # z: Read calls returning (0, nil) before the one that yields the first byte
                ops.append({"op": "fb", "a": rng.randrange(8), "b": b, "z": rng.choice([0, 0, 1, 1, 2, 7]), "w": True})
            elif r < 0.78:
                ops.append({"op": "re", "a": rng.randrange(8), "z": rng.choice([0, 0, 1, 3]), "w": True})
            elif closed:
                ops.append({"op": "ac", "a": rng.randrange(len(closed)), "w": True})
        ops.append({"op": "acall", "w": True})
        rest = [bytes(rng.randrange(256) for _ in range(rng.choice([0, 1, 2, 5]))) for _ in range(rng.randint(0, 3))]
        sizes = [rng.choice([0, 0, 1, 2, 5]) for _ in range(rng.randint(0, 6))]
        cases.append({"k": "mux", "ops": ops, "rest": [hx(c) for c in rest], "sizes": sizes})
    # directed histories: a routed connection waits for Accept while its sub-listener closes / is replaced /
    # the other protocol's listener goes away / the mux shuts down
    W = True
    for k, b in (("ls", 5), ("lh", 0x47)):
        other = "lh" if k == "ls" else "ls"
        tmpl = [
            [k, "in", ("fb", b), ("sc", 0)],
            [k, other, "in", "in", ("fb", b), ("fb", b), ("sc", 0), ("ac", 1)],
            [k, other, "in", ("fb", b), ("sc", 1), ("sc", 0)],
            [k, other, "in", ("fb", b), ("sc", 0), k, "in", ("fb", b)],
            [k, "in", "in", ("fb", b), ("ac", 0), ("fb", b), ("sc", 0)],
            [k, "in", ("ac", 0), ("ac", 0), ("sc", 0), ("fb", b)],
            [other, "in", ("fb", b), k, "in", ("fb", b)],
            [k, "in", ("re", 0), "in", ("fb", b), ("ac", 0), ("sc", 0), "in"],
        ]
        for ti, t in enumerate(tmpl):
            # every template with the first byte arriving at once and behind zero-length reads
            for z in ((0, 1 + ti % 3) if tier == "quick" else (0, 1, 2, 5)):
                ops = []
                for x in t:
                    if isinstance(x, str):
                        ops.append({"op": x, "w": W})
                    elif x[0] == "fb":
                        ops.append({"op": "fb", "a": 0, "b": x[1], "z": z, "w": W})
                    elif x[0] == "re":
                        ops.append({"op": "re", "a": x[1], "z": z, "w": W})
                    else:
                        ops.append({"op": x[0], "a": x[1], "w": W})
                ops.append({"op": "acall", "w": W})
                cases.append({"k": "mux", "ops": ops, "rest": [hx(b"rest"), "", hx(b"!")], "sizes": [0, 1, 0, 3]})
    # both protocols registered and accepting, one connection per first byte, the byte behind z zero-length
    # reads, the rest of the stream itself starting with zero-length reads: handler choice and the bytes
    # the handler reads are checked against the client's stream
    for b in (5, 0x47, 0x43, 0, 4, 255):
        for z in ((0, 1, 4) if tier == "quick" else (0, 1, 2, 3, 4, 9)):
            ops = [{"op": "ls", "w": W}, {"op": "lh", "w": W}, {"op": "ac", "a": 0, "w": W}, {"op": "ac", "a": 1, "w": W},
                   {"op": "in", "w": W}, {"op": "fb", "a": 0, "b": b, "z": z, "w": W}, {"op": "acall", "w": W}]
            rest = [b""] * rng.randint(0, 2) + [bytes(rng.randrange(256) for _ in range(rng.choice([1, 3, 12])))] + [b"", b"\x05\x00"]
            cases.append({"k": "mux", "ops": ops, "rest": [hx(c) for c in rest], "sizes": [rng.choice([0, 1, 2, 64]) for _ in range(4)]})
    # the two shutdown-window schedules found in round 1 (fixed by 2cea45c / c413452), deterministic
    cases.append({"k": "muxd1"})
    cases.append({"k": "muxd2"})
    return cases


# ------------------------------------------------------------------ relay phase on scripted conns
def relay_header(rng, inb, auth):
    """the negotiation / header part of a client stream that leads to an upstream dial"""
    if inb == "socks":
        while True:
            req = s_request(rng, cmd=1, atyp=rng.choice([1, 3, 4]), ver=5)
            if not (req[3] == 3 and req[4] == 0):
                break
        if auth:
            return s_greet(rng, rng.choice(["up", "both", "both2"])) + s_userpass(rng, "right") + req
        return s_greet(rng, rng.choice(["none", "both"])) + req
    host, port = rng.choice([(b"example.com", b"443"), (b"a.b", b"8080"), (b"10.1.2.3", b"22"), (b"[::1]", b"443")])
    good = b"Basic " + b64(USER + b":" + PASS)
    raw, _ = http_req(rng, True, host, port, good if auth else rng.choice([None, b"Basic xx"]), False, 200)
    return raw


def relay_chop(rng, data, mode):
    """a payload as read items: list of byte strings (an empty one = a Read returning (0, nil))"""
    if not data:
        return []
    if mode == "whole":
        return [data]
    if mode == "bytes":
        return [bytes([b]) for b in data]
    out, i = [], 0
    while i < len(data):
        n = rng.choice([1, 1, 2, 3, 7, 17, 100, 1000])
        out.append(data[i:i + n])
        i += n
        if rng.random() < 0.15:
            out.append(b"")
    return out


def gen_relay(rng, tier):
    """RELAY phase of both inbounds (alone and behind the shared port) on conns that are not kernel sockets:
    both directions carry data; reads of 1 byte, zero bytes, many bytes and more than the copy buffer; the
    last bytes of a side delivered together with io.EOF / with another error / followed by a bare EOF /
    never followed by anything; bytes pipelined behind the SOCKS5 request / the CONNECT header in the same
    read (cachedConn) and behind the detection byte of the shared port (connWithOneByte); a Write of one
    direction stalled until the opposite direction has delivered data (and that delivery waiting until the
    Write is in progress), in either direction and in both; sinks that refuse a Write."""
    cases = []
    n_each = {"rsocks": 44, "rhttp": 56, "rmux": 32} if tier == "quick" else {"rsocks": 400, "rhttp": 500, "rmux": 300}
    huge_left = {"rsocks": 2, "rhttp": 2, "rmux": 1} if tier == "quick" else {"rsocks": 8, "rhttp": 8, "rmux": 4}
    ends = ["dataeof", "dataeof", "eof", "dataerr", "err", "hold"]
    for kind, n in n_each.items():
        for ci in range(n):
            inb = {"rsocks": "socks", "rhttp": "http"}.get(kind) or rng.choice(["socks", "http"])
            auth = rng.random() < 0.4
            header = relay_header(rng, inb, auth)
            huge = huge_left[kind] > 0 and ci % 9 == 4
            if huge:
                huge_left[kind] -= 1
            # ---- the two payloads (distinct contents: a byte of one direction showing up in the other is visible)
            ulen = rng.choice([0, 1, 2, 5, 40, 200, 600]) if ci % 7 else rng.choice([1, 40, 3000])
            dlen = rng.choice([0, 1, 3, 30, 150, 500]) if ci % 5 else rng.choice([2, 64, 2500])
            if ci % 4 == 0:
                ulen, dlen = max(ulen, 8), max(dlen, 8)
            upay = bytes(rng.randrange(256) for _ in range(ulen))
            dpay = bytes(rng.randrange(256) for _ in range(dlen))
            uparts, dparts = [{"hex": hx(upay)}], [{"hex": hx(dpay)}]
            umode = rng.choice(["whole", "bytes", "rand", "rand"]) if ulen <= 64 else rng.choice(["whole", "rand", "rand"])
            dmode = rng.choice(["whole", "bytes", "rand", "rand"]) if dlen <= 64 else rng.choice(["whole", "rand", "rand"])
            uitems = [{"hex": hx(b)} for b in relay_chop(rng, upay, umode)]
            ditems = [{"hex": hx(b)} for b in relay_chop(rng, dpay, dmode)]
            if huge:
                gd = [rng.randrange(1, 256) | 1, rng.randrange(256), rng.choice([32768, 32769, 40000, 70001])]
                if rng.random() < 0.5:
                    uitems.insert(rng.randrange(len(uitems) + 1), {"gd": gd})
                    # the payload in order of the items
                    uparts = [{"gd": it["gd"]} if "gd" in it else {"hex": it["hex"]} for it in uitems]
                else:
                    ditems.insert(rng.randrange(len(ditems) + 1), {"gd": gd})
                    dparts = [{"gd": it["gd"]} if "gd" in it else {"hex": it["hex"]} for it in ditems]
            # ---- how the header part is read, and what is pipelined behind it in the same read
            hmode = rng.choice(["alone", "pipe", "pipe", "bytes", "cut"])
            if hmode == "alone":
                hitems = [{"hex": hx(header)}]
            elif hmode == "bytes":
                hitems = [{"hex": hx(bytes([b]))} for b in header]
            elif hmode == "cut":
                cut = rng.randrange(1, len(header))
                hitems = [{"hex": hx(header[:cut])}, {"hex": ""}, {"hex": hx(header[cut:])}]
            else:
                # the first payload items travel in the same read as the end of the header
                k = 0
                glued = b""
                while k < len(uitems) and "hex" in uitems[k] and len(glued) < 3000 and (k == 0 or rng.random() < 0.6):
                    glued += bytes.fromhex(uitems[k]["hex"])
                    k += 1
                uitems = uitems[k:]
                cut = rng.choice([0, 0, rng.randrange(1, len(header))])
                hitems = ([{"hex": hx(header[:cut])}] if cut else []) + [{"hex": hx(header[cut:] + glued)}]
            nh = len(hitems)
            cr = hitems + uitems
            ur = ditems
            # ---- how the two sides end
            cend, uend = rng.choice(ends), rng.choice(ends + ["hold", "hold"])
            chold = uhold = False

            def finish(items, end, first):
                """first = index of the first item that may carry the error (payload items only)"""
                if end == "hold":
                    return True
                if end in ("dataeof", "dataerr") and len(items) > first:
                    items[-1]["err"] = "eof" if end == "dataeof" else "err"
                else:
                    items.append({"hex": "", "err": "err" if end in ("err", "dataerr") else "eof"})
                return False
            # a header read that carries the error would end the negotiation, not the relay: only when payload is glued to it
            cfirst = nh if hmode != "pipe" else nh - 1
            if hmode == "pipe" and not glued:
                cfirst = nh
            chold = finish(cr, cend, cfirst)
            uhold = finish(ur, uend, 0)
            # ---- full-duplex overlap: a Write stalls until the opposite direction has delivered an item, and that item
            # is only handed out once the Write is in progress
            cw, uw = [], []

            def wslot(lst, j):
                while len(lst) <= j:
                    lst.append({"n": -1})
                return lst[j]
            ov = rng.choice(["none", "up", "up", "down", "down", "both", "rand"]) if ci % 3 else rng.choice(["up", "down", "both"])
            npay_c = [i for i in range(nh, len(cr)) if cr[i].get("hex", "x") != "" or "gd" in cr[i]]
            ndat_u = [i for i in range(len(ur)) if ur[i].get("hex", "x") != "" or "gd" in ur[i]]
            if ov in ("up", "both") and ndat_u:
                j, k = rng.choice([0, 0, 0, 1, 2]), rng.choice(ndat_u[:3])
                wslot(uw, j)["wait"] = ["ur%d" % k]
                ur[k]["wait"] = ["uw%de" % j]
            if ov in ("down", "both") and npay_c:
                j, k = rng.choice([0, 0, 0, 1, 2]), rng.choice(npay_c[:3])
                wslot(cw, j)["wait"] = ["cr%d" % k]
                cr[k]["wait"] = ["cw%de" % j]
            if ov == "rand":
                for _ in range(rng.randint(1, 3)):
                    side = rng.choice("cu")
                    ev = rng.choice(["cr%d" % rng.randrange(nh, len(cr) + 1), "ur%d" % rng.randrange(len(ur) + 1),
                                     "cw%d" % rng.randrange(3), "uw%de" % rng.randrange(3), "cw%de" % rng.randrange(3), "uw%d" % rng.randrange(3)])
                    if rng.random() < 0.5:
                        wslot(cw if side == "c" else uw, rng.randrange(3)).setdefault("wait", []).append(ev)
                    else:
                        lst, lo = (cr, nh) if side == "c" else (ur, 0)
                        if len(lst) > lo:
                            lst[rng.randrange(lo, len(lst))].setdefault("wait", []).append(ev)
            # ---- a sink that refuses a Write (takes a prefix of it, or nothing)
            if rng.random() < 0.12:
                wslot(rng.choice([cw, uw]), rng.choice([0, 1, 3]))["n"] = rng.choice([0, 0, 1, 5])
            cases.append({"k": kind, "inb": inb, "auth": auth, "user": hx(USER), "pass": hx(PASS), "tail": len(header),
                          "cr": cr, "ur": ur, "cw": cw, "uw": uw, "chold": chold, "uhold": uhold, "peer": rng.choice(PEERS),
                          "usrc": uparts, "dsrc": dparts, "shape": "%s/%s/%s/%s" % (hmode, cend, uend, ov)})
    return cases


def gen(rng, tier):
    return (gen_socks(rng, tier) + gen_http(rng, tier) + gen_http_forms(rng, tier) + gen_reads(rng, tier, "cached") +
            gen_reads(rng, tier, "onebyte") + gen_mux(rng, tier) + gen_relay(rng, tier))


# ------------------------------------------------------------------ Coq terms
def cb(h):
    return common.coq_bytes(bytes.fromhex(h))


def cbool(b):
    return "true" if b else "false"


def script(chunks):
    return "[" + ";".join(cb(c) for c in chunks) + "]"


def auth_term(c):
    return "(Some (%s,%s))" % (cb(c["user"]), cb(c["pass"])) if c["auth"] else "None"


def split_addr(s):
    """'host:port' as HyClient.TCP got it -> (packed ip or None, port)"""
    host, _, port = s.rpartition(b":")
    try:
        pn = int(port)
    except ValueError:
        pn = 1 << 20
    if host.startswith(b"[") and host.endswith(b"]"):
        host = host[1:-1]
    try:
        ip = ipaddress.ip_address(host.decode("ascii"))
        return ip.packed, pn
    except Exception:
        return None, pn


def sev_terms(ev):
    out = []
    prev = None
    for e in ev:
        t = e["t"]
        if t == "reply":
            b = bytes.fromhex(e["hex"])
            if prev == "udp" and len(b) == 10 and b[:4] == bytes([5, 0, 0, 1]):
                out.append("OUdpReply")
            else:
                out.append("OReply %s" % cb(e["hex"]))
        elif t == "auth":
            out.append("OAuth %s %s %s" % (cb(e["u"]), cb(e["p"]), cbool(e["ok"])))
        elif t == "tcp":
            ip, pn = split_addr(bytes.fromhex(e["addr"]))
            out.append("OTcp %s %s %d" % (cb(e["addr"]), "None" if ip is None else "(Some %s)" % common.coq_bytes(ip), pn))
        elif t == "udp":
            out.append("OUdp")
        elif t == "relay":
            out.append("ORelay %s" % cb(e["hex"]))
        elif t == "close":
            out.append("OClose")
        prev = t
    return "[" + ";".join(out) + "]"


def hev_terms(ev):
    out = []
    for e in ev:
        t = e["t"]
        if t == "reply":
            out.append("HReply %d" % e["st"])
        elif t == "auth":
            out.append("HAuth %s %s %s" % (cb(e["u"]), cb(e["p"]), cbool(e["ok"])))
        elif t == "tcp":
            out.append("HTcp %s" % cb(e["addr"]))
        elif t == "udp":
            out.append("HTcp []")
        elif t == "relay":
            out.append("HRelay %s" % cb(e["hex"]))
        elif t == "close":
            out.append("HClose")
    return "[" + ";".join(out) + "]"


FORMS = {"origin": "FOrigin", "asterisk": "FAsterisk", "absolute": "FAbsolute", "authority": "FAuthority"}


RERR = {"": "RN", "eof": "REOF", "err": "RE", "closed": "RE"}


def parts_bytes(parts):
    return b"".join(common.gen_data(*p["gd"]) if "gd" in p else bytes.fromhex(p["hex"]) for p in parts)


def parts_term(parts):
    ts = []
    for p in parts:
        if "gd" in p:
            ts.append("gen_data %d %d %d" % tuple(p["gd"]))
        elif p["hex"]:
            ts.append(cb(p["hex"]))
    return "(" + " ++ ".join(ts) + ")" if ts else "(@nil byte)"


def relay_term(c, o):
    """the relay phase as the scripted conns saw it, in the global order of the log: the reads on the client
    conn after the dial and the Writes on the upstream conn (client -> upstream), the reads on the upstream conn
    and the relay-phase Writes on the client conn (upstream -> client), the Close calls.  pre = what the
    inbound had read beyond the header part before it dialled (bufio's read-ahead, handed to the loop by
    cachedConn).  Byte strings are written as slices of the two payloads where they are such slices."""
    ev = o["ev"]
    tail = c["tail"]
    dial = next((e["q"] for e in ev if e["op"] == "tcp"), None)
    if dial is None:
        return None
    before = b"".join(bytes.fromhex(e["d"]) for e in ev if e["s"] == "c" and e["op"] == "r" and e["q"] < dial)
    if len(before) < tail:
        return None
    pre = before[tail:]
    usrc, dsrc = parts_bytes(c["usrc"]), parts_bytes(c["dsrc"])
    pos = {"ur": len(pre), "uw": 0, "dr": 0, "dw": 0}
    src = {"u": usrc, "d": dsrc}
    if not usrc.startswith(pre):
        return None

    def data(d, kind, b, adv):
        name = "sU" if d == "u" else "sD"
        k = d + kind
        if src[d][pos[k]:pos[k] + len(b)] == b:
            t = "(sl %s %d %d)" % (name, pos[k], len(b)) if b else "[]"
        elif len(b) <= 3000:
            t = common.coq_bytes(b)
        else:
            raise ValueError("long")
        pos[k] += adv
        return t
    acts = []
    try:
        for e in ev:
            s_, op = e["s"], e["op"]
            if op == "r" and s_ == "c" and e["q"] > dial:
                b = bytes.fromhex(e["d"])
                acts.append("RlRead DUp %d %s %s" % (e["bl"], data("u", "r", b, len(b)), RERR[e["e"]]))
            elif op == "r" and s_ == "u":
                b = bytes.fromhex(e["d"])
                acts.append("RlRead DDown %d %s %s" % (e["bl"], data("d", "r", b, len(b)), RERR[e["e"]]))
            elif op == "w":
                d = "u" if s_ == "u" else "d"
                b = bytes.fromhex(e["d"])
                acts.append("RlWrite %s %s %d %s" % ("DUp" if d == "u" else "DDown", data(d, "w", b, e["n"]), e["n"], RERR[e["e"]]))
            elif op == "close":
                acts.append("RlClose")
    except ValueError:
        return None
    return "let sU := %s in let sD := %s in CRelay (sl sU 0 %d) [%s]" % (parts_term(c["usrc"]), parts_term(c["dsrc"]), len(pre), ";".join(acts))


def to_coq(c, o):
    k = c["k"]
    if o.get("panic") or o.get("hang"):
        return None
    if k in RELAY_KINDS:
        return relay_term(c, o) if "ev" in o else None
    if k == "socks":
        return "CSocks %s %s %s %s %s %s" % (auth_term(c), cbool(c["dudp"]), cbool(c["dial"]), cbool(c["udp"]),
                                           script(c["chunks"]), sev_terms(o["ev"]))
    if k == "http":
        # the requests as net/http parsed them (harness report), overlaid with what only the generator knows:
        # the raw Proxy-Authorization value as sent, the status the scripted upstream answers with, the framing
        if "parsed" not in o:
            return None
        gen_reqs = c.get("reqs") or []
        terms = []
        for i, p in enumerate(o["parsed"]):
            g = gen_reqs[i] if i < len(gen_reqs) else {}
            pauth = g["pauth"] if "pauth" in g else p.get("pauth")
            st = g["st"] if "st" in g else p["st"]
            fr = " FrChunked" if g.get("te") else " (FrLen %d)" % g["cl"] if g.get("cl") is not None else " FrNone"
            terms.append("mkHReq %s %s %s %s %s %s %s %s %d%s" % (
                cb(p["method"]), cb(p["uri"]), FORMS[p["form"]], cb(p["scheme"]), cb(p["uhost"]), cb(p["host"]),
                "None" if pauth is None else "(Some %s)" % cb(pauth), cbool(p["ka"]), st, fr))
        h = o["h"] if o.get("h", -1) >= 0 else 0
        return "CHttp %s %s %s %d%%nat %s %s" % (auth_term(c), cbool(c["dial"]), "[" + ";".join(terms) + "]", h,
                                                script(c["chunks"]), hev_terms(o["ev"]))
    if k in ("cached", "onebyte"):
        if "reads" not in o:
            return None
        obs = "[" + ";".join("(%s,%s)" % (cb(r[0]), cbool(r[1])) for r in o["reads"]) + "]"
        return "CRead %s %s [%s] %s" % (cb(c["buf"]), script(c["chunks"]), ";".join(str(s) for s in c["sizes"]), obs)
    if k == "mux":
        st = []
        for rop in o["rops"]:
            code, a, b = rop[:3]
            z = rop[3] if len(rop) > 3 else 0
            if code == 0:
                st.append("StListen true %d" % a)
            elif code == 1:
                st.append("StListen false %d" % a)
            elif code == 2:
                st.append("StSubClose %d%%nat" % a)
            elif code == 3:
                st.append("StSubAccept %d%%nat" % a)
            elif code == 4:
                st.append("StIncoming")
            elif code == 5:
                st.append("StRefused")
            elif code == 6:
                st.append("StFirstByte %d%%nat %d%%nat x%02x" % (a, z, b))
            elif code == 7:
                st.append("StReadErr %d%%nat %d%%nat" % (a, z))
            elif code == 9:
                s = o["snaps"][a]
                hs = "[" + ";".join("(%d,%d)%%nat" % (x[0], x[1]) for x in (s["handoffs"] or [])) + "]"
                conns = "[" + ";".join(str(1000 if x[0] > 1 or (x[0] == 1 and x[1] >= 0) else 1 if x[0] == 1 else 2 + x[1] if x[1] >= 0 else 0)
                                       for x in s["conns"]) + "]"
                subs = "[" + ";".join("(%d,%d)" % (x[0], x[1]) for x in s["subs"]) + "]"
                st.append("StWait %s %s %s %s" % (hs, conns, subs, cbool(s["bclosed"])))
        return "CMux [" + ";".join(st) + "]"
    if k == "muxd1":
        if not o.get("fed"):
            return None
        code = 1 if o["closes"] == 1 else 0 if o["closes"] == 0 else 1000
        return ("CMuxActs [AListen true; AMlSnap; ASubClose 0; AMlSeeClose true; AMlCheck; AIncoming; AMlExitA; AAlDrop; AMlExitB] [%d]" % code)
    if k == "muxd2":
        if o.get("crash"):
            return None
        code = 1 if (o["closes"], o["handed"]) == (1, 0) else 2 + 1 if (o["closes"], o["handed"]) == (0, 1) else 0
        return ("CMuxActs [AListen true; AMlSnap; AIncoming; AForward; AMlSnap; ASubClose 0; AMlSeeClose true; AMlCheck; "
                "AListen true; AFirstByte 0 x05; ASelect 0; AMlExitA; AMlExitB] [%d]" % code)
    return None


# ------------------------------------------------------------------ classification
def klass(c, o):
    k = c["k"]
    if o.get("panic"):
        return k + ":panic"
    if k in RELAY_KINDS:
        hmode, cend, uend, ov = c["shape"].split("/")
        ev = o.get("ev") or []
        both = all(any(e["op"] == "w" and e["s"] == s_ and e["n"] > 0 for e in ev) for s_ in "cu")
        return "%s:%s:%s:%s%s%s" % (k, "pipelined" if hmode == "pipe" else "separate", cend, "overlap" if ov != "none" else "nooverlap",
                                   ":duplex" if both else "", ":refused" if any(e["op"] == "w" and e["e"] == "err" for e in ev) else "")
    if k in ("socks", "http"):
        ev = o.get("ev") or []
        ts = [e["t"] for e in ev]
        up = "tcp" if "tcp" in ts else "udp" if "udp" in ts else "none"
        au = "noauthcfg" if not c["auth"] else "accepted" if any(e["t"] == "auth" and e["ok"] for e in ev) else \
            "rejected" if "auth" in ts else "nocreds"
        extra = ""
        if k == "socks" and any(e["t"] == "reply" and e["hex"] == "05ff" for e in ev):
            extra = ":ff"
        if any(e["t"] == "relay" and e["hex"] for e in ev):
            extra += ":relay"
        if k == "http" and o.get("parsed") is not None:
            # form of the last request net/http parsed (the one the connection ended on), CONNECT or plain
            ps = o["parsed"]
            extra += ":" + (("C-" if ps[-1]["method"] == "434f4e4e454354" else "P-") + ps[-1]["form"] +
                            ("-nohost" if not ps[-1]["uhost"] else "") if ps else "unparsed")
        return "%s:%s:%s%s" % (k, au, up, extra)
    if k in ("cached", "onebyte", "muxd1", "muxd2"):
        return k
    snaps = o.get("snaps") or [{}]
    last = snaps[-1]
    nh = sum(1 for x in last.get("conns", []) if x[1] >= 0)
    ncl = sum(1 for x in last.get("conns", []) if x[0] > 0)
    return "mux:handed=%d,closed=%d%s" % (min(nh, 3), min(ncl, 3), ",shutdown" if last.get("bclosed") else "")


def nontrivial(c, o):
    k = c["k"]
    if k in RELAY_KINDS:
        return any(e["op"] == "w" and e["n"] > 0 for e in (o.get("ev") or []))
    if k in ("socks", "http"):
        ev = o.get("ev") or []
        return any(e["t"] in ("tcp", "udp") for e in ev) or (c["auth"] and len(ev) >= 2)
    if k in ("cached", "onebyte"):
        return len(o.get("reads") or []) >= 3
    if k in ("muxd1", "muxd2"):
        return True
    last = (o.get("snaps") or [{}])[-1]
    return any(x[1] >= 0 or x[0] > 0 for x in last.get("conns", []))


def fingerprint(c, o):
    why = o.get("why") or ""
    if c["k"] == "muxd1":
        return "mux-acceptloop-drop-on-exit"
    if c["k"] == "muxd2":
        return "mux-late-register-send-on-closed"
    if c["k"] == "mux" and "neither handed over nor closed" in why:
        return "mux-conn-neither-handed-nor-closed"
    return None


# ------------------------------------------------------------------ driver
def split_cases(cases):
    groups = [[], [], []]
    idx = [[], [], []]
    for i, c in enumerate(cases):
        g = KIND_SPEC[c["k"]]
        groups[g].append(c)
        idx[g].append(i)
    return groups, idx


def run_go_all(ctx, cases, tag="main", race=False):
    """runs the three harnesses in parallel; returns (ok, outs aligned with cases, params, logs)"""
    make_relay_common()
    groups, idx = split_cases(cases)
    outs = [None] * len(cases)
    params = []
    logs = []
    ok = True

    def one(g):
        if not groups[g]:
            return True, [], [], ""
        return common.run_go_cases(ctx, GO_ALL[g], groups[g], tag="%s_%d" % (tag, g), race=race)

    with ThreadPoolExecutor(max_workers=3) as ex:
        res = list(ex.map(one, range(3)))
    for g, (gok, gouts, gparams, glog) in enumerate(res):
        if not gok:
            ok = False
            logs.append("[%s] %s" % (GO_ALL[g]["pkg"], glog[-2500:]))
        if len(gouts) == len(groups[g]):
            for i, o in zip(idx[g], gouts):
                outs[i] = o
        if gparams:
            params += [tuple(p) for p in gparams]
    return ok, outs, params, "\n".join(logs)


def violations_of(cases, outs):
    v = []
    for c, o in zip(cases, outs):
        if o is not None and o.get("ok") is False:
            v.append({"what": "%s: %s" % (c.get("k"), o.get("why")), "replay": {"case": c, "impl": o},
                      "fingerprint": fingerprint(c, o), "found_input": True})
    return v


def search(ctx, disagreeing):
    found = []
    for s in range(3):
        rng = random.Random(ctx.seed * 1000 + s + 17)
        cases = gen(rng, "quick")
        ok, outs, _, log = run_go_all(ctx, cases, tag="search%d" % s)
        found = violations_of(cases, [o for o in outs])
        if found:
            break
    return found


def run(ctx):
    rng = random.Random(ctx.seed)
    cases = gen(rng, ctx.tier)
    violations = []
    t0 = time.time()
    ok, outs, params, golog = run_go_all(ctx, cases, race=False)
    ctx.say("go harnesses: %d cases in %.1fs" % (len(cases), time.time() - t0))
    have_all = all(o is not None for o in outs)
    if not ok:
        ctx.say("Go harness failed:\n" + golog[-3000:])
        violations.append({"what": "tie broken: Go harness for C18 did not build/run against the current tree (%s)" % golog.strip()[-400:],
                           "replay": {"broken": "go harness", "log": golog[-4000:]}, "found_input": False, "fingerprint": None})
    if ctx.tier != "quick" and ok:
        # the mux harness once more under the race detector (atomicity of the modelled sections)
        mc = [c for c in cases if c["k"] == "mux"][:400]
        rok, routs, _, rlog = common.run_go_cases(ctx, GO_MUX, mc, tag="race", race=True)
        ctx.say("mux harness under -race: %s" % ("ok" if rok else "FAILED"))
        if not rok:
            violations.append({"what": "mux harness fails under -race: " + rlog.strip()[-400:],
                               "replay": {"broken": "race", "log": rlog[-4000:]}, "found_input": False, "fingerprint": None})
    if params:
        if common.write_params(PARAMS_NAME, params):
            ctx.say("Params changed -> rebuilding dependants")
    proof_ok, pinfo = common.proof_stage(ctx, ctx.pid, extra_targets=EXTRA_TARGETS)
    if not proof_ok:
        ctx.say("PROOF STAGE BROKEN: " + json.dumps({k: pinfo[k] for k in pinfo if k != "theorems"})[:3000])
    pairs = [(i, c, o) for i, (c, o) in enumerate(zip(cases, outs)) if o is not None]
    mism, corr_ok, corr_err, compared = [], True, "", 0
    if pairs:
        terms, idxmap = [], []
        for i, c, o in pairs:
            t = to_coq(c, o)
            if t is not None:
                terms.append(t)
                idxmap.append(i)
        compared = len(terms)
        t1 = time.time()
        eok, mm, err = common.eval_cases(ctx, "cases", HEADER, terms, PER_SHARD)
        ctx.say("coq evaluation of %d cases: %.1fs" % (len(terms), time.time() - t1))
        if not eok:
            corr_ok, corr_err = False, err
            ctx.say("CORRESPONDENCE EVALUATION FAILED: " + err)
        mism = [idxmap[j] for j in mm]
    hist, nontriv = {}, set()
    for i, c, o in pairs:
        k = klass(c, o)
        hist[k] = hist.get(k, 0) + 1
        if nontrivial(c, o):
            nontriv.add(json.dumps(c, sort_keys=True))
    violations += violations_of([c for _, c, _ in pairs], [o for _, _, o in pairs])
    impl_bad = any(v.get("found_input") for v in violations)
    broken = []
    if not proof_ok:
        broken.append("proof obligation (%s)" % pinfo.get("broken_at", pinfo.get("forbidden", "assumptions")))
    if mism:
        broken.append("correspondence C18_Corr on %d case(s)" % len(mism))
    if not corr_ok:
        broken.append("correspondence evaluation (%s)" % corr_err[:200])
    if broken and not impl_bad:
        found = search(ctx, [cases[i] for i in mism[:20]]) or []
        if found:
            violations += found
        else:
            violations.append({
                "what": "no longer shown to hold: " + "; ".join(broken),
                "replay": {"broken": broken, "proof": {k: pinfo.get(k) for k in ("broken_at", "build_log_tail", "forbidden", "theorems")},
                           "disagreeing_cases": [{"case": cases[i], "impl": outs[i]} for i in mism[:10]]},
                "fingerprint": None, "found_input": False})
    elif mism and impl_bad:
        ctx.say("model/implementation disagree on %d case(s) (implementation also violates the property directly)" % len(mism))
    ctx.say("input classes: " + json.dumps(hist, sort_keys=True))
    samples = [{"case": c, "impl": {k: v for k, v in o.items() if k != "i"}} for _, c, o in pairs[:2]]
    for kind in ("http", "mux", "rhttp"):
        for _, c, o in pairs:
            if c["k"] == kind and nontrivial(c, o):
                samples.append({"case": c, "impl": {k: v for k, v in o.items() if k != "i"}})
                break
    cov = {"evaluations": len(cases), "distinct_nontrivial": len(nontriv), "rule": RULE, "samples": samples,
           "traces_validated_against_impl": compared, "model_impl_disagreements": len(mism), "input_classes": hist}
    return common.finish(ctx, pinfo, cov, violations, ASSUMPTIONS, trusted_extra=TRUSTED)


def replay(ctx, path):
    r = json.load(open(path))
    c = r["replay"].get("case")
    if not c:
        print("replay file names a broken obligation/correspondence, no concrete input:", r["what"])
        return 1
    make_relay_common()
    ok, outs, _, log = common.run_go_cases(ctx, GO_ALL[KIND_SPEC[c["k"]]], [c], tag="replay")
    print(json.dumps(outs, indent=1))
    return 0 if outs and outs[0].get("ok") else 1


LEVEL_TEXT = ("Machine-checked Coq theorems over a hand-written Gallina model of the SOCKS5 negotiation (incl. the txthinking/socks5 wire "
              "readers), the HTTP proxy's dispatch / handleConnect / handleRequest on requests as net/http parses them (every method, every request-target "
              "form, empty and non-empty URL hosts; Proxy-Authorization gate, CONNECT hand-over through cachedConn, 400 for scheme-less plain requests, "
              "dial addresses), and the shared-port mux as a labelled "
              "transition system over its atomic sections (connWithOneByte included): for every client byte script and chunking, no upstream "
              "TCP/UDP open without credentials AuthFunc accepted; pipelined bytes reach the upstream unmodified for every read-size sequence; "
              "every run of the mux hands a connection to at most one sub-listener, the one its first byte selects; the relay phase as an LTS of the "
              "two io.Copy loops with explicit buffers: in every interleaving and for every behaviour of the conns each direction's sink gets a prefix of "
              "(at EOF: exactly) what its source handed out, each Write carries the chunk of the same direction's own last Read, and a direction's "
              "run is unchanged by striking the other direction's actions (shared-buffer and error-before-forward variants refuted). The model is tied to /repo "
              "on every run by regenerated constants and a differential run of the three Go packages against the model (vm_compute). The mux replay used for that "
              "(stimuli, quiescence, recorded hand-offs) is proved sound: every accepted history is a run of the LTS with exactly the recorded visible actions, and the "
              "recorded snapshots are states of that run, so the handler theorems hold of the recorded states.")
LEVEL_NOTE = ("Trusted: Coq kernel + vm_compute; hand-written model (tie is sampled differential testing + regenerated Params); python/Go glue. "
              "No axioms. The mux replay is sound but not complete (it runs the code's own sections in one fixed order between stimuli; not a general tau-closure acceptor). Not proved: net/http request parsing, http.Client forwarding, UDP relay datagram path, spontaneous base-listener failure.")
TECHNIQUE = "Coq proof (pure functions over byte scripts; invariants over an LTS of atomic sections) on a hand-written model + differential correspondence check in vm_compute"
DESIGN_REF = "DESIGN.md section 4 C18"
