"""C19 - Port hopping stays inside the configured port set and leaks no sockets (DESIGN.md section 4, C19)."""
from vlib import common

GO = dict(module="extras", pkg="transport/udphop", pkgname="udphop",
          files={"zz_verif_c19_test.go": "c19/c19_test.go"}, run="TestVerifC19")
PARAMS_NAME = "ParamsC19"
HEADER = ("From Hy Require Import lib.Harness model.C19_PortUnion model.C19_Hop model.C19_Addr corr.C19_Corr.\n"
          "From Coq Require Import ZArith.\nLocal Open Scope N_scope.\n")
RULE = ("seeded generator: (pu) every string over a 4-letter alphabet up to length 4 (5 letters, length 5 in the thorough tier), grammar-directed port expressions (singles, ranges, reversed, equal, adjacent, overlapping, nested, "
        "0 and 65535, leading zeros, 65536+, long digit strings) and byte-level mutations of them (junk, signs, spaces, doubled/"
        "leading/trailing separators, wildcard look-alikes), Contains probed at every boundary +-1; (norm) Normalize on arbitrary "
        "range lists incl. reversed ranges; (ival) hop-interval configurations around 0, 5 s, min>max, one-sided, negative, int64 "
        "extremes; (hop) udpHopPacketConn histories in a synctest bubble with fake sockets: timer-driven and direct hops racing "
        "writers, readers, deadline/buffer setters, datagram arrivals on cur/prev/older sockets, read timeouts and Close at the same "
        "fake instant, scripted listen failures (incl. the constructor's), scripted socket faults (Close() of the previous / the current / "
        "both / every socket reporting an error while Close or a hop closes it; Set* calls reporting errors), a ReadFrom parked in its select "
        "when Close comes, hop timers given time to fire after Close, a full receive queue, operations after Close; overflow episodes "
        "(the reader falls behind until packetQueueSize datagrams sit unread and more arrive on prev / cur and meet the full queue, with or "
        "without a hop in between, then the reader drains the queue - completely or not - and further datagrams arrive on that same socket "
        "and on the other one and must come out of ReadFrom in order; up to four episodes per history, also twice on one socket). "
        "Server address of every history, and (addr) ResolveUDPHopAddr / addrs() alone: the host part is an IPv4 literal, a bracketed IPv6 "
        "literal (compressed, full, upper case, unspecified, embedded-IPv4 notation), an IPv4-mapped IPv6 literal, a zone-scoped literal, "
        "or a host name answered by an in-memory DNS server (A only -> 4-byte IP, AAAA only, both, several AAAA), plus (addr only) the "
        "empty host, unbracketed / half-bracketed IPv6, names that do not exist, malformed literals, crossed with valid and malformed port "
        "expressions; every socket write's destination (IP by net.IP.Equal, zone, port) is recorded and judged, on every write of the history. "
        "Non-trivial = expression with >= 2 items or rejected; history with >= 2 successful hops or a failed listen. Distinct = distinct JSON case.")
ASSUMPTIONS = [
    "net.ResolveIPAddr / net.SplitHostPort (host part of the hop address) are not modelled: their results are inputs (any IP bytes of any family, any zone, or failure); the model copies the resolved IP into every address and, like the code, drops the zone (UDPHopAddr has no zone field, so a zone-scoped server address loses its zone on the clean tree as well)",
    "net.IP.Equal is transcribed (ip_equal) and used to compare recorded destinations with the model's: 4-byte and 16-byte renderings of one IPv4 address are one destination",
    "the real timer and scheduler: hop instants and interleavings are inputs of the LTS (every interleaving of the code's locked sections and channel operations is covered by the theorems; the harness samples some)",
    "sockets returned by ListenUDPFunc behave like net.PacketConn: ReadFrom fails once the socket is closed, and reports a permanent (non-timeout) error only then (hypothesis sockets_ok of C19_receiver_never_stops: a recvLoop returns on ANY permanent error of its socket)",
    "a timeout error that meets a FULL receive queue parks its receiver in a blocking send; the model defers that send and the generator keeps read timeouts out of overflow episodes",
    "a socket whose Close() reports an error is closed nevertheless (as with close(2)); which sockets report one is an arbitrary input of the LTS",
]
TRUSTED = ["modelled rather than verified: extras/utils/portunion.go, extras/transport/udphop/addr.go and conn.go (hand transcription in "
           "coq/model/C19_PortUnion.v, C19_Hop.v, C19_Recv.v (recvLoop goroutines) and C19_Addr.v (ResolveUDPHopAddr, addrs(), destinations); sort.Slice, strings.Split, strconv.ParseUint, rand.Intn, sync.RWMutex and channel "
           "semantics are modelled from their documentation)"]
PER_SHARD = 125
EXTRA_TARGETS = ["corr/C19_Corr.vo"]

KINDS = {"dl": "SDL", "rdl": "SRDL", "wdl": "SWDL", "rb": "SRB", "wb": "SWB"}


# ------------------------------------------------------------------ generators

def num_str(rng, v):
    s = str(v)
    z = rng.random()
    if z < 0.15:
        s = "0" * rng.randint(1, 3) + s
    elif z < 0.17:
        s = "0" * 30 + s
    return s


def gen_items(rng):
    """structured expression: list of (a, b|None)"""
    n = rng.choice([1, 1, 2, 2, 3, 4, 5, 8])
    items = []
    last = None
    edge = [0, 1, 2, 65533, 65534, 65535]
    for _ in range(n):
        z = rng.random()
        if last is not None and z < 0.45:
            lo, hi = last
            a = rng.choice([hi + 1, hi, hi + 2, lo, lo - 1, lo - 2, hi - 1, (lo + hi) // 2])
            a = min(65535, max(0, a))
        elif z < 0.6:
            a = rng.choice(edge)
        else:
            a = rng.randrange(65536) if rng.random() < 0.5 else rng.randrange(64)
        if rng.random() < 0.4:
            b = None
            lo, hi = a, a
        else:
            w = rng.choice([0, 1, 2, 5, 30, 300])
            b = a + rng.choice([w, -w])
            if rng.random() < 0.03:
                b = rng.choice(edge)
            b = min(65535, max(0, b))
            lo, hi = min(a, b), max(a, b)
        items.append((a, b))
        last = (lo, hi)
    return items


def render(rng, items):
    out = []
    for a, b in items:
        out.append(num_str(rng, a) if b is None else num_str(rng, a) + "-" + num_str(rng, b))
    return ",".join(out)


JUNK = [b"+", b"-", b",", b" ", b"a", b"_", b"x", b".", b"*", b"\xef\xbc\x91", b"\x00", b"/", b":", b"65536", b"all", b"e", b"\t"]
FIXED = ["", "all", "*", "ALL", "all,1", "1,all", "**", "*,*", " all", "1-2-3", "-5", "5-", "-", ",", "1,,2", ",1", "1,", "+1", "1e3",
         "0x10", "1_000", "65536", "65535", "0", "00000", "0-65535", "65535-0", "99999999999999999999", "18446744073709551616",
         "1- 2", " 1", "1 ", "1--2", "1-+2", "-1-2", "20000-20010,20005-20020,0,65535,443", "1,2,3,4,5", "5,4,3,2,1",
         "10-20,21-30", "10-20,22-30", "10-20,20-30", "65534,65535", "65535,65535", "0,0", "1-1", "１", "1\n", "443,80,443"]


def probes(rng, items):
    ps = {0, 1, 65534, 65535, rng.randrange(65536)}
    for a, b in items or []:
        for v in (a, b if b is not None else a):
            for d in (-1, 0, 1):
                if 0 <= v + d <= 65535:
                    ps.add(v + d)
    ps = sorted(ps)
    if len(ps) > 24:
        ps = rng.sample(ps, 24)
    return ps


def gen_pu(rng, n):
    cases = []
    for s in FIXED:
        cases.append({"k": "pu", "s": s.encode().hex(), "probe": probes(rng, None)})
    for _ in range(n):
        items = gen_items(rng)
        b = render(rng, items).encode()
        if rng.random() < 0.35:
            b = bytearray(b)
            for _ in range(rng.choice([1, 1, 2])):
                z = rng.random()
                pos = rng.randrange(len(b) + 1)
                if z < 0.45:
                    b[pos:pos] = rng.choice(JUNK)
                elif z < 0.7 and len(b) > 0:
                    pos = min(pos, len(b) - 1)
                    del b[pos]
                elif z < 0.85 and len(b) > 0:
                    pos = min(pos, len(b) - 1)
                    b[pos] = rng.choice(b"0123456789,-")
                else:
                    b += b"6" * rng.choice([1, 5])
            b = bytes(b)
        cases.append({"k": "pu", "s": b.hex(), "probe": probes(rng, items)})
    return cases


def gen_norm(rng, n):
    cases = [{"k": "norm", "ranges": [], "probe": [0, 1]}]
    for _ in range(n):
        items = gen_items(rng)
        rs = []
        for a, b in items:
            b = a if b is None else b
            if rng.random() < 0.75 and a > b:
                a, b = b, a
            rs.append([a, b])
        if rng.random() < 0.3:
            rs += [list(r) for r in rng.sample(rs, 1)]
        cases.append({"k": "norm", "ranges": rs, "probe": probes(rng, [(a, b) for a, b in rs])})
    return cases


def gen_ival(rng, n):
    S = 10**9
    vals = [0, 1, -1, 5 * S - 1, 5 * S, 5 * S + 1, 10 * S, 30 * S, -5 * S, 2**63 - 1, -2**63, 2**62, 3600 * S]
    cases = []
    for mn in vals:
        for mx in vals:
            cases.append({"k": "ival", "min": mn, "max": mx, "n": 40})
    for _ in range(n):
        mn = rng.choice([rng.randrange(0, 12 * S), rng.choice(vals)])
        mx = rng.choice([mn, mn + rng.randrange(0, 3), mn + rng.randrange(0, 100 * S), rng.choice(vals)])
        mx = min(mx, 2**63 - 1)
        cases.append({"k": "ival", "min": mn, "max": mx, "n": 40})
    return cases


# ------------------------------------------------------------------ server addresses
#
# A host form is (form, hp, host, dns, exp, experr): hp = the host part as written in the hop address (brackets included), host = the
# bare host, dns = the records of the in-memory DNS server, exp = hex of the address(es) the host stands for, computed HERE with
# python's ipaddress module (independently of Go's parser and resolver), experr = ok | split | resolve | ref.

def _ipx(s):
    import ipaddress
    return ipaddress.ip_address(s).packed.hex()


def _rand_v4(rng):
    return rng.choice(["127.0.0.1", "10.%d.%d.%d" % (rng.randrange(256), rng.randrange(256), rng.randrange(1, 255)), "192.0.2.%d" % rng.randrange(1, 255),
                       "198.51.100.7", "203.0.113.250", "255.255.255.255", "0.0.0.0", "1.2.3.4", "100.64.0.1", "169.254.1.1", "224.0.0.251"])


def _rand_v6(rng):
    z = rng.random()
    if z < 0.35:
        return rng.choice(["::1", "2001:db8::1", "2001:db8::", "fe80::1", "::", "2001:db8:1:2:3:4:5:6", "64:ff9b::1.2.3.4", "2001:DB8::A",
                           "ff02::1", "fd00::ffff:1:2", "::2", "1::", "2001:db8:0:0:1:0:0:1", "::fffe:10.1.2.3", "0:0:0:0:0:0:0:1"])
    groups = ["%x" % rng.randrange(65536) for _ in range(8)]
    if z < 0.5:
        return ":".join(groups)
    # one compressed run of zero groups
    a = rng.randrange(0, 7)
    b = rng.randrange(a + 1, 8)
    left, right = groups[:a], groups[b + 1:]
    if a == 0 and rng.random() < 0.5:
        left = []
    return ":".join(left) + "::" + ":".join(right)


def host_form(rng, hop):
    """hop=True: only hosts a conn can be built from; hop=False: also hosts that must be rejected / the empty host."""
    z = rng.random()
    if not hop and z < 0.22:
        bad = rng.choice([
            ("bad:unbracketed6", "::1", "::1", None, [], "split"),
            ("bad:unbracketed6", "2001:db8::1", "2001:db8::1", None, [], "split"),
            ("bad:half-bracket", "[::1", "", None, [], "split"),
            ("bad:half-bracket", "::1]", "", None, [], "split"),
            ("bad:junk-after-bracket", "[::1]x", "", None, [], "split"),
            ("bad:short-v4", "1.2.3", "1.2.3", None, [], "resolve"),
            ("bad:leading-zero-v4", "010.1.1.1", "010.1.1.1", None, [], "resolve"),
            ("bad:v4-overflow", "256.1.1.1", "256.1.1.1", None, [], "resolve"),
            ("bad:no-such-name", "nx.hop.test.", "nx.hop.test.", {"v6.hop.test.": [[], ["2001:db8::77"]]}, [], "resolve"),
            ("bad:no-records", "none.hop.test.", "none.hop.test.", {"none.hop.test.": [[], []]}, [], "resolve"),
            ("bad:zone-on-v4", "1.2.3.4%lo", "1.2.3.4%lo", None, [], "resolve"),
            ("bad:empty-zone", "[::1%]", "::1%", None, [], "ref"),
            ("bad:too-many-groups", "[1:2:3:4:5:6:7:8:9]", "1:2:3:4:5:6:7:8:9", None, [], "resolve"),
            ("bad:bracketed-name", "[v6.hop.test.]", "v6.hop.test.", {"v6.hop.test.": [[], ["2001:db8::77"]]}, ["20010db8000000000000000000000077"], "ref"),
            ("empty", "", "", None, [], "ok"),
            ("empty", "[]", "", None, [], "ok"),
            ("v4:bracketed", "[192.0.2.9]", "192.0.2.9", None, [_ipx("192.0.2.9")], "ok"),
        ])
        return bad
    if z < 0.40:
        a = _rand_v6(rng)
        return ("v6", "[" + a + "]", a, None, [_ipx(a)], "ok")
    if z < 0.62:
        a = _rand_v4(rng)
        return ("v4", a, a, None, [_ipx(a)], "ok")
    if z < 0.72:
        a = _rand_v4(rng)
        w = rng.choice(["::ffff:" + a, "::FFFF:" + a, "0:0:0:0:0:ffff:" + a, "::ffff:%x:%x" % (int(_ipx(a)[:4], 16), int(_ipx(a)[4:], 16))])
        return ("v4in6", "[" + w + "]", w, None, [_ipx(a)], "ok")
    if z < 0.80:
        a = rng.choice(["fe80::1", "fe80::%x:%x" % (rng.randrange(65536), rng.randrange(65536)), "ff02::1", "fe80::dead:beef"])
        zone = rng.choice(["lo", "eth0", "7", "en0.100", "wlan-1"])
        return ("zone", "[" + a + "%" + zone + "]", a + "%" + zone, None, [_ipx(a)], "ok")
    # host names: the in-memory DNS server answers (never with an unspecified address: Go's resolver turns an AAAA answer "::"
    # into 0.0.0.0, which is the library's business, not the hop address's)
    def spec(f):
        while True:
            a = f(rng)
            if int(_ipx(a), 16) != 0:
                return a
    a4 = spec(_rand_v4)
    a6 = spec(_rand_v6)
    b6 = spec(_rand_v6)
    kind = rng.choice(["dns:aaaa", "dns:aaaa", "dns:aaaa", "dns:a", "dns:both", "dns:aaaa2", "dns:nodot", "dns:upper"])
    name = rng.choice(["srv", "hop", "h%d" % rng.randrange(100), "a-b"]) + "." + rng.choice(["hop.test.", "example.hop.test.", "v.test."])
    if kind == "dns:a":
        return (kind, name, name, {name: [[a4], []]}, [_ipx(a4)], "ok")
    if kind == "dns:both":
        # ResolveIPAddr("ip", name) prefers an IPv4 address when there is one; either record is the server
        return (kind, name, name, {name: [[a4], [a6]]}, [_ipx(a4), _ipx(a6)], "ok")
    if kind == "dns:aaaa2":
        return (kind, name, name, {name: [[], [a6, b6]]}, [_ipx(a6), _ipx(b6)], "ok")
    if kind == "dns:nodot":
        return (kind, name[:-1], name[:-1], {name: [[], [a6]]}, [_ipx(a6)], "ok")
    if kind == "dns:upper":
        return (kind, name.upper(), name.upper(), {name: [[], [a6]]}, [_ipx(a6)], "ok")
    return (kind, name, name, {name: [[], [a6]]}, [_ipx(a6)], "ok")


def set_host(case, hf):
    form, hp, host, dns, exp, experr = hf
    case.update({"form": form, "hp": hp, "host": host, "exp": exp, "experr": experr})
    if dns is not None:
        case["dns"] = dns
    return case


ADDR_PORTS = ["20000-20002,443", "443", "1000-1009", "0,65535", "5,3-4,7-6,100-90", "65530-65535,0-3", "20000-20010,20005-20020",
              "", "1-2-3", "65536", "443,", "-", "0x10", " 443", "1,,2"]


def gen_addr(rng, n):
    cases = []
    for i in range(n):
        hf = host_form(rng, hop=False)
        z = rng.random()
        ports = rng.choice(ADDR_PORTS[:7]) if z < 0.6 else rng.choice(ADDR_PORTS[7:]) if z < 0.75 else render(rng, gen_items(rng))
        cases.append(set_host({"k": "addr", "ports": ports}, hf))
    # the whole port range behind an IPv6 server and behind a name
    cases.append(set_host({"k": "addr", "ports": "all"}, ("v6", "[2001:db8::1]", "2001:db8::1", None, [_ipx("2001:db8::1")], "ok")))
    cases.append(set_host({"k": "addr", "ports": "*"}, ("dns:aaaa", "all.hop.test.", "all.hop.test.", {"all.hop.test.": [[], ["2001:db8::5"]]}, [_ipx("2001:db8::5")], "ok")))
    return cases


QUEUE = 1024   # packetQueueSize (only sizes the bursts: a wrong value makes the overflow class vacuous, see klass "ovf")

HOP_PORTS = ["20000-20002,443", "443", "1000-1009", "0,65535", "5,3-4,7-6,100-90", "65530-65535,0-3"]


def gen_hop_one(rng, big=False, full=False, ovf=False):
    ports = rng.choice(HOP_PORTS)
    z = rng.random()
    if ovf:
        # hop instants under control: the timer fires exactly at the multiples of 5 s, or not at all (default 30 s)
        mn = mx = rng.choice([5000, 5000, 0])
    elif z < 0.7:
        mn = mx = 5000
    elif z < 0.9:
        mn, mx = 5000, rng.choice([5001, 6000, 9000])
    else:
        mn = mx = 0
    nhot = rng.randint(2, 7) if not big else rng.randint(10, 25)
    workers = rng.randint(3, 6)
    ops = []
    step = 5000
    readers = [workers, workers + 1]
    closed_at = None
    for h in range(1, nhot + 1):
        t = h * step
        # racing group at the hop instant
        for w in range(workers):
            zz = rng.random()
            if zz < 0.30:
                ops.append({"t": t, "w": w, "op": "write"})
            elif zz < 0.45:
                kd = rng.choice(list(KINDS))
                v = rng.choice([0, 0, 1, 7, 4096, 100000]) if kd in ("rb", "wb") else rng.choice([0, 0, 5, 9, 1000])
                if kd in ("rb", "wb") and rng.random() < 0.1:
                    v = -1
                ops.append({"t": t, "w": w, "op": kd, "v": v})
            elif zz < 0.55:
                ops.append({"t": t, "w": w, "op": "hop"})
            elif zz < 0.65:
                ops.append({"t": t, "w": w, "op": "snap"})
            elif zz < 0.85:
                ops.append({"t": t, "w": w, "op": "inject", "role": rng.choice(["cur", "prev", "prev", "old"])})
            elif zz < 0.88:
                ops.append({"t": t, "w": w, "op": "local"})
            elif zz < 0.90 and closed_at is None and h > 1 and rng.random() < 0.5:
                ops.append({"t": t, "w": w, "op": "close"})
                closed_at = t
        # between hops
        for _ in range(rng.randint(0, 6)):
            t2 = t + rng.randrange(1, step)
            w = rng.randrange(workers)
            zz = rng.random()
            if zz < 0.35:
                ops.append({"t": t2, "w": w, "op": "inject", "role": rng.choice(["cur", "prev", "prev", "old"])})
            elif zz < 0.6:
                ops.append({"t": t2, "w": w, "op": "write"})
            elif zz < 0.7:
                ops.append({"t": t2, "w": w, "op": "snap"})
            elif zz < 0.78:
                ops.append({"t": t2, "w": w, "op": "timeout", "role": rng.choice(["cur", "prev"])})
            else:
                kd = rng.choice(list(KINDS))
                ops.append({"t": t2, "w": w, "op": kd, "v": rng.choice([0, 3, 2048])})
        for r in readers:
            for _ in range(rng.randint(0, 2)):
                ops.append({"t": t + rng.randrange(0, step), "w": r, "op": "read"})
    end = (nhot + 1) * step + rng.choice([0, 1, 2500])
    if rng.random() < 0.3:
        # operations after the closing phase began
        for w in range(workers):
            ops.append({"t": end + rng.choice([0, 1, 100]), "w": w, "op": rng.choice(["write", "hop", "snap", "rb", "inject"]), "v": 5, "role": "cur"})
    if full:
        ops = [o for o in ops if o["op"] not in ("read", "timeout", "close")]
        t0 = 2 * step + 10
        ops += [{"t": t0, "w": workers + 2, "op": "inject", "role": rng.choice(["cur", "prev"])} for _ in range(1030)]
    if ovf:
        # overflow episodes.  Nobody reads but the episode worker; no timeouts (a timeout error that meets a full queue
        # parks its receiver in the send) and no early Close.  One episode, inside one window between two hop instants:
        #   burst   the reader has fallen behind: >= packetQueueSize+1 datagrams on one socket (the last ones meet a full queue)
        #   [hop]   optionally a hop in between (the socket that was cur is prev afterwards and still open)
        #   drainq  the reader catches up (completely, or leaving a few)
        #   burst   a few more datagrams on the SAME socket (and on the other one): they must be taken and queued
        #   drainq  ... and come out of ReadFrom, in order
        # optionally the whole thing twice in the same window (a second overflow of the same socket).
        ops = [o for o in ops if o["op"] not in ("read", "timeout", "close")]
        ew = workers + 2
        wins = sorted(rng.sample(range(1, nhot + 1), rng.choice([1, 2, 2, 3]) if nhot >= 3 else 1))
        left = 4
        busy = []
        for h in wins:
            t0 = h * step + 300
            busy.append((t0, t0 + 2000))
            for rep in range(min(left, rng.choice([1, 1, 2]))):
                left -= 1
                between = rep == 0 and rng.random() < 0.4
                role = "cur" if h == 1 or (between and rng.random() < 0.8) else rng.choice(["cur", "prev", "prev"])
                ops.append({"t": t0, "w": ew, "op": "burst", "role": role, "v": QUEUE + rng.choice([1, 1, 2, 3, 8])})
                after = role
                if between:
                    ops.append({"t": t0 + 100, "w": ew, "op": "hop"})
                    after = "prev" if role == "cur" else "old"      # the same socket, under its new name
                if rng.random() < 0.25:
                    ops.append({"t": t0 + 150, "w": ew, "op": "snap"})
                ops.append({"t": t0 + 200, "w": ew, "op": "drainq", "v": rng.choice([0, 0, 0, 1, 24, 500, QUEUE - 8, QUEUE - 1])})
                other = "cur" if after != "cur" else "prev"
                late = [after] * rng.randint(1, 4) + [other] * rng.randint(0, 2)
                rng.shuffle(late)
                for j, r in enumerate(late):
                    ops.append({"t": t0 + 400 + j, "w": ew, "op": "inject", "role": r})
                ops.append({"t": t0 + 600, "w": ew, "op": "drainq", "v": 0})
                t0 += 1000
        # nobody else injects at an instant of an episode: with the queue exactly full, "taken, then offered" racing a read makes
        # the log's own account of what met a full queue ambiguous
        ops = [o for o in ops if o["w"] == ew or o["op"] != "inject" or not any(a <= o["t"] <= b for a, b in busy)]
    ops.sort(key=lambda o: (o["t"]))
    nl = 2 * nhot + 4
    fail = sorted(set(rng.sample(range(1, nl), rng.choice([0, 0, 1, 2, nl // 2]))))
    if rng.random() < 0.04:
        fail = [0] + fail
    if ovf and rng.random() < 0.7:
        fail = []
    # socket faults.  Socket ids are creation ordinals and prev = cur - 1 whenever there is a prev, so the parity plans make
    # exactly one of the two sockets that Close has to close report an error; "all" makes both; "rand" mixes.
    nid = nl + 8
    plan = rng.choice(["none", "none", "none", "all", "even", "odd", "rand", "rand"])
    cerr = {"none": [], "all": list(range(nid)), "even": list(range(0, nid, 2)), "odd": list(range(1, nid, 2)),
            "rand": [i for i in range(nid) if rng.random() < 0.5]}[plan]
    ps = rng.choice([0, 0, 0.2, 0.6])
    serr = [i for i in range(80) if rng.random() < ps]
    case = {"k": "hop", "ports": ports, "min": mn * 10**6, "max": mx * 10**6, "seed": rng.randrange(2**31), "fail": fail,
            "ops": ops, "end": end, "drain": full or ovf or rng.random() < 0.6, "workers": workers + 3,
            "cerr": cerr, "serr": serr, "blk": rng.random() < 0.5}
    return set_host(case, host_form(rng, hop=True))


def gen_pu_exhaustive(alphabet, maxlen):
    import itertools
    out = []
    for n in range(maxlen + 1):
        for t in itertools.product(alphabet, repeat=n):
            s = "".join(t)
            out.append({"k": "pu", "s": s.encode().hex(), "probe": [0, 1, 2, 3, 6, 11, 12, 13, 65535]})
    return out


def gen(rng, tier):
    import os
    scale = 1 if tier == "quick" else int(os.environ.get("VERIF_C19_SCALE", "10"))
    cases = []
    # every string over a tiny alphabet (all separator / digit arrangements)
    cases += gen_pu_exhaustive("1,-3", 4) if tier == "quick" else gen_pu_exhaustive("01,-6", 5)
    cases += gen_pu(rng, 750 * scale)
    cases += gen_norm(rng, 200 * scale)
    cases += gen_ival(rng, 40 * scale)
    cases.append({"k": "pu", "s": "0-65535".encode().hex(), "probe": [0, 65535]})
    cases += gen_addr(rng, 140 * scale)
    hops = [gen_hop_one(rng) for _ in range(90 * scale)]
    hops += [gen_hop_one(rng, big=True) for _ in range(3 * scale)]
    hops += [gen_hop_one(rng, full=True) for _ in range(2 * scale)]
    hops += [gen_hop_one(rng, ovf=True) for _ in range(5 * scale)]
    h = gen_hop_one(rng)
    h["ports"] = "all"
    hops.append(h)
    cases += hops
    return cases


# ------------------------------------------------------------------ python reference for the port list (only used to turn an
# observed destination port into the index the model's hop must have drawn; a wrong value makes the Coq replay reject)

def port_list(expr):
    if expr in ("all", "*"):
        return list(range(65536))
    s = set()
    for it in expr.split(","):
        if "-" in it:
            a, b = it.split("-")
            a, b = int(a), int(b)
            if a > b:
                a, b = b, a
            s.update(range(a, b + 1))
        else:
            s.add(int(it))
    return sorted(s)


def ranges_term(rs):
    return "[" + ";".join("(%d,%d)" % (a, b) for a, b in rs) + "]"


def nlist(xs):
    return "[" + ";".join(str(x) for x in xs) + "]"


def blist(xs):
    return "[" + ";".join("true" if x else "false" for x in xs) + "]"


def zlit(z):
    return "(%d)%%Z" % z


def dtab_term(o):
    return "[" + ";".join("(%s,%s)" % (common.coq_bytes(bytes.fromhex(a)), common.coq_bytes(bytes.fromhex(z))) for a, z in (o.get("dtab") or [])) + "]"


def ev_terms(c, o):
    ports = port_list(c["ports"])
    ndt = len(o.get("dtab") or [])
    pidx = {p: i for i, p in enumerate(ports)}
    log = o["log"]

    def prophecy(i):
        for e in log[i + 1:]:
            if e[0] == "L" and e[1] == 1:
                break
            if e[0] == "W":
                return pidx.get(e[2], 0)
            if e[0] == "SN":
                return e[3]
        return 0
    terms = []
    for i, e in enumerate(log):
        k = e[0]
        if i == 0:
            continue  # the constructor's listen
        if k == "L":
            terms.append("EL %s %d%%nat %d%%nat" % ("true" if e[1] == 1 else "false", max(e[2], 0), prophecy(i) if e[1] == 1 else 0))
        elif k == "C":
            terms.append("EC %d%%nat %s" % (e[1], "true" if (len(e) > 2 and e[2]) else "false"))
        elif k == "CLR":
            terms.append("ECR %s" % ("true" if e[1] else "false"))
        elif k == "S":
            terms.append("ES %d%%nat %s %s" % (e[1], KINDS[e[2]], zlit(e[3])))
        elif k == "W":
            port = e[2] if (e[4] == 1 and 0 <= e[2] <= 65535) else 99999
            di = e[5] if (len(e) > 5 and 0 <= e[5] < ndt) else ndt      # no UDP destination at all: an index outside the table
            terms.append("EW %d%%nat %d %d %d%%nat" % (e[1], port, max(e[3], 0), di))
        elif k == "A":
            terms.append("EA %d%%nat %d" % (e[1], e[2]))
        elif k == "T":
            terms.append("ET %d%%nat" % e[1])
        elif k == "D":
            terms.append("ED %d%%nat" % e[1])
        elif k == "R":
            r = {"pkt": "(RPkt %d)" % max(e[2], 0), "closed": "RClosed", "timeout": "RTimeout"}.get(e[1], "RPanic")
            terms.append("ER %d%%nat %s" % (e[3], r))
        elif k == "RS":
            terms.append("ERS %d%%nat" % e[1])
        elif k == "WC":
            terms.append("EWC")
        elif k == "SN":
            terms.append("ESN %s %d%%nat %d%%nat %s %s %d%%nat" % (
                "None" if e[1] < 0 else "(Some %d%%nat)" % e[1], max(e[2], 0), e[3], "true" if e[4] else "false",
                "None" if e[5] < 0 else "(Some %d%%nat)" % e[5], e[6]))
        elif k == "X":
            terms.append("EX %d%%nat" % e[1])
        elif k == "N":
            terms.append("EN %d%%nat" % e[1])
        elif k == "HN":
            terms.append("EHN")
        elif k == "CL2":
            terms.append("ECL2")
        else:
            terms.append("ER 0%nat RPanic")
    r0 = prophecy(0) if log else 0
    return r0, compress(terms)


def compress(terms):
    """runs of consecutive arrivals on one socket (EA k p, EA k p+1, ...) and of consecutive read pairs (ERS rid, ER rid (RPkt p),
    ERS rid+1, ER rid+1 (RPkt p+1), ...) become one EAs / ERs term: overflow histories hold thousands of them and the cases
    file is parse-bound.  The acceptor expands them back into the very same records."""
    import re
    ra = re.compile(r"^EA (\d+)%nat (\d+)$")
    rs = re.compile(r"^ERS (\d+)%nat$")
    rr = re.compile(r"^ER (\d+)%nat \(RPkt (\d+)\)$")
    out = []
    i, n = 0, len(terms)
    while i < n:
        m = ra.match(terms[i])
        if m:
            k, p = int(m.group(1)), int(m.group(2))
            j = i + 1
            while j < n:
                m2 = ra.match(terms[j])
                if not (m2 and int(m2.group(1)) == k and int(m2.group(2)) == p + (j - i)):
                    break
                j += 1
            if j - i >= 4:
                out.append("EAs %d%%nat %d %d%%nat" % (k, p, j - i))
                i = j
                continue
        m = rs.match(terms[i])
        if m and i + 1 < n:
            m1 = rr.match(terms[i + 1])
            if m1 and m1.group(1) == m.group(1):
                rid, p = int(m.group(1)), int(m1.group(2))
                cnt = 1
                j = i + 2
                while j + 1 < n:
                    a, b = rs.match(terms[j]), rr.match(terms[j + 1])
                    if not (a and b and int(a.group(1)) == rid + cnt and int(b.group(1)) == rid + cnt and int(b.group(2)) == p + cnt):
                        break
                    cnt += 1
                    j += 2
                if cnt >= 3:
                    out.append("ERs %d%%nat %d %d%%nat" % (rid, p, cnt))
                    i = j
                    continue
        out.append(terms[i])
        i += 1
    return out


def to_coq(c, o):
    k = c["k"]
    if o.get("skipped") or o.get("noaddr"):
        return None
    if o.get("panic"):
        # the models never panic on these inputs: force a mismatch
        return "CIval 0%Z 0%Z true 0%Z 0%Z []"
    if k == "pu":
        exp = "None" if o["nil"] else "(Some %s)" % ranges_term(o["norm"])
        return "CPU %s %s %d %s %s %s" % (common.coq_bytes(bytes.fromhex(c["s"])), exp, o["np"], "(%d,%d)" % (o["pa"], o["pb"]), nlist(c["probe"]), blist(o["cont"]))
    if k == "norm":
        return "CNorm %s %s %d %s %s %s" % (ranges_term(c["ranges"]), ranges_term(o["norm"]), o["np"], "(%d,%d)" % (o["pa"], o["pb"]), nlist(c["probe"]), blist(o["cont"]))
    if k == "ival":
        return "CIval %s %s %s %s %s [%s]" % (zlit(c["min"]), zlit(c["max"]), "true" if o["err"] else "false", zlit(o["nmin"]), zlit(o["nmax"]),
                                              ";".join(zlit(d) for d in o["draws"]))
    if k == "hop":
        r0, terms = ev_terms(c, o)
        ctor_ok = not o.get("ctor_err")
        census = "[" + ";".join("(%s,%d)" % ("true" if a else "false", b) for a, b in o["census"]) + "]"
        # the sockets scripted to report an error from Close (only those that came to exist matter)
        cerrs = "[" + ";".join("%d%%nat" % k for k in c.get("cerr", []) if k < len(o["census"])) + "]"
        return "CHop %s %s %s %s %d%%nat %s [%s] %s" % (common.coq_bytes(c["ports"].encode()), common.coq_bytes(bytes.fromhex(o.get("rip", ""))), dtab_term(o),
                                                       "true" if ctor_ok else "false", r0, cerrs, ";\n  ".join(terms), census)
    if k == "addr":
        errk = {"": 0, "split": 1, "resolve": 2, "port": 3}.get(o.get("errk"), 4)
        tf = lambda b: "true" if b else "false"
        na = o["na"] if o["na"] >= 0 else 99999999
        return "CAddr %s %s %s %s %s %d %s %d (%d,%d) %d (%d,%d) %s" % (
            common.coq_bytes(c["ports"].encode()), tf(o["refk"] != "split"), tf(o["refk"] == ""),
            common.coq_bytes(bytes.fromhex(o["rip"])), common.coq_bytes(bytes.fromhex(o["rzone"])), errk,
            common.coq_bytes(bytes.fromhex(o["ip"])), o["np"], o["pa"], o["pb"], na, o["aa"], o["ab"], dtab_term(o))
    return None


def ovf_features(c, o):
    """overflow episodes that really took place, judged on the log alone: (episodes, late) where an episode = the queue was
    full when a datagram was taken, and late = datagrams taken from a socket AFTER an overflow on that very socket and after
    the queue had room again (the arrivals that show the receiver survived the overflow)."""
    log = o.get("log") or []
    q, episodes, late = 0, 0, 0
    infull = False
    hit = set()
    for e in log:
        if e[0] == "A":
            if q < QUEUE:
                q += 1
                if e[1] in hit:
                    late += 1
                infull = False
            else:
                hit.add(e[1])
                if not infull:
                    episodes += 1
                infull = True
        elif e[0] == "T" and q < QUEUE:
            q += 1
        elif e[0] == "R" and e[1] in ("pkt", "timeout"):
            q -= 1
    return episodes, late


def hop_features(o):
    log = o.get("log") or []
    okhops = sum(1 for e in log[1:] if e[0] == "L" and e[1] == 1)
    failed = sum(1 for e in log[1:] if e[0] == "L" and e[1] == 0)
    arr_prev = 0
    cur = 0
    for e in log:
        if e[0] == "L" and e[1] == 1:
            cur = e[2]
        if e[0] == "A" and e[1] != cur:
            arr_prev += 1
    return okhops, failed, arr_prev


def close_faults(o):
    """which of the sockets closed by Close itself (not by a hop) reported an error: none / prev / cur / both / noprev+cur.
    A hop logs L before it closes its prev, so its C names newest-2; Close's C records name newest-1 (prev) and newest (cur)."""
    newest, pf, cf, hadprev = -1, False, False, False
    for e in o.get("log") or []:
        if e[0] == "L" and e[1] == 1:
            newest = e[2]
        elif e[0] == "C" and len(e) > 2:
            if e[1] == newest:
                cf = cf or bool(e[2])
            elif e[1] == newest - 1:
                hadprev = True
                pf = pf or bool(e[2])
    return ("both" if pf and cf else "prev" if pf else "cur" if cf else "none") + ("" if hadprev else "-noprev")


def klass(c, o):
    k = c["k"]
    if k == "pu":
        if o.get("nil"):
            return "pu:rejected"
        return "pu:ok:%s" % ("1" if len(o.get("norm") or []) == 1 else "2-3" if len(o["norm"]) <= 3 else ">3")
    if k == "norm":
        return "norm:%d" % min(4, len(o.get("norm") or []))
    if k == "ival":
        return "ival:" + ("rejected" if o.get("err") else "default" if c["min"] == 0 else "fixed" if c["min"] == c["max"] else "jitter")
    if o.get("premise"):
        return "%s:premise-broken" % k          # the reference does not see the host as the generator wrote it (see run())
    if k == "addr":
        return "addr:%s:%s" % (c.get("form"), o.get("errk") or "ok")
    if o.get("noaddr"):
        return "hop:no-address"
    if o.get("ctor_err"):
        return "hop:ctor-failed"
    okh, failed, ap = hop_features(o)
    ep, late = ovf_features(c, o)
    ovf = "" if ep == 0 else ":ovf%s-late%s" % ("1" if ep == 1 else "+", "0" if late == 0 else "+")
    fam = {0: "nil", 8: "ip4", 32: "ip6"}.get(len(o.get("rip") or ""), "?")
    if fam == "ip6" and (o.get("rip") or "").startswith("00000000000000000000ffff"):
        fam = "ip4"                               # an IPv4 server rendered in 16 bytes
    return "hop:%s:hops%s:fail%s:prevarr%s:closefault-%s%s" % (fam, "<2" if okh < 2 else "2-5" if okh <= 5 else ">5", "0" if failed == 0 else "+",
                                                             "0" if ap == 0 else "+", close_faults(o), ovf)


def nontrivial(c, o):
    k = c["k"]
    if k == "pu":
        return o.get("nil") or len(bytes.fromhex(c["s"]).split(b",")) >= 2
    if k == "norm":
        return len(c["ranges"]) >= 2
    if k == "ival":
        return True
    if k == "addr":
        return c.get("form") != "v4"
    okh, failed, ap = hop_features(o)
    return okh >= 2 or failed > 0


def fingerprint(c, o):
    why = o.get("why") or ""
    if c["k"] == "hop" and "ReadFrom returned a packet after Close had returned" in why:
        return "read-after-close-stale-packet"
    if c["k"] == "hop" and "stale timeout after Close" in why:
        return "read-after-close-stale-packet"
    if why:
        # one VIOLATION line per kind of failure, not per port number / socket id
        import re
        return "C19:%s:%s" % (c["k"], re.sub(r"\d+", "N", why)[:120])
    return None


def search(ctx, disagreeing):
    """Property-directed search on the implementation alone (no model): more seeds."""
    import random
    found = []
    for s in range(3):
        rng = random.Random(ctx.seed * 1000 + s + 19)
        cases = gen(rng, "quick")
        ok, outs, _, log = common.run_go_cases(ctx, GO, cases, tag="search%d" % s)
        for c, o in zip(cases, outs):
            if o.get("ok") is False:
                found.append({"what": "%s: %s" % (c["k"], o.get("why")), "replay": {"case": c, "impl": o},
                              "fingerprint": fingerprint(c, o), "found_input": True})
        if found:
            break
    return found


def _crashsafe(orig, force_race):
    """run_go_cases, but (1) under the race detector in the thorough tier and (2) when the test process dies (a panic in one
    of the conn's own goroutines cannot be recovered by the harness) the case named by the harness's marker file is reported
    as a failing input of its own and the remaining cases are run again without it."""
    import os
    import re

    def f(ctx, gospec, cases, tag="main", timeout=900, race=False):
        race = race or force_race
        cur = ctx.path("out_%s.jsonl.cur" % tag)
        remaining = list(range(len(cases)))
        crashed = {}
        res = None
        for attempt in range(4):
            if os.path.exists(cur):
                os.remove(cur)
            sub = [cases[i] for i in remaining]
            res = orig(ctx, gospec, sub, tag=tag, timeout=3000 if race else timeout, race=race)
            if res[0] or not os.path.exists(cur):
                break
            j = int(open(cur).read().strip() or "-1")
            if not (0 <= j < len(remaining)):
                break
            m = re.search(r"^(panic: .*|fatal error: .*)$", res[3], re.M)
            crashed[remaining[j]] = (m.group(1) if m else "test process died") + " | " + res[3][-600:]
            del remaining[j]
        skipped = []
        if crashed and not res[0]:
            # still crashing: run the remaining cases without any hop history (their outputs are marked skipped)
            skipped = [i for i in remaining if cases[i]["k"] == "hop"]
            remaining = [i for i in remaining if cases[i]["k"] != "hop"]
            if os.path.exists(cur):
                os.remove(cur)
            res = orig(ctx, gospec, [cases[i] for i in remaining], tag=tag, timeout=timeout, race=race)
        ok, outs, params, log = res
        if not crashed or not ok:
            return res
        full = [None] * len(cases)
        for i in skipped:
            full[i] = {"i": i, "k": "hop", "skipped": True, "ok": True, "why": "", "log": [], "census": []}
        for i, o in zip(remaining, outs):
            full[i] = o
        for i, msg in crashed.items():
            full[i] = {"i": i, "k": cases[i]["k"], "panic": True, "ok": False, "log": [], "census": [],
                       "why": "the process crashed while running this history (panic in one of the conn's own goroutines)", "crash": msg}
        return True, full, params, log
    return f


def run(ctx):
    import sys
    orig = common.run_go_cases
    inner = _crashsafe(orig, ctx.tier == "thorough")

    def counting(ctx, gospec, cases, **kw):
        res = inner(ctx, gospec, cases, **kw)
        n = sum(1 for o in (res[1] or []) if o and o.get("premise"))
        if n:
            # not a verdict on the code: the harness's reference (net.SplitHostPort + net.ResolveIPAddr under the in-memory DNS
            # server) does not see the host part as the generator wrote it down; those cases are judged against the reference only
            ctx.say("NOTE: %d case(s) with a broken host premise (input class *:premise-broken)" % n)
        return res
    common.run_go_cases = counting
    try:
        return common.run_case_check(ctx, sys.modules[__name__])
    finally:
        common.run_go_cases = orig


def replay(ctx, path):
    import json
    r = json.load(open(path))
    c = r["replay"].get("case")
    if not c:
        print("replay file names a broken obligation/correspondence, no concrete input:", r["what"])
        return 1
    ok, outs, _, log = common.run_go_cases(ctx, GO, [c], tag="replay")
    print(json.dumps(outs, indent=1))
    return 0 if outs and outs[0].get("ok") else 1


LEVEL_TEXT = ("Machine-checked Coq theorems over a statement-by-statement Gallina model of ParsePortUnion/Normalize/Ports/Contains and of "
              "udpHopPacketConn as a transition system over the code's locked sections and channel operations. The model is tied to /repo "
              "on every run by regenerated constants, a differential run of the port-union functions, and replay of recorded socket-boundary "
              "logs of real concurrent runs (synctest, fake sockets) through the model's step function inside the Coq kernel.")
LEVEL_NOTE = ("Trusted: Coq kernel + vm_compute; hand-written model (tie is sampled); python/Go glue. No axioms.")
TECHNIQUE = "Coq proof (invariants over all action sequences of an LTS; induction on range lists) on a hand-written model + differential / trace-replay correspondence check in vm_compute"
DESIGN_REF = "DESIGN.md section 4 C19"
